//! C13 / C14-b on the serial channel task (create_rtu_client_task) over pseudo-terminals.
//! The port path is a symlink the harness points at a fresh pty slave (open succeeds) or leaves
//! dangling (open fails); the PortState listener is a lock-step gate.

use std::sync::Arc;
use std::time::{Duration, Instant};

use proptest::collection::vec;
use proptest::prelude::*;
use rodbus::client::{Channel, Listener, PortState, RequestParam};
use rodbus::{AddressRange, DecodeLevel, MaybeAsync, RequestError, SerialSettings, UnitId};
use serde::{Deserialize, Serialize};
use tokio::sync::{mpsc, oneshot};

use super::pty::Pty;
use super::*;
use crate::model::crc::rtu_frame;
use crate::model::framing::{deframe_rtu, Direction};
use crate::runner::CaseResult;

#[derive(Copy, Clone, Debug, PartialEq, Eq, Hash, Serialize, Deserialize)]
pub enum PortEnv {
    /// the path does not resolve: open fails
    Missing,
    /// a device answers requests
    Served,
    /// a device is there but never answers
    Silent,
    /// the device disappears when it receives the first request
    HangUp,
    /// the device disappears while the port is open and nothing is going on (the harness pulls
    /// it right after the Open notification was released): the channel must notice by itself
    HangUpIdle,
}

#[derive(Copy, Clone, Debug, PartialEq, Eq, Hash, Serialize, Deserialize)]
pub enum SAct {
    Enable,
    Disable,
    Submit,
    Shutdown,
    DropHandles,
}

#[derive(Clone, Debug, PartialEq, Eq, Hash, Serialize, Deserialize)]
pub struct C13sCase {
    pub min_ms: u16,
    pub max_ms: u16,
    pub envs: Vec<PortEnv>,
    pub gates: Vec<Vec<SAct>>,
    pub idle: Vec<SAct>,
    pub end_by_drop: bool,
}

pub fn arb_c13s() -> BoxedStrategy<C13sCase> {
    let act = prop_oneof![4 => Just(SAct::Enable), 3 => Just(SAct::Disable), 4 => Just(SAct::Submit)];
    let gate = prop_oneof![6 => Just(Vec::new()), 5 => act.clone().prop_map(|a| vec![a]), 1 => vec(act, 2..3)];
    let env = prop_oneof![3 => Just(PortEnv::Missing), 3 => Just(PortEnv::Served), 1 => Just(PortEnv::Silent), 2 => Just(PortEnv::HangUp), 2 => Just(PortEnv::HangUpIdle)];
    (
        // one script in ten with a retry delay of zero: the wait state is announced and left at once
        prop_oneof![9 => 20u16..35, 1 => Just(0u16)],
        1u16..=4,
        vec(env, 1..6),
        vec(gate, 2..12),
        vec(prop_oneof![2 => Just(SAct::Enable), 1 => Just(SAct::Disable), 2 => Just(SAct::Submit)], 0..3),
        any::<bool>(),
        proptest::option::weighted(0.4, (0usize..12, any::<bool>())),
    )
        .prop_map(|(min_ms, mult, envs, mut gates, idle, end_by_drop, early)| {
            if !gates[0].contains(&SAct::Enable) {
                gates[0].push(SAct::Enable);
            }
            if let Some((pos, drop)) = early {
                let pos = pos % gates.len();
                gates[pos].push(if drop { SAct::DropHandles } else { SAct::Shutdown });
                gates.truncate(pos + 1);
            }
            C13sCase {
                min_ms,
                max_ms: min_ms * mult,
                envs,
                gates,
                idle,
                end_by_drop,
            }
        })
        .boxed()
}

struct Gate {
    tx: mpsc::UnboundedSender<(PortState, oneshot::Sender<()>)>,
}

impl Listener<PortState> for Gate {
    fn update(&mut self, value: PortState) -> MaybeAsync<()> {
        let (rtx, rrx) = oneshot::channel();
        let sent = self.tx.send((value, rtx)).is_ok();
        MaybeAsync::asynchronous(async move {
            if sent {
                let _ = rrx.await;
            }
        })
    }
}

fn name(s: &PortState) -> &'static str {
    match s {
        PortState::Disabled => "Disabled",
        PortState::Wait(_) => "Wait",
        PortState::Open => "Open",
        PortState::Shutdown => "Shutdown",
    }
}

/// a device on the master side of a pty
struct Device {
    stop: Arc<std::sync::atomic::AtomicBool>,
    /// tells the device thread to close its side now
    pull: Arc<std::sync::atomic::AtomicBool>,
}

impl Drop for Device {
    fn drop(&mut self) {
        self.stop.store(true, std::sync::atomic::Ordering::SeqCst);
    }
}

fn start_device(mut pty: Pty, env: PortEnv) -> Device {
    let stop = Arc::new(std::sync::atomic::AtomicBool::new(false));
    let s2 = stop.clone();
    let pull = Arc::new(std::sync::atomic::AtomicBool::new(false));
    let p2 = pull.clone();
    std::thread::spawn(move || {
        let t0 = Instant::now();
        let mut acc: Vec<u8> = Vec::new();
        let mut opened = false;
        loop {
            if s2.load(std::sync::atomic::Ordering::SeqCst) {
                return; // dropping the pty hangs up
            }
            if p2.load(std::sync::atomic::Ordering::SeqCst) {
                pty.close_master();
                return;
            }
            let b = pty.read_n(1, Duration::from_millis(5));
            if !b.is_empty() {
                opened = true;
            }
            // the device disappears as soon as it receives the first byte of a request
            if env == PortEnv::HangUp && !b.is_empty() {
                let _ = (opened, t0);
                pty.close_master();
                return;
            }
            if b.is_empty() {
                continue;
            }
            acc.extend_from_slice(&b);
            acc.extend_from_slice(&pty.drain(Duration::from_millis(2)));
            if env == PortEnv::Served {
                let (frames, _) = deframe_rtu(Direction::Request, &acc);
                if !frames.is_empty() {
                    for f in &frames {
                        let _ = pty.write(&rtu_frame(f.addr, &[3, 2, 0x12, 0x34]));
                    }
                    acc.clear();
                }
            } else {
                acc.clear();
            }
        }
    });
    Device { stop, pull }
}

pub fn check_c13s(case: &C13sCase) -> CaseResult {
    retry3(|slow| run_once(case, slow, false))
}

pub fn check_c14s(case: &C13sCase) -> CaseResult {
    retry3(|slow| run_once(case, slow, true))
}

struct Sub {
    fast: bool,
    gate: Option<&'static str>,
    t0: Instant,
    rx: oneshot::Receiver<(Result<(), RequestError>, Instant)>,
}

fn run_once(case: &C13sCase, slow: u32, delays: bool) -> CaseResult {
    let rt = rt(2);
    let gate_wait = Duration::from_millis(400 * slow as u64);
    let bound = Duration::from_millis(2000 * slow as u64);
    let dir = std::env::temp_dir().join(format!("verif-pty-{}-{:x}", std::process::id(), crate::runner::hash_of(&(std::thread::current().id(), Instant::now()))));
    std::fs::create_dir_all(&dir).map_err(|e| format!("INFRA: {}", e))?;
    let link = dir.join("port");
    let link_str = link.to_string_lossy().into_owned();
    let result = rt.block_on(async {
        let (gtx, mut grx) = mpsc::unbounded_channel();
        let min = Duration::from_millis(case.min_ms as u64);
        let max = Duration::from_millis(case.max_ms as u64);
        let (channel, task) = rodbus::client::create_rtu_client_task(
            &link_str,
            SerialSettings::default(),
            16,
            rodbus::doubling_retry_strategy(min, max),
            DecodeLevel::nothing(),
            Some(Box::new(Gate { tx: gtx })),
        );
        let join = tokio::spawn(task.run());
        let mut channel: Option<Channel> = Some(channel);
        let mut settings: Vec<bool> = Vec::new();
        let mut processed_min = 0usize;
        let enabled_after = |s: &[bool], j: usize| if j == 0 { false } else { s[j - 1] };
        let mut end_requested = false;
        let mut states: Vec<PortState> = Vec::new();
        let mut attempt = 0usize;
        let mut device: Option<Device> = None;
        let mut next_env: Option<PortEnv> = None;
        let mut failures = 0u32;
        let mut wait_released: Option<(Duration, Instant)> = None;
        let mut subs: Vec<Sub> = Vec::new();
        let mut gate_idx = 0usize;
        let mut idle_idx = 0usize;
        let mut seen_shutdown = false;
        let mut ended_from: Option<&'static str> = None;
        let mut delays_checked = 0u32;
        // the device was pulled while the port was open and idle, at this instant
        let mut pulled_idle: Option<Instant> = None;
        let mut idle_losses = 0u32;
        let started = Instant::now();

        // prepare the environment of the next open attempt
        macro_rules! prepare_env {
            () => {{
                let env = *case.envs.get(attempt).unwrap_or(case.envs.last().unwrap());
                attempt += 1;
                device = None; // hang up whatever was there
                let _ = std::fs::remove_file(&link);
                if env != PortEnv::Missing {
                    let pty = Pty::open()?;
                    std::os::unix::fs::symlink(&pty.slave_path, &link).map_err(|e| format!("INFRA: symlink {}", e))?;
                    device = Some(start_device(pty, env));
                }
                next_env = Some(env);
            }};
        }

        macro_rules! do_act {
            ($a:expr, $gate:expr) => {{
                match $a {
                    SAct::Enable => {
                        if let (Some(ch), false) = (channel.as_ref(), end_requested) {
                            match tokio::time::timeout(bound, ch.enable()).await {
                                Ok(Ok(())) => settings.push(true),
                                _ => return Err("enable() failed on a live channel".to_string()),
                            }
                        }
                    }
                    SAct::Disable => {
                        if let (Some(ch), false) = (channel.as_ref(), end_requested) {
                            match tokio::time::timeout(bound, ch.disable()).await {
                                Ok(Ok(())) => settings.push(false),
                                _ => return Err("disable() failed on a live channel".to_string()),
                            }
                        }
                    }
                    SAct::Submit => {
                        if let (Some(ch), false) = (channel.as_ref(), end_requested) {
                            let gate: Option<&'static str> = $gate;
                            let pending_enable = (processed_min..settings.len()).any(|j| settings[j]);
                            let fast = matches!(gate, Some("Disabled") | Some("Wait")) && !pending_enable;
                            let timeout = if fast { Duration::from_secs(30) } else { Duration::from_millis(60) };
                            let ch2 = ch.clone();
                            let (tx, rx) = oneshot::channel();
                            let t0 = Instant::now();
                            tokio::spawn(async move {
                                let r = ch2
                                    .read_holding_registers(RequestParam::new(UnitId::new(1), timeout), AddressRange::try_from(0, 1).unwrap())
                                    .await;
                                let _ = tx.send((r.map(|_| ()), Instant::now()));
                            });
                            tokio::time::sleep(Duration::from_millis(2)).await;
                            subs.push(Sub { fast, gate, t0, rx });
                        }
                    }
                    SAct::Shutdown => {
                        if let (Some(ch), false) = (channel.as_ref(), end_requested) {
                            let _ = tokio::time::timeout(bound, ch.shutdown()).await;
                            end_requested = true;
                            ended_from = states.last().map(name);
                        }
                    }
                    SAct::DropHandles => {
                        if !end_requested {
                            channel = None;
                            end_requested = true;
                            ended_from = states.last().map(name);
                        }
                    }
                }
            }};
        }

        loop {
            if started.elapsed() > Duration::from_secs(20 * slow as u64) {
                return Err("INFRA: case ran for more than 20 s".to_string());
            }
            match tokio::time::timeout(gate_wait, grx.recv()).await {
                Ok(Some((state, release))) => {
                    let now = Instant::now();
                    let n = name(&state);
                    let prev = states.last().copied();
                    if states.is_empty() && state != PortState::Disabled {
                        return Err(format!("first state is {:?}, must be Disabled", state));
                    }
                    if seen_shutdown {
                        return Err(format!("state {:?} reported after Shutdown", state));
                    }
                    if let Some(p) = prev {
                        let legal = matches!(
                            (name(&p), n),
                            ("Disabled", "Open") | ("Disabled", "Wait") | ("Disabled", "Shutdown")
                                | ("Open", "Wait") | ("Open", "Disabled") | ("Open", "Shutdown")
                                | ("Wait", "Open") | ("Wait", "Wait") | ("Wait", "Disabled") | ("Wait", "Shutdown")
                        );
                        if !legal {
                            return Err(format!("illegal port state path: {} directly after {}", n, name(&p)));
                        }
                    }
                    match n {
                        "Shutdown" => {
                            if !end_requested {
                                return Err("Shutdown reported without a shutdown request or handle drop".to_string());
                            }
                            seen_shutdown = true;
                        }
                        "Disabled" if states.is_empty() => {}
                        _ => {
                            let want = n != "Disabled";
                            let lo = if n == "Disabled" { processed_min.max(1) } else { processed_min };
                            match (lo..=settings.len()).find(|j| enabled_after(&settings, *j) == want) {
                                Some(j) => processed_min = j,
                                None => {
                                    return Err(format!(
                                        "port state {} is not consistent with the settings sent so far {:?} ({} processed at least)",
                                        n, settings, processed_min
                                    ))
                                }
                            }
                        }
                    }
                    // what the environment of the attempt demanded
                    if let Some(env) = next_env {
                        if matches!(prev.map(|p| name(&p)), Some("Disabled") | Some("Wait")) && (n == "Open" || n == "Wait") {
                            let should_open = env != PortEnv::Missing;
                            if should_open != (n == "Open") {
                                return Err(format!("port environment {:?} but the next state is {}", env, n));
                            }
                        }
                    }
                    // delays
                    match state {
                        PortState::Open => failures = 0,
                        PortState::Wait(d) => {
                            let after_open = matches!(prev, Some(PortState::Open));
                            let expect = if after_open {
                                min
                            } else {
                                failures += 1;
                                std::cmp::min(min * 2u32.pow(failures.min(16) - 1), max)
                            };
                            if delays && d != expect {
                                return Err(format!(
                                    "announced wait {:?}, the strategy says {:?} ({} after {} consecutive failed opens, min {:?} max {:?})",
                                    d,
                                    expect,
                                    if after_open { "port lost" } else { "open failed" },
                                    failures,
                                    min,
                                    max
                                ));
                            }
                            delays_checked += 1;
                        }
                        _ => {}
                    }
                    if let Some((d, released)) = wait_released.take() {
                        if n == "Open" || n == "Wait" {
                            let gap = now.duration_since(released);
                            if delays && gap + Duration::from_millis(1) < d {
                                return Err(format!("next open attempt came {:?} after a wait of {:?} was announced", gap, d));
                            }
                        }
                    }
                    if pulled_idle.take().is_some() && n == "Wait" {
                        idle_losses += 1;
                    }
                    states.push(state);
                    // the next open attempt follows a Disabled (after enable) or a Wait gate
                    if n == "Disabled" || n == "Wait" {
                        prepare_env!();
                    }
                    let acts = match case.gates.get(gate_idx) {
                        Some(a) => a.clone(),
                        None => {
                            if let Some(a) = case.idle.get(idle_idx).copied() {
                                idle_idx += 1;
                                vec![a]
                            } else if case.end_by_drop {
                                vec![SAct::DropHandles]
                            } else {
                                vec![SAct::Shutdown]
                            }
                        }
                    };
                    gate_idx += 1;
                    let subs_at_this_gate = subs.len();
                    for a in acts {
                        do_act!(a, Some(n));
                    }
                    if let PortState::Wait(d) = state {
                        wait_released = Some((d, Instant::now()));
                    }
                    let _ = release.send(());
                    if n == "Open" && next_env == Some(PortEnv::HangUpIdle) && !end_requested && settings.last() != Some(&false) && subs_at_this_gate == subs.len() {
                        if let Some(d) = device.as_ref() {
                            d.pull.store(true, std::sync::atomic::Ordering::SeqCst);
                            pulled_idle = Some(Instant::now());
                        }
                    }
                    if seen_shutdown {
                        break;
                    }
                }
                Ok(None) => break,
                Err(_) => {
                    // the device went away while the port was open and idle: a wait state must
                    // have been announced by now
                    if let Some(t) = pulled_idle {
                        if !end_requested && states.last().map(|s| name(s)) == Some("Open") {
                            return Err(format!(
                                "the device was pulled {:?} ago while the port was open and no request was outstanding, but the listener has not been told of a wait state (states {:?})",
                                t.elapsed(),
                                states.iter().map(name).collect::<Vec<_>>()
                            ));
                        }
                    }
                    // nothing has happened for a while: if the last thing the task was told is
                    // "disable", it must have said Disabled by now
                    if !end_requested && settings.last() == Some(&false) {
                        let last = states.last().map(|s| name(s));
                        if last.is_some() && last != Some("Disabled") {
                            return Err(format!(
                                "disable() was the last setting sent and nothing else is pending, but {:?} after it the listener has not been told Disabled (last state {})",
                                gate_wait,
                                last.unwrap_or("?")
                            ));
                        }
                    }
                    if end_requested {
                        return Err(format!(
                            "task did not report Shutdown within {:?} after shutdown / dropping all handles (last state {:?})",
                            gate_wait,
                            states.last()
                        ));
                    }
                    if let Some(a) = case.idle.get(idle_idx).copied() {
                        idle_idx += 1;
                        do_act!(a, None::<&'static str>);
                    } else if case.end_by_drop {
                        do_act!(SAct::DropHandles, None::<&'static str>);
                    } else {
                        do_act!(SAct::Shutdown, None::<&'static str>);
                    }
                }
            }
        }
        if !seen_shutdown {
            return Err("the listener never saw Shutdown".to_string());
        }
        if tokio::time::timeout(bound, join).await.is_err() {
            return Err("the serial task's JoinHandle did not resolve after Shutdown".to_string());
        }
        if let Some(ch) = channel.as_ref() {
            match tokio::time::timeout(bound, ch.enable()).await {
                Ok(Err(_)) => {}
                other => return Err(format!("enable() after shutdown gave {:?}", other.map(|r| r.is_ok()))),
            }
        }
        let mut fast_checked = false;
        for (i, s) in subs.into_iter().enumerate() {
            match tokio::time::timeout(bound, s.rx).await {
                Ok(Ok((res, at))) => {
                    if s.fast {
                        fast_checked = true;
                        match res {
                            Err(RequestError::NoConnection) => {
                                if at.duration_since(s.t0) > bound {
                                    return Err(format!("request {} at gate {:?} failed only after {:?}", i, s.gate, at.duration_since(s.t0)));
                                }
                            }
                            Err(RequestError::Shutdown) if end_requested => {}
                            other => return Err(format!("request {} submitted while the port was not open (gate {:?}) got {:?}", i, s.gate, other)),
                        }
                    }
                }
                _ => return Err(format!("request {} (gate {:?}) never completed", i, s.gate)),
            }
        }
        drop(device);
        let mut ok = CaseOk::new();
        let mut distinct: Vec<&'static str> = states.iter().map(name).collect();
        distinct.sort();
        distinct.dedup();
        if fast_checked {
            ok.label("fast_no_connection_checked");
        }
        if delays_checked >= 2 {
            ok.label("delays>=2");
        }
        if idle_losses > 0 {
            ok.label("port_lost_while_idle");
        }
        if let Some(f) = ended_from {
            ok.label(match f {
                "Disabled" => "end_from:Disabled",
                "Open" => "end_from:Open",
                _ => "end_from:Wait",
            });
        }
        ok.nontrivial = if delays {
            delays_checked >= 2
        } else {
            distinct.len() >= 3 && ended_from != Some("Disabled")
        };
        Ok(ok)
    });
    let _ = std::fs::remove_dir_all(&dir);
    result
}

/// Scripts for C14-b on the serial task: mostly failing opens and devices that hang up
pub fn arb_c14s() -> BoxedStrategy<C13sCase> {
    let env = prop_oneof![5 => Just(PortEnv::Missing), 3 => Just(PortEnv::HangUp)];
    let gate = prop_oneof![1 => Just(Vec::new()), 8 => Just(vec![SAct::Submit])];
    (20u16..30, 1u16..=4, vec(env, 3..7), vec(gate, 5..10), any::<bool>())
        .prop_map(|(min_ms, mult, envs, mut gates, end_by_drop)| {
            gates[0] = vec![SAct::Enable];
            C13sCase {
                min_ms,
                max_ms: min_ms * mult,
                envs,
                gates,
                idle: vec![],
                end_by_drop,
            }
        })
        .boxed()
}
