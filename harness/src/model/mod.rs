pub mod crc;
pub mod framing;
pub mod pdu;
pub mod server;
pub mod client;
