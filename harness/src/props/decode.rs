//! C20: protocol decoding (logging) is purely observational.

use proptest::prelude::*;
use serde::{Deserialize, Serialize};

use crate::gen::*;
use crate::props::cli::{arb_c11, arb_c12, stream_cli_case, StreamCase};
use crate::props::srv::{arb_auth_case, arb_srv_case, frame_bytes, SrvCase};
use crate::runner::{CaseOk, CaseResult};
use crate::simcli::*;
use crate::simsrv::*;

#[derive(Clone, Debug, PartialEq, Eq, Hash, Serialize, Deserialize)]
pub struct C20Srv {
    pub base: SrvCase,
    /// how each frame is cut into reads
    pub cut: Partition,
    pub random_level: Decode,
    pub new_level: Decode,
    /// position (in the step list) at which the level is changed through the handle
    pub change_at: u16,
}

pub fn arb_c20_srv() -> BoxedStrategy<C20Srv> {
    (
        prop_oneof![3 => arb_srv_case(), 1 => arb_auth_case()],
        prop_oneof![
            2 => Just(Partition::Whole),
            2 => prop::sample::select(vec![1usize, 2, 3, 5, 7, 8, 100]).prop_map(Partition::Every),
            1 => proptest::collection::vec(1usize..12, 1..4).prop_map(Partition::Cuts),
        ],
        arb_decode_any(),
        arb_decode_any(),
        any::<u16>(),
    )
        .prop_map(|(base, cut, random_level, new_level, change_at)| C20Srv {
            base,
            cut,
            random_level,
            new_level,
            change_at,
        })
        .boxed()
}

fn srv_steps(case: &C20Srv, change: Option<Decode>) -> (Vec<Step>, bool) {
    let fr = case.base.cfg.framing;
    let mut steps = Vec::new();
    // positions after which a frame is incomplete
    let mut mid_frame_positions: Vec<usize> = Vec::new();
    for f in &case.base.frames {
        let bytes = frame_bytes(fr, f);
        let chunks = case.cut.apply(&bytes);
        let n = chunks.len();
        for (i, c) in chunks.into_iter().enumerate() {
            steps.push(Step::Bytes(c));
            steps.push(Step::Pause);
            if i + 1 < n {
                mid_frame_positions.push(steps.len());
            }
        }
    }
    let mut landed_mid_frame = false;
    if let Some(level) = change {
        let pos = case.change_at as usize % (steps.len() + 1);
        landed_mid_frame = mid_frame_positions.contains(&pos);
        steps.insert(pos, Step::SetDecode(level));
        // let the command be processed before the next bytes arrive
        steps.insert(pos + 1, Step::Pause);
    }
    steps.push(Step::Eof);
    (steps, landed_mid_frame)
}

fn observe_srv(run: &SrvRun) -> (Vec<(std::time::Duration, Vec<u8>)>, Vec<crate::app::Call>, String) {
    (
        run.writes.clone(),
        run.calls.clone(),
        format!("{:?} / {:?}", run.end, run.final_units),
    )
}

pub fn check_c20_srv(case: &C20Srv) -> CaseResult {
    let mut ok = CaseOk::new();
    let opt = SrvOptions {
        select_seed: case.base.select_seed,
        ..Default::default()
    };
    let with_level = |d: Decode| {
        let mut cfg = case.base.cfg.clone();
        cfg.decode = d;
        cfg
    };
    let (plain_steps, _) = srv_steps(case, None);
    let base = run_server(&with_level(Decode::NOTHING), &plain_steps, &opt);
    let base_obs = observe_srv(&base);
    // the Pause steps of the changed scripts add virtual time: compare writes without the
    // timestamps for those, with timestamps for the unchanged scripts
    let strip = |o: &(Vec<(std::time::Duration, Vec<u8>)>, Vec<crate::app::Call>, String)| {
        (
            o.0.iter().map(|w| w.1.clone()).collect::<Vec<_>>(),
            o.1.clone(),
            o.2.clone(),
        )
    };
    for (name, level) in [("highest level", Decode::MAX), ("random level", case.random_level)] {
        let run = run_server(&with_level(level), &plain_steps, &opt);
        if observe_srv(&run) != base_obs {
            return Err(format!(
                "server session at the {} ({:?}) behaves differently from decode level nothing: {}",
                name,
                level,
                diff_srv(&base, &run)
            ));
        }
    }
    // the same with a transport that accepts a reply in pieces (back-pressure): what is logged
    // about a write must not change what is written
    {
        let stalled = SrvOptions {
            select_seed: case.base.select_seed,
            write_stall: Some((1 + (case.base.select_seed as usize) % 40, 1 + case.base.select_seed % 3)),
            ..Default::default()
        };
        let b = run_server(&with_level(Decode::NOTHING), &plain_steps, &stalled);
        for level in [Decode::MAX, case.random_level] {
            let run = run_server(&with_level(level), &plain_steps, &stalled);
            if observe_srv(&run) != observe_srv(&b) {
                return Err(format!(
                    "server session at decode level {:?} behaves differently from level nothing when the transport accepts replies in pieces: {}",
                    level,
                    diff_srv(&b, &run)
                ));
            }
        }
        ok.label("static_levels_under_backpressure");
    }
    for (name, from, to) in [
        ("nothing -> generated level", Decode::NOTHING, case.new_level),
        ("generated level -> generated level", case.random_level, case.new_level),
        ("highest -> nothing", Decode::MAX, Decode::NOTHING),
    ] {
        let (steps, mid) = srv_steps(case, Some(to));
        let run = run_server(&with_level(from), &steps, &opt);
        if strip(&observe_srv(&run)) != strip(&base_obs) {
            return Err(format!(
                "changing the decode level ({}) at step {} changes the session's behaviour: {}",
                name,
                case.change_at as usize % (plain_steps.len()),
                diff_srv(&base, &run)
            ));
        }
        if mid {
            ok.label("change:mid_frame");
            ok.nontrivial = true;
        }
    }
    if !base.writes.is_empty() {
        ok.label("has_replies");
    }
    if case.base.cfg.auth.is_some() {
        ok.label("auth");
    }
    Ok(ok)
}

fn diff_srv(a: &SrvRun, b: &SrvRun) -> String {
    if a.writes.len() != b.writes.len() {
        return format!("{} vs {} frames written", a.writes.len(), b.writes.len());
    }
    for (i, (x, y)) in a.writes.iter().zip(b.writes.iter()).enumerate() {
        if x.1 != y.1 {
            return format!("reply {} differs", i);
        }
    }
    if a.calls != b.calls {
        return format!("handler calls differ ({} vs {})", a.calls.len(), b.calls.len());
    }
    if a.end != b.end {
        return format!("session end {:?} vs {:?}", a.end, b.end);
    }
    if a.final_units != b.final_units {
        return "final application state differs".to_string();
    }
    "timestamps differ".to_string()
}

// ---------------------------------------------------------------------------------------------
// client

#[derive(Clone, Debug, PartialEq, Eq, Hash, Serialize, Deserialize)]
pub struct C20Cli {
    pub base: StreamCase,
    pub random_level: Decode,
    pub new_level: Decode,
    pub change_at: u16,
}

pub fn arb_c20_cli() -> BoxedStrategy<C20Cli> {
    (
        prop_oneof![1 => arb_c11(), 1 => arb_c12()],
        arb_decode_any(),
        arb_decode_any(),
        any::<u16>(),
    )
        .prop_map(|(base, random_level, new_level, change_at)| C20Cli {
            base,
            random_level,
            new_level,
            change_at,
        })
        .boxed()
}

type CliObs = (
    Vec<(usize, std::time::Duration, Res)>,
    Vec<(std::time::Duration, Vec<u8>)>,
    Vec<(std::time::Duration, LoopEvent)>,
);

fn observe_cli(run: &CliRun) -> CliObs {
    let mut comps: Vec<_> = run
        .ledger
        .completions
        .iter()
        .map(|c| (c.id, c.at, c.res.clone()))
        .collect();
    comps.sort_by_key(|c| c.0);
    let writes = run
        .peers
        .iter()
        .flat_map(|p| p.writes.iter().cloned())
        .collect();
    (comps, writes, run.events.clone())
}

pub fn check_c20_cli(case: &C20Cli) -> CaseResult {
    let mut ok = CaseOk::new();
    // scripts in which two events coincide to the millisecond are decided by tokio's select!
    // tie-break, which an extra queued command legitimately perturbs: not judged
    let j = crate::props::cli::judge_stream(&case.base);
    if j.ok.labels.contains(&"tie:not_judged") {
        ok.label("tie:not_judged");
        ok.dontcare += 1;
        return Ok(ok);
    }
    let mut plain = stream_cli_case(&case.base);
    plain.cfg.decode = Decode::NOTHING;
    // room for the extra command so that it displaces nothing
    plain.cfg.queue = 32;
    let base = observe_cli(&run_client(&plain));
    for (name, level) in [("highest level", Decode::MAX), ("random level", case.random_level)] {
        let mut c = plain.clone();
        c.cfg.decode = level;
        let obs = observe_cli(&run_client(&c));
        if obs != base {
            return Err(format!(
                "client at the {} ({:?}) behaves differently from decode level nothing: {}",
                name,
                level,
                diff_cli(&base, &obs)
            ));
        }
    }
    // static levels once more over a transport that accepts requests in pieces
    {
        let mut stalled = plain.clone();
        if let Some(conn) = stalled.conns.first_mut() {
            conn.write_stall = Some((1 + (case.base.select_seed % 40) as u32, 1 + (case.base.select_seed % 3) as u32));
        }
        let b = observe_cli(&run_client(&stalled));
        for level in [Decode::MAX, case.random_level] {
            let mut c = stalled.clone();
            c.cfg.decode = level;
            let obs = observe_cli(&run_client(&c));
            if obs != b {
                return Err(format!(
                    "client at decode level {:?} behaves differently from level nothing when the transport accepts requests in pieces: {}",
                    level,
                    diff_cli(&b, &obs)
                ));
            }
        }
        ok.label("static_levels_under_backpressure");
    }
    for (name, from, to) in [
        ("nothing -> generated level", Decode::NOTHING, case.new_level),
        ("generated level -> generated level", case.random_level, case.new_level),
        ("highest -> nothing", Decode::MAX, Decode::NOTHING),
    ] {
        let mut c = plain.clone();
        c.cfg.decode = from;
        let pos = case.change_at as usize % (c.ops.len() + 1);
        c.ops.insert(pos, COp::SetDecode(0, to));
        let submits_before = c.ops[..pos]
            .iter()
            .filter(|o| matches!(o, COp::Submit { .. }))
            .count();
        let obs = observe_cli(&run_client(&c));
        if obs != base {
            return Err(format!(
                "changing the decode level ({}) after {} submissions changes the client's behaviour: {}",
                name,
                submits_before,
                diff_cli(&base, &obs)
            ));
        }
        if submits_before >= 1 && submits_before < case.base.requests.len() {
            ok.label("change:while_requests_queued");
            ok.nontrivial = true;
        }
    }
    Ok(ok)
}

fn diff_cli(a: &CliObs, b: &CliObs) -> String {
    if a.1 != b.1 {
        return format!("transmitted frames differ ({} vs {})", a.1.len(), b.1.len());
    }
    for (x, y) in a.0.iter().zip(b.0.iter()) {
        if x != y {
            return format!("request {}: {:?} at {:?} vs {:?} at {:?}", x.0, x.2, x.1, y.2, y.1);
        }
    }
    if a.0.len() != b.0.len() {
        return format!("{} vs {} completions", a.0.len(), b.0.len());
    }
    format!("session events differ: {:?} vs {:?}", a.2, b.2)
}


// ---------------------------------------------------------------------------------------------
// C20 over the histories of C10 and the chunked streams of C05/C06: the same script at the lowest
// level, at the highest and at the level the case carries must give the same transcript, results,
// completion instants and outer-loop events (static levels: no command is added, so the schedule
// is the same down to tokio's tie-breaks)

pub fn check_c20_history(case: &CliCase) -> CaseResult {
    let mut ok = CaseOk::new();
    let mut plain = case.clone();
    plain.cfg.decode = Decode::NOTHING;
    let base_run = run_client(&plain);
    let base = observe_cli(&base_run);
    for level in [Decode::MAX, case.cfg.decode] {
        let mut c = case.clone();
        c.cfg.decode = level;
        let obs = observe_cli(&run_client(&c));
        if obs != base {
            return Err(format!(
                "a C10 history at decode level {:?} behaves differently from level nothing: {}",
                level,
                diff_cli(&base, &obs)
            ));
        }
    }
    if base_run.ledger.completions.len() >= 3 {
        ok.label("completions>=3");
    }
    if base_run.peers.len() >= 2 {
        ok.label("reconnected");
    }
    ok.nontrivial = base_run.ledger.completions.len() >= 3 && base_run.peers.len() >= 2;
    Ok(ok)
}

// ---------------------------------------------------------------------------------------------
// C14 / C20: the RTU server's wait between two attempts to open its port

/// `SessionTask::sleep_for(delay)` is what the RTU server task does while its port is closed.
/// Decode-level changes sent through the ServerHandle meanwhile must not end the wait early;
/// a shutdown (or the last handle going away) must end it at once.
#[derive(Clone, Debug, PartialEq, Eq, Hash, Serialize, Deserialize)]
pub struct WaitCase {
    pub delay_ms: u32,
    /// level changes at these offsets (ms after the wait began; those at or beyond the delay
    /// are sent after it is over)
    pub changes: Vec<(u32, Decode)>,
    /// 0 = nothing else, 1 = ServerHandle::shutdown at `end_at`, 2 = handle dropped at `end_at`
    pub end: u8,
    pub end_at_ms: u32,
    pub select_seed: u64,
}

pub fn arb_wait() -> BoxedStrategy<WaitCase> {
    (
        prop::sample::select(vec![0u32, 1, 50, 1000, 60_000]),
        proptest::collection::vec((0u32..1200, arb_decode_any()), 0..12),
        prop_oneof![3 => Just(0u8), 1 => Just(1u8), 1 => Just(2u8)],
        0u32..1200,
        any::<u64>(),
    )
        .prop_map(|(delay_ms, mut changes, end, end_at_ms, select_seed)| {
            changes.sort_by_key(|c| c.0);
            WaitCase {
                delay_ms,
                changes,
                end,
                end_at_ms,
                select_seed,
            }
        })
        .boxed()
}

pub fn check_wait(case: &WaitCase) -> CaseResult {
    use rodbus::server::ServerHandlerMap;
    use rodbus::verif::{server_session, Framing as RFraming};
    use std::time::Duration;
    crate::trace::init();
    let rt = crate::sim::runtime(case.select_seed);
    let case = case.clone();
    rt.block_on(async move {
        let log: crate::app::CallLog = Default::default();
        let map = ServerHandlerMap::single(
            rodbus::UnitId::new(1),
            rodbus::server::RequestHandler::wrap(crate::app::LogHandler::new(1, Default::default(), log)),
        );
        let (handle, mut session) = server_session(RFraming::Rtu, map, None, Decode::NOTHING.to_rodbus());
        let start = tokio::time::Instant::now();
        let delay = Duration::from_millis(case.delay_ms as u64);
        let waiter = tokio::spawn(async move {
            let r = session.sleep_for(delay).await;
            (r.is_ok(), tokio::time::Instant::now())
        });
        tokio::task::yield_now().await;
        let mut handle = Some(handle);
        // the script: level changes and the end action in time order
        let mut events: Vec<(u32, Option<Decode>)> = case.changes.iter().map(|(t, d)| (*t, Some(*d))).collect();
        if case.end != 0 {
            events.push((case.end_at_ms, None));
        }
        events.sort_by_key(|e| e.0);
        let mut changes_before_end = 0usize;
        let mut ended_by_script: Option<Duration> = None;
        for (t, ev) in events {
            let at = start + Duration::from_millis(t as u64);
            tokio::time::sleep_until(at).await;
            tokio::task::yield_now().await;
            match ev {
                Some(level) => {
                    if let Some(h) = handle.as_mut() {
                        // the queue is bounded: a send that does not fit must not block the script
                        let _ = tokio::time::timeout(Duration::from_millis(0), h.set_decode_level(level.to_rodbus())).await;
                        if t < case.delay_ms && ended_by_script.is_none() {
                            changes_before_end += 1;
                        }
                    }
                }
                None => {
                    if ended_by_script.is_none() {
                        ended_by_script = Some(Duration::from_millis(t as u64));
                    }
                    if case.end == 1 {
                        if let Some(h) = handle.as_ref() {
                            let _ = tokio::time::timeout(Duration::from_millis(0), h.shutdown()).await;
                        }
                    } else {
                        handle = None;
                    }
                }
            }
            tokio::task::yield_now().await;
        }
        let (ok_result, ended_at) = match tokio::time::timeout(Duration::from_secs(200_000), waiter).await {
            Ok(Ok(x)) => x,
            Ok(Err(e)) => return Err(format!("the wait panicked: {}", e)),
            Err(_) => return Err(format!("a wait of {} ms was still going on after 200000 s", case.delay_ms)),
        };
        let took = ended_at - start;
        let mut ok = CaseOk::new();
        let cut_short = matches!(ended_by_script, Some(t) if t < delay);
        if cut_short {
            let t = ended_by_script.unwrap();
            if ok_result || took != t {
                return Err(format!(
                    "wait of {} ms with {} at {:?}: it ended at {:?} reporting {}; it has to end at once, reporting shutdown",
                    case.delay_ms,
                    if case.end == 1 { "ServerHandle::shutdown()" } else { "the last handle dropped" },
                    t,
                    took,
                    if ok_result { "that the delay is over" } else { "shutdown" }
                ));
            }
            ok.label("wait_ended_by_shutdown");
        } else {
            if !ok_result || took != delay {
                return Err(format!(
                    "wait of {} ms with {} decode-level changes sent meanwhile (at {:?} ms): it ended after {:?}{}; the delay announced is the delay waited",
                    case.delay_ms,
                    changes_before_end,
                    case.changes.iter().map(|c| c.0).filter(|t| *t < case.delay_ms).collect::<Vec<_>>(),
                    took,
                    if ok_result { "" } else { " reporting shutdown" }
                ));
            }
        }
        if changes_before_end > 0 {
            ok.label("level_changes_during_the_wait");
        }
        if changes_before_end > 8 {
            ok.label("more_changes_than_the_queue_holds");
        }
        ok.nontrivial = changes_before_end > 0;
        drop(handle);
        Ok(ok)
    })
}
