//! C04 over real sockets: the production TCP and TLS client channels against a scripted peer on
//! loopback. The simulated transport of the other C04 search goes through the hook's own I/O arm;
//! this search exercises the TCP and TLS arms of the client's physical layer (reads that return
//! partial replies, replies preceded by frames nobody asked for, exceptions, silence), and checks
//! that what the caller gets is exactly what the reply carried.

use std::sync::{Arc, Mutex};
use std::time::Duration;

use proptest::collection::vec;
use proptest::prelude::*;
use rodbus::client::{ClientState, HostAddr, Listener};
use rodbus::{ClientOptions, MaybeAsync};
use serde::{Deserialize, Serialize};
use tokio::io::{AsyncReadExt, AsyncWriteExt};
use tokio::net::TcpListener;

use super::c09::{min_tls, path, peer_server_config, Offer};
use super::*;
use crate::model::framing::{deframe_mbap, mbap_frame};
use crate::model::pdu::{classify_reply, exception_pdu, genuine_reply, ReplyClass};
use crate::props::cli::arb_valid_req;
use crate::runner::CaseResult;
use crate::simcli::{do_request, genuine_values, ReqSpec, Res};

#[derive(Clone, Debug, PartialEq, Eq, Hash, Serialize, Deserialize)]
pub enum Answer {
    /// the genuine reply carrying values derived from the seed
    Genuine(u64),
    Exception(u8),
    /// nothing: the request times out, the connection stays
    Silent,
    /// the genuine reply, held back so that it completes well inside the request's timeout but in
    /// its last third (serial search only): it still counts
    NearDeadline(u64),
}

#[derive(Clone, Debug, PartialEq, Eq, Hash, Serialize, Deserialize)]
pub struct Exchange {
    pub unit: u8,
    pub req: ReqSpec,
    pub answer: Answer,
    /// a well-formed frame with a foreign transaction id sent first
    pub stale_first: bool,
    /// the reply is written in pieces: cut positions (mod length) and pause between them in ms
    pub cuts: Vec<(u16, u8)>,
}

#[derive(Clone, Debug, PartialEq, Eq, Hash, Serialize, Deserialize)]
pub struct NetCliCase {
    pub tls: bool,
    pub exchanges: Vec<Exchange>,
    /// serial search only: baud rate of the port (the library derives its inter-character delay
    /// from it: 128 ms at 300 baud)
    #[serde(default)]
    pub baud: u32,
}

pub fn arb_net_cli() -> BoxedStrategy<NetCliCase> {
    let answer = prop_oneof![
        8 => any::<u64>().prop_map(Answer::Genuine),
        2 => any::<u8>().prop_map(Answer::Exception),
        1 => Just(Answer::Silent),
    ];
    let ex = (any::<u8>(), arb_valid_req(), answer, prop::bool::weighted(0.2), vec((any::<u16>(), 0u8..3), 0..3)).prop_map(
        |(unit, req, answer, stale_first, cuts)| Exchange {
            unit,
            req,
            answer,
            stale_first,
            cuts,
        },
    );
    (any::<bool>(), vec(ex, 4..40)).prop_map(|(tls, exchanges)| NetCliCase { tls, exchanges, baud: 0 }).boxed()
}

struct Quiet;
impl Listener<ClientState> for Quiet {
    fn update(&mut self, _value: ClientState) -> MaybeAsync<()> {
        MaybeAsync::ready(())
    }
}

pub fn check_net_cli(case: &NetCliCase) -> CaseResult {
    retry3(|slow| run_once(case, slow))
}

fn run_once(case: &NetCliCase, slow: u32) -> CaseResult {
    let rt = rt(2);
    let case = case.clone();
    rt.block_on(async move {
        let listener = TcpListener::bind("127.0.0.1:0").await.map_err(|e| format!("INFRA: bind: {}", e))?;
        let addr = listener.local_addr().unwrap();
        let plan = Arc::new(case.exchanges.clone());
        let seen: Arc<Mutex<Vec<(u16, u8, Vec<u8>)>>> = Default::default();
        let seen2 = seen.clone();
        let tls = case.tls;
        let peer = tokio::spawn(async move {
            let mut k = 0usize; // requests seen so far, over all connections
            loop {
                let (tcp, _) = match listener.accept().await {
                    Ok(x) => x,
                    Err(_) => return,
                };
                let _ = tcp.set_nodelay(true);
                let mut s: Link = if tls {
                    let acceptor = tokio_rustls::TlsAcceptor::from(peer_server_config(Offer::Both, "server_ok"));
                    match acceptor.accept(tcp).await {
                        Ok(t) => Box::new(t),
                        Err(_) => continue,
                    }
                } else {
                    Box::new(tcp)
                };
                let mut acc: Vec<u8> = Vec::new();
                let mut buf = [0u8; 512];
                'conn: loop {
                    let n = match s.read(&mut buf).await {
                        Ok(0) | Err(_) => break 'conn,
                        Ok(n) => n,
                    };
                    acc.extend_from_slice(&buf[..n]);
                    let (frames, _) = deframe_mbap(&acc);
                    let mut used = 0;
                    for f in frames {
                        used += 7 + f.pdu.len();
                        seen2.lock().unwrap().push((f.tx, f.unit, f.pdu.clone()));
                        let ex = match plan.get(k) {
                            Some(e) => e.clone(),
                            None => break 'conn,
                        };
                        k += 1;
                        let valid = match ex.req.to_valid() {
                            Some(v) => v,
                            None => continue,
                        };
                        let pdu = match &ex.answer {
                            Answer::Genuine(seed) | Answer::NearDeadline(seed) => {
                                let (b, r) = genuine_values(*seed);
                                genuine_reply(&valid, &b, &r)
                            }
                            Answer::Exception(c) => exception_pdu(valid.kind().fc(), *c),
                            Answer::Silent => continue,
                        };
                        let mut out = Vec::new();
                        if ex.stale_first {
                            out.extend_from_slice(&mbap_frame(f.tx.wrapping_add(0x4000), f.unit, &[3, 2, 0, 1]));
                        }
                        out.extend_from_slice(&mbap_frame(f.tx, f.unit, &pdu));
                        // in pieces
                        let mut cuts: Vec<(usize, u8)> = ex.cuts.iter().map(|(c, p)| ((*c as usize) % out.len(), *p)).collect();
                        cuts.sort();
                        let mut at = 0usize;
                        for (c, pause) in cuts {
                            if c > at {
                                if s.write_all(&out[at..c]).await.is_err() {
                                    break 'conn;
                                }
                                let _ = s.flush().await;
                                at = c;
                                if pause > 0 {
                                    tokio::time::sleep(Duration::from_millis(pause as u64)).await;
                                }
                            }
                        }
                        if s.write_all(&out[at..]).await.is_err() {
                            break 'conn;
                        }
                        let _ = s.flush().await;
                    }
                    acc.drain(..used);
                }
            }
        });

        let host = HostAddr::ip(addr.ip(), addr.port());
        let retry = rodbus::doubling_retry_strategy(Duration::from_millis(20), Duration::from_millis(20));
        let (channel, task) = if case.tls {
            let cfg = rodbus::client::TlsClientConfig::full_pki(
                Some("test.com".to_string()),
                &path("ca1", "pem"),
                &path("client_operator", "pem"),
                &path("client_operator", "key"),
                None,
                min_tls(12),
            )
            .map_err(|e| format!("INFRA: TlsClientConfig failed: {}", e))?;
            rodbus::client::create_tls_client_task_with_options(host, retry, cfg, Some(Box::new(Quiet)), ClientOptions::default())
        } else {
            rodbus::client::create_tcp_client_task_with_options(host, retry, Some(Box::new(Quiet)), ClientOptions::default())
        };
        let join = tokio::spawn(task.run());
        channel.enable().await.map_err(|_| "enable failed".to_string())?;
        // wait until connected: the first request may otherwise fail with NoConnection
        tokio::time::sleep(Duration::from_millis(30 * slow as u64)).await;

        let silent_timeout = Duration::from_millis(60 * slow as u64);
        let long_timeout = Duration::from_millis(3000 * slow as u64);
        let mut ok = CaseOk::new();
        let mut verdict: Option<String> = None;
        let mut pieces = 0;
        for (i, ex) in case.exchanges.iter().enumerate() {
            let valid = match ex.req.to_valid() {
                Some(v) => v,
                None => continue,
            };
            let timeout = if ex.answer == Answer::Silent { silent_timeout } else { long_timeout };
            let mut res = do_request(&channel, ex.unit, timeout, &ex.req).await;
            // the very first request can race the connection establishment
            if i == 0 && matches!(res, Res::NoConnection) {
                tokio::time::sleep(Duration::from_millis(100 * slow as u64)).await;
                // the peer did not see it: the plan index is unchanged
                res = do_request(&channel, ex.unit, timeout, &ex.req).await;
            }
            let want = match &ex.answer {
                Answer::Genuine(seed) | Answer::NearDeadline(seed) => {
                    let (b, r) = genuine_values(*seed);
                    match classify_reply(&valid, &genuine_reply(&valid, &b, &r)) {
                        ReplyClass::Ok(v) => Res::Ok(v),
                        other => return Err(format!("harness: genuine reply classified as {:?}", other)),
                    }
                }
                Answer::Exception(c) => Res::Exception(*c),
                Answer::Silent => Res::ResponseTimeout,
            };
            if !ex.cuts.is_empty() {
                pieces += 1;
            }
            if res != want {
                verdict = Some(format!(
                    "exchange {} of {} on one {} connection ({:?} unit {}, answer {:?}, stale frame first: {}, reply cut at {:?}): the caller got {:?}, the reply carried {:?}",
                    i,
                    case.exchanges.len(),
                    if case.tls { "TLS" } else { "TCP" },
                    ex.req.kind(),
                    ex.unit,
                    match &ex.answer {
                        Answer::Genuine(_) => "genuine".to_string(),
                        other => format!("{:?}", other),
                    },
                    ex.stale_first,
                    ex.cuts,
                    short_res(&res),
                    short_res(&want)
                ));
                break;
            }
        }
        // what the peer saw: one frame per exchange, in order, with the right unit and function
        if verdict.is_none() {
            let seen = seen.lock().unwrap().clone();
            let expect: Vec<(u8, u8)> = case
                .exchanges
                .iter()
                .filter_map(|e| e.req.to_valid().map(|v| (e.unit, v.kind().fc())))
                .collect();
            let got: Vec<(u8, u8)> = seen.iter().map(|(_, u, p)| (*u, p.first().copied().unwrap_or(0))).collect();
            if got != expect {
                verdict = Some(format!("the peer saw {} requests {:?}.., the caller made {} {:?}..", got.len(), &got[..got.len().min(5)], expect.len(), &expect[..expect.len().min(5)]));
            } else {
                // byte for byte the reference encoding, transaction ids advancing by one
                let valid: Vec<_> = case.exchanges.iter().filter_map(|e| e.req.to_valid().map(|v| (e.unit, v))).collect();
                for (k, ((tx, unit, pdu), (_, v))) in seen.iter().zip(valid.iter()).enumerate() {
                    let want = crate::simcli::expected_request_frame(crate::simsrv::Fr::Mbap, *tx, *unit, v);
                    if want[7..] != pdu[..] {
                        verdict = Some(format!("request {} on the wire is {:02X?}.., the protocol encoding is {:02X?}..", k, &pdu[..pdu.len().min(12)], &want[7..want.len().min(19)]));
                        break;
                    }
                    if k > 0 && *tx != seen[k - 1].0.wrapping_add(1) {
                        verdict = Some(format!("request {} carries transaction id {} after {}", k, tx, seen[k - 1].0));
                        break;
                    }
                }
            }
        }
        let _ = channel.shutdown().await;
        let _ = tokio::time::timeout(Duration::from_secs(3), join).await;
        peer.abort();
        if let Some(v) = verdict {
            return Err(v);
        }
        ok.label(if case.tls { "transport:tls" } else { "transport:tcp" });
        if pieces >= 3 {
            ok.label("replies_in_pieces>=3");
        }
        if case.exchanges.iter().any(|e| e.answer == Answer::Silent) {
            ok.label("timeout_then_more");
        }
        ok.nontrivial = pieces >= 3 && case.exchanges.len() >= 10;
        Ok(ok)
    })
}

fn short_res(r: &Res) -> String {
    let s = format!("{:?}", r);
    if s.len() > 120 {
        format!("{}.. ({} chars)", &s[..120], s.len())
    } else {
        s
    }
}

// ---------------------------------------------------------------------------------------------
// the same over a serial line: the production RTU client channel on a pseudo-terminal

pub fn arb_pty_cli() -> BoxedStrategy<NetCliCase> {
    let answer = prop_oneof![
        8 => any::<u64>().prop_map(Answer::Genuine),
        2 => any::<u8>().prop_map(Answer::Exception),
        1 => Just(Answer::Silent),
        1 => any::<u64>().prop_map(Answer::NearDeadline),
    ];
    let ex = (any::<u8>(), arb_valid_req(), answer, vec((any::<u16>(), 0u8..3), 0..3)).prop_map(|(unit, req, answer, cuts)| Exchange {
        unit,
        req,
        answer,
        stale_first: false,
        cuts,
    });
    (vec(ex, 3..16), prop::sample::select(vec![300u32, 1200, 9600, 115200])).prop_map(|(exchanges, baud)| NetCliCase { tls: false, exchanges, baud }).boxed()
}

pub fn check_pty_cli(case: &NetCliCase) -> CaseResult {
    retry3(|slow| run_pty_once(case, slow))
}

fn run_pty_once(case: &NetCliCase, slow: u32) -> CaseResult {
    use crate::model::crc::rtu_frame;
    use crate::model::framing::{deframe_rtu, Direction};
    use crate::net::pty::Pty;
    let rt = rt(2);
    let mut pty = Pty::open()?;
    let path = pty.slave_path.clone();
    let plan = case.exchanges.clone();
    let stop = Arc::new(std::sync::atomic::AtomicBool::new(false));
    let stop2 = stop.clone();
    let seen: Arc<Mutex<Vec<(u8, Vec<u8>)>>> = Default::default();
    let seen2 = seen.clone();
    // when the device finished writing a held-back reply: (exchange, instant)
    let written: Arc<Mutex<Vec<(usize, std::time::Instant)>>> = Default::default();
    let written2 = written.clone();
    let device = std::thread::spawn(move || {
        let mut acc: Vec<u8> = Vec::new();
        let mut k = 0usize;
        loop {
            if stop2.load(std::sync::atomic::Ordering::SeqCst) {
                return;
            }
            let b = pty.read_n(1, Duration::from_millis(5));
            if b.is_empty() {
                continue;
            }
            acc.extend_from_slice(&b);
            acc.extend_from_slice(&pty.drain(Duration::from_millis(2)));
            let (frames, _) = deframe_rtu(Direction::Request, &acc);
            if frames.is_empty() {
                continue;
            }
            acc.clear();
            for f in frames {
                seen2.lock().unwrap().push((f.addr, f.pdu.clone()));
                let ex = match plan.get(k) {
                    Some(e) => e.clone(),
                    None => return,
                };
                k += 1;
                let valid = match ex.req.to_valid() {
                    Some(v) => v,
                    None => continue,
                };
                let pdu = match &ex.answer {
                    Answer::Genuine(seed) | Answer::NearDeadline(seed) => {
                        let (b, r) = genuine_values(*seed);
                        genuine_reply(&valid, &b, &r)
                    }
                    Answer::Exception(c) => exception_pdu(valid.kind().fc(), *c),
                    Answer::Silent => continue,
                };
                let out = rtu_frame(f.addr, &pdu);
                if matches!(ex.answer, Answer::NearDeadline(_)) {
                    // timeout 450 ms x slow; the whole reply is there 100 ms before that (not
                    // scaled: the window that matters is the library's inter-character delay)
                    std::thread::sleep(Duration::from_millis(450 * slow as u64 - 100));
                    let _ = pty.write(&out);
                    written2.lock().unwrap().push((k - 1, std::time::Instant::now()));
                    continue;
                }
                let mut cuts: Vec<(usize, u8)> = ex.cuts.iter().map(|(c, p)| ((*c as usize) % out.len(), *p)).collect();
                cuts.sort();
                let mut at = 0usize;
                for (c, pause) in cuts {
                    if c > at {
                        let _ = pty.write(&out[at..c]);
                        at = c;
                        if pause > 0 {
                            std::thread::sleep(Duration::from_millis(pause as u64));
                        }
                    }
                }
                let _ = pty.write(&out[at..]);
            }
        }
    });
    let exchanges_for_wire = case.exchanges.clone();
    let has_silent = case.exchanges.iter().any(|e| e.answer == Answer::Silent);
    let near_deadline = case.exchanges.iter().any(|e| matches!(e.answer, Answer::NearDeadline(_)));
    let n_exchanges = case.exchanges.len();
    let case = case.clone();
    let result = rt.block_on(async move {
        let (channel, task) = rodbus::client::create_rtu_client_task(
            &path,
            rodbus::SerialSettings {
                baud_rate: if case.baud == 0 { 9600 } else { case.baud },
                ..Default::default()
            },
            16,
            rodbus::doubling_retry_strategy(Duration::from_millis(20), Duration::from_millis(20)),
            rodbus::DecodeLevel::nothing(),
            None,
        );
        let join = tokio::spawn(task.run());
        channel.enable().await.map_err(|_| "enable failed".to_string())?;
        tokio::time::sleep(Duration::from_millis(40 * slow as u64)).await;
        let silent_timeout = Duration::from_millis(80 * slow as u64);
        let long_timeout = Duration::from_millis(3000 * slow as u64);
        let mut verdict = None;
        let mut pieces = 0;
        let mut harness_late = false;
        for (i, ex) in case.exchanges.iter().enumerate() {
            let valid = match ex.req.to_valid() {
                Some(v) => v,
                None => continue,
            };
            // unit 0 is the broadcast address on serial links: nobody answers it
            let unit = if ex.unit == 0 { 1 } else { ex.unit };
            let timeout = match ex.answer {
                Answer::Silent => silent_timeout,
                Answer::NearDeadline(_) => Duration::from_millis(450 * slow as u64),
                _ => long_timeout,
            };
            let submitted = std::time::Instant::now();
            let mut res = do_request(&channel, unit, timeout, &ex.req).await;
            if i == 0 && matches!(res, Res::NoConnection) {
                tokio::time::sleep(Duration::from_millis(100 * slow as u64)).await;
                res = do_request(&channel, unit, timeout, &ex.req).await;
            }
            if matches!(ex.answer, Answer::NearDeadline(_)) && res == Res::ResponseTimeout {
                // only a reply that verifiably was on the line 40 ms before the deadline counts
                // (measured from the submission, which is before the transmission)
                let at = written.lock().unwrap().iter().find(|w| w.0 == i).map(|w| w.1);
                let in_time = match at {
                    Some(at) => at.duration_since(submitted) + Duration::from_millis(40) < timeout,
                    None => false,
                };
                if !in_time {
                    harness_late = true;
                    break;
                }
            }
            let want = match &ex.answer {
                Answer::Genuine(seed) | Answer::NearDeadline(seed) => {
                    let (b, r) = genuine_values(*seed);
                    match classify_reply(&valid, &genuine_reply(&valid, &b, &r)) {
                        ReplyClass::Ok(v) => Res::Ok(v),
                        other => return Err(format!("harness: genuine reply classified as {:?}", other)),
                    }
                }
                Answer::Exception(c) => Res::Exception(*c),
                Answer::Silent => Res::ResponseTimeout,
            };
            if !ex.cuts.is_empty() {
                pieces += 1;
            }
            if res != want {
                verdict = Some(format!(
                    "exchange {} of {} on the serial line ({:?} unit {}, answer {:?}, reply cut at {:?}): the caller got {}, the reply carried {}",
                    i,
                    case.exchanges.len(),
                    ex.req.kind(),
                    unit,
                    match &ex.answer {
                        Answer::Genuine(_) => "genuine".to_string(),
                        other => format!("{:?}", other),
                    },
                    ex.cuts,
                    short_res(&res),
                    short_res(&want)
                ));
                break;
            }
        }
        let _ = channel.shutdown().await;
        let _ = tokio::time::timeout(Duration::from_secs(3), join).await;
        Ok::<_, String>((verdict, pieces, harness_late))
    });
    stop.store(true, std::sync::atomic::Ordering::SeqCst);
    let _ = device.join();
    let (verdict, pieces, harness_late) = result?;
    if let Some(v) = verdict {
        return Err(v);
    }
    let mut ok = CaseOk::new();
    if harness_late {
        ok.label("flaky:held_back_reply_written_too_late");
    }
    if pieces >= 2 {
        ok.label("replies_in_pieces>=2");
    }
    if has_silent {
        ok.label("timeout_then_more");
    }
    if near_deadline {
        ok.label("reply_in_last_third_of_timeout");
    }
    ok.nontrivial = pieces >= 2 && n_exchanges >= 5;
    if !harness_late {
        let seen = seen.lock().unwrap().clone();
        let valid: Vec<_> = exchanges_for_wire.iter().filter_map(|e| e.req.to_valid().map(|v| (if e.unit == 0 { 1 } else { e.unit }, v))).collect();
        if seen.len() != valid.len() {
            return Err(format!("the device saw {} requests, the caller made {}", seen.len(), valid.len()));
        }
        for (k, ((addr, pdu), (unit, v))) in seen.iter().zip(valid.iter()).enumerate() {
            let want = crate::simcli::expected_request_frame(crate::simsrv::Fr::Rtu, 0, *unit, v);
            if addr != unit || want[1..want.len() - 2] != pdu[..] {
                return Err(format!("request {} on the serial line is addressed to {} with {:02X?}.., the caller asked unit {} and the encoding is {:02X?}..", k, addr, &pdu[..pdu.len().min(12)], unit, &want[1..want.len().min(13)]));
            }
        }
    }
    Ok(ok)
}
