//! Engine `net`: black-box checks against the public spawn_*/create_* API over loopback sockets
//! in real time. Observations are made with sentinel requests and EOF probes; a failing case is
//! re-run with doubled settling times before it is reported.

pub mod c01bp;
pub mod c04net;
pub mod c09;
pub mod c10w;
pub mod c13;
pub mod c13s;
pub mod c15;
pub mod c16;
pub mod c20net;
pub mod pty;
pub mod serial;

use std::time::Duration;

use tokio::io::{AsyncRead, AsyncReadExt, AsyncWrite, AsyncWriteExt};

use crate::model::framing::mbap_frame;
use crate::runner::{CaseOk, CaseResult};

pub fn rt(workers: usize) -> tokio::runtime::Runtime {
    tokio::runtime::Builder::new_multi_thread()
        .worker_threads(workers.max(1))
        .enable_all()
        .build()
        .expect("runtime")
}

/// Run a real-time case up to three times: a violation must reproduce with doubled settling
/// times to be reported; a case that fails once and then passes is counted as a disturbance.
pub fn retry3(mut f: impl FnMut(u32) -> CaseResult) -> CaseResult {
    let debug = std::env::var("VERIF_DEBUG").is_ok();
    let mut f = move |slow: u32| {
        let t0 = std::time::Instant::now();
        let r = f(slow);
        if debug {
            eprintln!("[net] run slow={} took {:?}: {:?}", slow, t0.elapsed(), r.as_ref().err());
        }
        r
    };
    match f(1) {
        Ok(ok) => Ok(ok),
        Err(first) => match f(2) {
            Ok(mut ok) => {
                ok.label("flaky:passed_on_rerun");
                let _ = first;
                Ok(ok)
            }
            Err(_) => match f(4) {
                Ok(mut ok) => {
                    ok.label("flaky:passed_on_second_rerun");
                    Ok(ok)
                }
                Err(third) => Err(format!("{} (reproduced 3 times, last with 4x settling times)", third)),
            },
        },
    }
}

/// Any byte stream (plain TCP, TLS over TCP)
pub trait Duplex: AsyncRead + AsyncWrite + Unpin + Send {}
impl<T: AsyncRead + AsyncWrite + Unpin + Send> Duplex for T {}
pub type Link = Box<dyn Duplex>;

/// What a probe of one TCP connection found
#[derive(Clone, Debug, PartialEq, Eq)]
pub enum Probe {
    /// the sentinel was answered with this register value
    Answered(u16),
    /// orderly EOF or reset
    Closed,
    /// neither within the time allowed
    Silent,
    /// something else came back
    Unexpected(Vec<u8>),
}

/// Send a read-holding-register(0) sentinel with the given transaction id and classify what
/// comes back
pub async fn probe<S: AsyncRead + AsyncWrite + Unpin + ?Sized>(stream: &mut S, unit: u8, tx: u16, wait: Duration) -> Probe {
    let req = mbap_frame(tx, unit, &[3, 0, 0, 0, 1]);
    if stream.write_all(&req).await.is_err() {
        return Probe::Closed;
    }
    read_reply(stream, tx, wait).await
}

pub async fn read_reply<S: AsyncRead + AsyncWrite + Unpin + ?Sized>(stream: &mut S, tx: u16, wait: Duration) -> Probe {
    let mut buf = [0u8; 300];
    let mut got: Vec<u8> = Vec::new();
    let deadline = tokio::time::Instant::now() + wait;
    loop {
        let r = tokio::time::timeout_at(deadline, stream.read(&mut buf)).await;
        match r {
            Err(_) => {
                return if got.is_empty() {
                    Probe::Silent
                } else {
                    Probe::Unexpected(got)
                }
            }
            Ok(Ok(0)) => {
                return if got.is_empty() {
                    Probe::Closed
                } else {
                    Probe::Unexpected(got)
                }
            }
            Ok(Err(_)) => return Probe::Closed,
            Ok(Ok(n)) => {
                got.extend_from_slice(&buf[..n]);
                if got.len() >= 11 {
                    let expect_hdr = [(tx >> 8) as u8, tx as u8, 0, 0, 0, 5];
                    if got[..6] == expect_hdr && got[7] == 3 && got[8] == 2 && got.len() == 11 {
                        return Probe::Answered(((got[9] as u16) << 8) | got[10] as u16);
                    }
                    return Probe::Unexpected(got);
                }
            }
        }
    }
}

/// Wait for EOF / reset on a connection without sending anything
pub async fn expect_closed<S: AsyncRead + AsyncWrite + Unpin + ?Sized>(stream: &mut S, wait: Duration) -> Probe {
    let mut buf = [0u8; 64];
    match tokio::time::timeout(wait, stream.read(&mut buf)).await {
        Err(_) => Probe::Silent,
        Ok(Ok(0)) | Ok(Err(_)) => Probe::Closed,
        Ok(Ok(n)) => Probe::Unexpected(buf[..n].to_vec()),
    }
}

pub fn ok_with(labels: &[&'static str], nontrivial: bool) -> CaseOk {
    let mut ok = CaseOk::new();
    for l in labels {
        ok.label(l);
    }
    ok.nontrivial = nontrivial;
    ok
}
