//! Reference deframers for MBAP and RTU byte streams, independent of how the bytes are chunked.

use super::crc::crc16;
use super::pdu::Kind;

#[derive(Clone, Debug, PartialEq, Eq)]
pub struct MbapFrame {
    pub tx: u16,
    pub unit: u8,
    pub pdu: Vec<u8>,
}

#[derive(Clone, Debug, PartialEq, Eq)]
pub enum MbapEnd {
    /// every byte was consumed by complete frames
    Clean,
    /// the stream ends inside a header or body (`usize` = bytes left over)
    Partial(usize),
    /// a header that must end the session: (offset of the header, reason)
    BadHeader(usize, BadHeader),
}

#[derive(Copy, Clone, Debug, PartialEq, Eq)]
pub enum BadHeader {
    ProtocolId(u16),
    LengthZero,
    LengthTooBig(u16),
}

pub fn mbap_frame(tx: u16, unit: u8, pdu: &[u8]) -> Vec<u8> {
    let mut out = Vec::with_capacity(7 + pdu.len());
    out.extend_from_slice(&tx.to_be_bytes());
    out.extend_from_slice(&[0, 0]);
    out.extend_from_slice(&((pdu.len() + 1) as u16).to_be_bytes());
    out.push(unit);
    out.extend_from_slice(pdu);
    out
}

pub fn mbap_header_raw(tx: u16, proto: u16, len: u16, unit: u8) -> Vec<u8> {
    let mut out = Vec::with_capacity(7);
    out.extend_from_slice(&tx.to_be_bytes());
    out.extend_from_slice(&proto.to_be_bytes());
    out.extend_from_slice(&len.to_be_bytes());
    out.push(unit);
    out
}

/// Deframe a complete MBAP byte stream
pub fn deframe_mbap(stream: &[u8]) -> (Vec<MbapFrame>, MbapEnd) {
    let mut frames = Vec::new();
    let mut pos = 0usize;
    loop {
        let rest = &stream[pos..];
        if rest.is_empty() {
            return (frames, MbapEnd::Clean);
        }
        if rest.len() < 7 {
            return (frames, MbapEnd::Partial(rest.len()));
        }
        let tx = u16::from_be_bytes([rest[0], rest[1]]);
        let proto = u16::from_be_bytes([rest[2], rest[3]]);
        let len = u16::from_be_bytes([rest[4], rest[5]]);
        let unit = rest[6];
        if proto != 0 {
            return (frames, MbapEnd::BadHeader(pos, BadHeader::ProtocolId(proto)));
        }
        if len == 0 {
            return (frames, MbapEnd::BadHeader(pos, BadHeader::LengthZero));
        }
        if len > 254 {
            return (frames, MbapEnd::BadHeader(pos, BadHeader::LengthTooBig(len)));
        }
        let n = len as usize - 1;
        if rest.len() < 7 + n {
            return (frames, MbapEnd::Partial(rest.len()));
        }
        frames.push(MbapFrame {
            tx,
            unit,
            pdu: rest[7..7 + n].to_vec(),
        });
        pos += 7 + n;
    }
}

#[derive(Copy, Clone, Debug, PartialEq, Eq)]
pub enum Direction {
    Request,
    Response,
}

#[derive(Clone, Debug, PartialEq, Eq)]
pub struct RtuFrame {
    pub addr: u8,
    pub pdu: Vec<u8>,
}

#[derive(Clone, Debug, PartialEq, Eq)]
pub enum RtuEnd {
    Clean,
    Partial(usize),
    /// framing error at offset: the session must end here without acting on the frame
    Bad(usize, RtuBad),
}

#[derive(Copy, Clone, Debug, PartialEq, Eq)]
pub enum RtuBad {
    UnknownFunction(u8),
    TooLong(usize),
    Crc,
}

/// length of the PDU body after the function code, or how to find it
enum Len {
    Fixed(usize),
    /// body = `offset` bytes, the last of which counts the bytes that follow
    Counted(usize),
    Unknown,
}

fn rtu_len(dir: Direction, fc: u8) -> Len {
    if dir == Direction::Response && fc & 0x80 != 0 {
        return Len::Fixed(1);
    }
    let kind = match Kind::from_fc(fc) {
        Some(k) => k,
        None => return Len::Unknown,
    };
    match (dir, kind) {
        (Direction::Request, Kind::WriteCoils) | (Direction::Request, Kind::WriteRegs) => {
            Len::Counted(5)
        }
        (Direction::Request, _) => Len::Fixed(4),
        (Direction::Response, k) if k.is_read() => Len::Counted(1),
        (Direction::Response, _) => Len::Fixed(4),
    }
}

/// Deframe a complete RTU byte stream. A frame is: address, function code, body, CRC (lo, hi)
/// with a total length of at most 256 bytes.
pub fn deframe_rtu(dir: Direction, stream: &[u8]) -> (Vec<RtuFrame>, RtuEnd) {
    let mut frames = Vec::new();
    let mut pos = 0usize;
    loop {
        let rest = &stream[pos..];
        if rest.is_empty() {
            return (frames, RtuEnd::Clean);
        }
        if rest.len() < 2 {
            return (frames, RtuEnd::Partial(rest.len()));
        }
        let addr = rest[0];
        let fc = rest[1];
        let body_len = match rtu_len(dir, fc) {
            Len::Unknown => return (frames, RtuEnd::Bad(pos, RtuBad::UnknownFunction(fc))),
            Len::Fixed(n) => n,
            Len::Counted(off) => {
                if rest.len() < 2 + off {
                    return (frames, RtuEnd::Partial(rest.len()));
                }
                off + rest[2 + off - 1] as usize
            }
        };
        // address + function + body + crc must fit 256 bytes <=> function + body <= 253
        if 1 + body_len > 253 {
            return (frames, RtuEnd::Bad(pos, RtuBad::TooLong(1 + body_len)));
        }
        let total = 2 + body_len + 2;
        if rest.len() < total {
            return (frames, RtuEnd::Partial(rest.len()));
        }
        let crc = crc16(&rest[..total - 2]);
        let got = rest[total - 2] as u16 | ((rest[total - 1] as u16) << 8);
        if crc != got {
            return (frames, RtuEnd::Bad(pos, RtuBad::Crc));
        }
        frames.push(RtuFrame {
            addr,
            pdu: rest[1..total - 2].to_vec(),
        });
        pos += total;
    }
}
