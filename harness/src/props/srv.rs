//! Server-session properties decided on the paced in-memory session: C01 (replies), C02 (handler
//! calls and state), C17 (multi-drop), C08 (authorization).

use proptest::collection::vec;
use proptest::prelude::*;
use serde::{Deserialize, Serialize};

use crate::gen::*;
use crate::model::crc::rtu_frame;
use crate::model::framing::{deframe_rtu, mbap_frame, Direction, RtuEnd};
use crate::model::pdu::*;
use crate::model::server::{check_calls, AuthModel, ModelServer, Outcome};
use crate::runner::{CaseOk, CaseResult};
use crate::simsrv::*;

#[derive(Clone, Debug, PartialEq, Eq, Hash, Serialize, Deserialize)]
pub struct Frame {
    pub tx: u16,
    pub unit: u8,
    pub pdu: Vec<u8>,
}

#[derive(Clone, Debug, PartialEq, Eq, Hash, Serialize, Deserialize)]
pub struct SrvCase {
    pub cfg: SrvConfig,
    pub frames: Vec<Frame>,
    pub select_seed: u64,
}

pub fn frame_bytes(fr: Fr, f: &Frame) -> Vec<u8> {
    match fr {
        Fr::Mbap => mbap_frame(f.tx, f.unit, &f.pdu),
        Fr::Rtu => rtu_frame(f.unit, &f.pdu),
    }
}

/// Which oracle(s) a case is judged by
#[derive(Copy, Clone, Debug, PartialEq, Eq)]
pub enum Facet {
    /// C01: reply bytes
    Replies,
    /// C02: handler calls and application state
    Calls,
    /// C17: silence for unaddressed units, broadcast discipline
    MultiDrop,
    /// C08: authorization calls, effects of denied requests
    Auth,
}

/// Everything the paced run says, split by facet
#[derive(Default, Debug)]
pub struct Judgement {
    pub replies: Option<String>,
    pub calls: Option<String>,
    pub multidrop: Option<String>,
    pub auth: Option<String>,
    pub ok: CaseOk,
}

fn hex(b: &[u8]) -> String {
    let mut s = String::new();
    for (i, x) in b.iter().enumerate() {
        if i > 0 {
            s.push(' ');
        }
        s.push_str(&format!("{:02X}", x));
        if i > 40 {
            s.push_str(" ..");
            break;
        }
    }
    s
}

pub fn judge(case: &SrvCase) -> Judgement {
    judge_with_run(case).0
}

pub fn judge_with_run(case: &SrvCase) -> (Judgement, SrvRun) {
    let fr = case.cfg.framing;
    let mut steps = Vec::new();
    for f in &case.frames {
        steps.push(Step::Bytes(frame_bytes(fr, f)));
        steps.push(Step::Pause);
    }
    steps.push(Step::Eof);
    let run = run_server(
        &case.cfg,
        &steps,
        &SrvOptions {
            select_seed: case.select_seed,
            ..Default::default()
        },
    );
    let j = judge_run(case, &run);
    (j, run)
}

pub fn judge_run(case: &SrvCase, run: &SrvRun) -> Judgement {
    let fr = case.cfg.framing;
    let mut j = Judgement::default();
    let mut model = ModelServer {
        framing: fr.model(),
        units: case.cfg.unit_map(),
        auth: case.cfg.auth.as_ref().map(|(p, r)| AuthModel {
            policy: p.clone(),
            role: r.clone(),
            calls: 0,
        }),
        aliases: case.cfg.alias_map(),
    };
    j.ok.label(match fr {
        Fr::Mbap => "framing:mbap",
        Fr::Rtu => "framing:rtu",
    });
    if case.cfg.auth.is_some() {
        j.ok.label("auth:configured");
    }
    let mut prev = Snapshot { writes: 0, calls: 0 };
    let mut seen_exception_read = false;
    let mut seen_invalid = false;
    let mut seen_write_then_read = false;
    let mut written_points: Vec<(u8, Table, u16)> = Vec::new();
    let mut units_seen: Vec<u8> = Vec::new();
    let mut seen_accept_big_write = false;
    let mut seen_bcast_multi = false;
    let mut seen_malformed_unconfigured = false;
    let mut auth_pattern: Vec<(Kind, u8, bool)> = Vec::new();
    let mut session_over = false;

    for (k, f) in case.frames.iter().enumerate() {
        if session_over {
            break;
        }
        let snap = match run.snapshots.get(k) {
            Some(s) => s.clone(),
            None => break,
        };
        let writes = &run.writes[prev.writes..snap.writes];
        let calls = &run.calls[prev.calls..snap.calls];
        prev = snap;

        if fr == Fr::Rtu {
            // generator contract: every chunk is exactly one frame for the reference deframer
            let bytes = frame_bytes(fr, f);
            let (frames, end) = deframe_rtu(Direction::Request, &bytes);
            if frames.len() != 1 || end != RtuEnd::Clean {
                // not a well-framed request: the session must end without acting on it
                j.ok.label("rtu:not_well_framed");
                if !writes.is_empty() || !calls.is_empty() {
                    let m = format!(
                        "frame {} is not a valid RTU frame ({:?}) but caused writes {:?} / calls {:?}",
                        k, end, writes, calls
                    );
                    j.replies.get_or_insert(m);
                }
                session_over = true;
                continue;
            }
        }

        let verdict = model.judge(f.unit, &f.pdu);
        for l in &verdict.labels {
            j.ok.label(l);
        }
        if !units_seen.contains(&f.unit) {
            units_seen.push(f.unit);
        }
        if let Some(kind) = f.pdu.first().and_then(|fc| Kind::from_fc(*fc)) {
            j.ok.label(match kind {
                Kind::ReadCoils => "fc:01",
                Kind::ReadDiscrete => "fc:02",
                Kind::ReadHolding => "fc:03",
                Kind::ReadInput => "fc:04",
                Kind::WriteCoil => "fc:05",
                Kind::WriteReg => "fc:06",
                Kind::WriteCoils => "fc:15",
                Kind::WriteRegs => "fc:16",
            });
        }
        if let ReqClass::Valid(r) = &verdict.class {
            if r.touches_top() {
                j.ok.label("range:ends_at_65535");
            }
        }
        if verdict.labels.contains(&"class:dontcare_byte_count")
            || verdict.labels.contains(&"dontcare:deny_unconfigured")
        {
            j.ok.dontcare += 1;
        }
        if verdict.labels.contains(&"read:exception") {
            seen_exception_read = true;
        }
        if verdict.labels.contains(&"class:invalid") || verdict.labels.contains(&"class:unsupported_fc") {
            seen_invalid = true;
            if verdict.labels.contains(&"unit:unconfigured") {
                seen_malformed_unconfigured = true;
            }
        }

        // expected framed replies for each allowed outcome
        let framed = |o: &Outcome| -> Option<Vec<u8>> {
            o.reply.as_ref().map(|p| match fr {
                Fr::Mbap => mbap_frame(f.tx, f.unit, p),
                Fr::Rtu => rtu_frame(f.unit, p),
            })
        };
        let reply_matches = |o: &Outcome| -> bool {
            match framed(o) {
                None => writes.is_empty(),
                Some(b) => writes.len() == 1 && writes[0].1 == b,
            }
        };
        let mut matched: Option<&Outcome> = None;
        let mut first_reply_ok: Option<&Outcome> = None;
        let mut call_err = None;
        for o in &verdict.allowed {
            if reply_matches(o) {
                if first_reply_ok.is_none() {
                    first_reply_ok = Some(o);
                }
                match check_calls(o, calls) {
                    Ok(()) => {
                        matched = Some(o);
                        break;
                    }
                    Err(e) => {
                        call_err.get_or_insert(e);
                    }
                }
            }
        }
        let describe_expected = || -> String {
            verdict
                .allowed
                .iter()
                .map(|o| match framed(o) {
                    None => "<nothing>".to_string(),
                    Some(b) => format!("[{}]", hex(&b)),
                })
                .collect::<Vec<_>>()
                .join(" or ")
        };
        let silent_expected = verdict.allowed.iter().all(|o| o.reply.is_none());
        match matched {
            Some(o) => {
                // bookkeeping for non-triviality
                if let ReqClass::Valid(r) = &verdict.class {
                    if verdict.labels.contains(&"write:ok") || verdict.labels.contains(&"broadcast:write") {
                        for i in 0..r.count() {
                            written_points.push((f.unit, r.kind().table(), r.start().wrapping_add(i)));
                        }
                        match r {
                            ValidReq::WriteCoils { values, .. } if values.len() >= 9 => seen_accept_big_write = true,
                            ValidReq::WriteRegs { values, .. } if values.len() >= 2 => seen_accept_big_write = true,
                            _ => {}
                        }
                        if verdict.labels.contains(&"broadcast:write") && model.units.len() >= 2 {
                            seen_bcast_multi = true;
                        }
                    }
                    if r.kind().is_read() && verdict.labels.contains(&"read:ok") {
                        let t = r.kind().table();
                        if written_points.iter().any(|(u, tt, a)| {
                            (*u == f.unit || (fr == Fr::Rtu && *u == 0)) && *tt == t
                                && (*a as u32) >= r.start() as u32
                                && (*a as u32) < r.start() as u32 + r.count() as u32
                        }) {
                            seen_write_then_read = true;
                        }
                    }
                    if let Some(crate::app::Call::Auth { kind, unit, allowed, .. }) = &o.auth {
                        auth_pattern.push((*kind, *unit, *allowed));
                    }
                }
                model.commit(o);
            }
            None => {
                let bcast = fr == Fr::Rtu && f.unit == 0;
                let unconfigured = !bcast && !model.units.contains_key(&f.unit);
                if first_reply_ok.is_none() {
                    let got = if writes.is_empty() {
                        "<nothing>".to_string()
                    } else {
                        writes
                            .iter()
                            .map(|w| format!("[{}]", hex(&w.1)))
                            .collect::<Vec<_>>()
                            .join(" ")
                    };
                    let m = format!(
                        "frame {} (unit {}, tx {}, pdu [{}], class {:?}): server wrote {} but the reference server writes {}",
                        k, f.unit, f.tx, hex(&f.pdu), short_class(&verdict.class), got, describe_expected()
                    );
                    // address 0 is special on serial links only: any wrong answer (or missing
                    // answer) for it, on either framing, is a multi-drop matter
                    if ((unconfigured || bcast) && silent_expected) || f.unit == 0 {
                        j.multidrop.get_or_insert(m.clone());
                    }
                    if case.cfg.auth.is_some() && verdict.labels.iter().any(|l| l.starts_with("auth:")) {
                        j.auth.get_or_insert(m.clone());
                    }
                    j.replies.get_or_insert(m);
                } else {
                    let m = format!(
                        "frame {} (unit {}, pdu [{}], class {:?}): {}",
                        k,
                        f.unit,
                        hex(&f.pdu),
                        short_class(&verdict.class),
                        call_err.unwrap_or_default()
                    );
                    if bcast || f.unit == 0 {
                        j.multidrop.get_or_insert(m.clone());
                    }
                    if case.cfg.auth.is_some() {
                        j.auth.get_or_insert(m.clone());
                    }
                    j.calls.get_or_insert(m);
                    // the reply (or the silence) was the reference's: the reference goes on with
                    // the effects it expects, so that what the difference does to LATER replies is
                    // still judged (a dropped write shows in the next read of that point)
                    if let Some(o) = first_reply_ok {
                        model.commit(o);
                        continue;
                    }
                }
                // the model cannot follow the implementation any further
                return j;
            }
        }
    }

    if !session_over {
        // after EOF nothing more may be written and the session must have ended with an error
        let extra_writes = run.writes.len() - prev.writes;
        let extra_calls = run.calls.len() - prev.calls;
        if extra_writes != 0 || extra_calls != 0 {
            j.replies.get_or_insert(format!(
                "after the last request: {} unexpected writes, {} unexpected handler calls",
                extra_writes, extra_calls
            ));
        }
        match &run.end {
            SrvEnd::Ended(e) if e.starts_with("Io(") => {}
            other => {
                j.replies.get_or_insert(format!(
                    "session did not end with an I/O error at end of stream: {:?}",
                    other
                ));
            }
        }
        // application state equals the model's
        if run.final_units != model.units {
            let mut detail = String::new();
            for (u, st) in &model.units {
                if run.final_units.get(u) != Some(st) {
                    detail = format!("unit {} differs", u);
                    break;
                }
            }
            j.calls
                .get_or_insert(format!("application state differs from the reference after the session ({})", detail));
        }
    }

    // non-triviality per facet is decided by the callers from these labels
    if seen_exception_read {
        j.ok.label("nt:exception_read");
    }
    if seen_invalid {
        j.ok.label("nt:invalid_or_unsupported");
    }
    if seen_write_then_read {
        j.ok.label("nt:write_then_read");
    }
    if units_seen.len() >= 2 {
        j.ok.label("nt:two_units");
    }
    if seen_accept_big_write {
        j.ok.label("nt:multi_write_accepted");
    }
    if seen_bcast_multi {
        j.ok.label("nt:broadcast_write_2units");
    }
    if seen_malformed_unconfigured {
        j.ok.label("nt:malformed_to_unconfigured");
    }
    // allow -> deny -> allow of the same kind on the same unit
    'outer: for i in 0..auth_pattern.len() {
        let (k, u, a) = auth_pattern[i];
        if !a {
            continue;
        }
        for m in i + 1..auth_pattern.len() {
            if auth_pattern[m].0 == k && auth_pattern[m].1 == u && !auth_pattern[m].2 {
                for n in m + 1..auth_pattern.len() {
                    if auth_pattern[n].0 == k && auth_pattern[n].1 == u && auth_pattern[n].2 {
                        j.ok.label("nt:allow_deny_allow");
                        break 'outer;
                    }
                }
            }
        }
    }
    if auth_pattern.iter().any(|x| x.2) && auth_pattern.iter().any(|x| !x.2) {
        j.ok.label("nt:allow_and_deny");
    }
    j
}

fn short_class(c: &ReqClass) -> String {
    match c {
        ReqClass::Valid(r) => format!("Valid({} {}+{})", r.kind().name(), r.start(), r.count()),
        other => format!("{:?}", other),
    }
}

// ---------------------------------------------------------------------------------------------
// strategies

fn arb_frames(fr: Fr, units: Vec<u8>, hint: WinHint, unit_bias: u8, max: usize) -> BoxedStrategy<Vec<Frame>> {
    let units2 = units.clone();
    let units3 = units.clone();
    let unit = (0u8..10, any::<prop::sample::Index>(), any::<u8>()).prop_map(move |(sel, idx, raw)| {
        if sel < unit_bias && !units2.is_empty() {
            units2[idx.index(units2.len())]
        } else if sel == 9 {
            0
        } else if sel == 8 {
            // neighbour of a configured unit
            if units2.is_empty() { raw } else { units2[idx.index(units2.len())].wrapping_add(1) }
        } else {
            raw
        }
    });
    (
        vec((any::<u16>(), unit, arb_pdu(fr, hint)), 1..=max),
        vec((any::<prop::sample::Index>(), any::<u16>()), 0..3),
        proptest::option::weighted(0.25, any::<prop::sample::Index>()),
    )
        .prop_map(move |(v, readbacks, bcast)| {
            let mut frames: Vec<Frame> = v
                .into_iter()
                .map(|(tx, unit, mut pdu)| {
                    // a frame carries at most 253 PDU bytes
                    pdu.truncate(253);
                    Frame { tx, unit, pdu }
                })
                .collect();
            let readbacks: Vec<(usize, u16)> = readbacks.iter().map(|(idx, tx)| (idx.index(frames.len()), *tx)).collect();
            // an earlier write once more, addressed to 0 (broadcast on serial links), and read back
            if let Some(idx) = bcast {
                let i = idx.index(frames.len());
                if matches!(frames[i].pdu.first(), Some(5) | Some(6) | Some(15) | Some(16)) && frames[i].pdu.len() >= 5 {
                    let mut f = frames[i].clone();
                    let target = f.unit;
                    f.unit = 0;
                    f.tx = f.tx.wrapping_add(1);
                    // other values than the first time, so that the effect is visible
                    match f.pdu[0] {
                        5 if f.pdu.len() == 5 => f.pdu[3] ^= 0xFF,
                        6 if f.pdu.len() == 5 => {
                            f.pdu[3] ^= 0x5A;
                            f.pdu[4] ^= 0xA5;
                        }
                        _ => {
                            for b in f.pdu.iter_mut().skip(6) {
                                *b ^= 0xFF;
                            }
                        }
                    }
                    frames.push(f);
                    // read it back from the unit the first write went to
                    let mut back = frames[i].clone();
                    back.tx = 0x7B7B;
                    back.unit = target;
                    let (rfc, count) = match back.pdu[0] {
                        5 => (1u8, [0u8, 1u8]),
                        6 => (3, [0, 1]),
                        15 => (1, [back.pdu[3], back.pdu[4]]),
                        _ => (3, [back.pdu[3], back.pdu[4]]),
                    };
                    if back.pdu.len() >= 5 {
                        back.pdu = vec![rfc, back.pdu[1], back.pdu[2], count[0], count[1]];
                        frames.push(back);
                    }
                }
            }
            // read back what an earlier write touched (two requests whose handling interferes)
            for (i, tx) in readbacks {
                let f = frames[i].clone();
                if f.pdu.len() >= 5 {
                    let (rfc, count) = match f.pdu[0] {
                        5 => (1u8, [0u8, 1u8]),
                        6 => (3, [0, 1]),
                        15 => (1, [f.pdu[3], f.pdu[4]]),
                        16 => (3, [f.pdu[3], f.pdu[4]]),
                        _ => continue,
                    };
                    let pdu = vec![rfc, f.pdu[1], f.pdu[2], count[0], count[1]];
                    // what a write to address 0 (broadcast on serial links) did is read back
                    // from a configured unit: a read addressed to 0 is never answered
                    let unit = if f.unit == 0 && !units3.is_empty() {
                        units3[(i + tx as usize) % units3.len()]
                    } else {
                        f.unit
                    };
                    frames.push(Frame { tx, unit, pdu });
                }
            }
            frames
        })
        .boxed()
}

/// In one configuration of four, one or two further unit ids are served by the handler instance
/// of a configured unit (ServerHandlerMap::add with a clone of the same Arc<Mutex<..>>)
fn arb_aliases() -> BoxedStrategy<Vec<(u8, prop::sample::Index)>> {
    prop_oneof![
        3 => Just(Vec::new()),
        1 => vec((1u8..=254, any::<prop::sample::Index>()), 1..3),
    ]
    .boxed()
}

fn resolve_aliases(units: &[(u8, crate::app::UnitState)], raw: &[(u8, prop::sample::Index)]) -> Vec<(u8, u8)> {
    if units.is_empty() {
        return Vec::new();
    }
    raw.iter()
        .filter(|(a, _)| !units.iter().any(|u| u.0 == *a))
        .map(|(a, i)| (*a, units[i.index(units.len())].0))
        .collect()
}

/// C01 / C02 cases: no authorization, unit ids biased to configured units
pub fn arb_srv_case() -> BoxedStrategy<SrvCase> {
    (
        prop_oneof![3 => Just(Fr::Mbap), 2 => Just(Fr::Rtu)],
        arb_units(4),
        arb_decode(),
        any::<u64>(),
        arb_aliases(),
    )
        .prop_flat_map(|(fr, units, decode, select_seed, raw_aliases)| {
            let aliases = resolve_aliases(&units, &raw_aliases);
            let mut ids: Vec<u8> = units.iter().map(|u| u.0).collect();
            ids.extend(aliases.iter().map(|a| a.0));
            arb_frames(fr, ids, WinHint::of(units.first().map(|u| &u.1)), 7, 12).prop_map(move |frames| SrvCase {
                cfg: SrvConfig {
                    framing: fr,
                    units: units.clone(),
                    auth: None,
                    decode,
                    aliases: aliases.clone(),
                },
                frames,
                select_seed,
            })
        })
        .boxed()
}

/// RTU-only sessions (C06 emission)
pub fn arb_srv_case_rtu() -> BoxedStrategy<SrvCase> {
    (arb_units(3), arb_decode(), any::<u64>())
        .prop_flat_map(|(units, decode, select_seed)| {
            let ids: Vec<u8> = units.iter().map(|u| u.0).collect();
            arb_frames(Fr::Rtu, ids, WinHint::of(units.first().map(|u| &u.1)), 8, 10).prop_map(move |frames| SrvCase {
                cfg: SrvConfig {
                    framing: Fr::Rtu,
                    units: units.clone(),
                    auth: None,
                    decode,
                    aliases: vec![],
                },
                frames,
                select_seed,
            })
        })
        .boxed()
}

/// C17 cases: the unit dimension opened up
pub fn arb_multidrop_case() -> BoxedStrategy<SrvCase> {
    (
        prop_oneof![1 => Just(Fr::Mbap), 3 => Just(Fr::Rtu)],
        arb_units(4),
        arb_decode(),
        any::<u64>(),
        arb_aliases(),
    )
        .prop_flat_map(|(fr, units, decode, select_seed, raw_aliases)| {
            let aliases = resolve_aliases(&units, &raw_aliases);
            let mut ids: Vec<u8> = units.iter().map(|u| u.0).collect();
            ids.extend(aliases.iter().map(|a| a.0));
            arb_frames(fr, ids, WinHint::of(units.first().map(|u| &u.1)), 3, 12).prop_map(move |frames| SrvCase {
                cfg: SrvConfig {
                    framing: fr,
                    units: units.clone(),
                    auth: None,
                    decode,
                    aliases: aliases.clone(),
                },
                frames,
                select_seed,
            })
        })
        .boxed()
}

/// C08 cases: a generated policy and role; repeats of the same request. Mostly MBAP (the only
/// framing production pairs with authorization); a quarter of the cases use RTU framing through
/// the hook so that broadcast writes meet the authorization handler as well.
pub fn arb_auth_case() -> BoxedStrategy<SrvCase> {
    (
        arb_units(3),
        arb_decode(),
        any::<u64>(),
        arb_policy(),
        arb_role(),
        prop_oneof![3 => Just(Fr::Mbap), 1 => Just(Fr::Rtu)],
    )
        .prop_flat_map(|(units, decode, select_seed, policy, role, framing)| {
            let ids: Vec<u8> = units.iter().map(|u| u.0).collect();
            let ids2 = ids.clone();
            (arb_frames(framing, ids, WinHint::of(units.first().map(|u| &u.1)), 8, 10), vec((any::<prop::sample::Index>(), 1usize..4, any::<u8>()), 0..3)).prop_map(
                move |(mut frames, repeats)| {
                    // repeat some requests so that a per-call policy sees the same request again;
                    // half of the repeats go to another unit id (the same function and range
                    // addressed to another unit is another question to the authorization handler)
                    for (idx, times, other) in &repeats {
                        let f = frames[idx.index(frames.len())].clone();
                        for k in 0..*times {
                            let mut g = f.clone();
                            if (*other as usize + k) % 2 == 1 {
                                g.unit = if !ids2.is_empty() && *other % 4 != 0 { ids2[*other as usize % ids2.len()] } else { *other };
                            }
                            frames.push(g);
                        }
                    }
                    SrvCase {
                        cfg: SrvConfig {
                            framing,
                            units: units.clone(),
                            auth: Some((policy.clone(), role.clone())),
                            decode,
                            aliases: vec![],
                        },
                        frames,
                        select_seed,
                    }
                },
            )
        })
        .boxed()
}

pub fn arb_frames_pub(fr: Fr, units: Vec<u8>, hint: WinHint, unit_bias: u8, max: usize) -> BoxedStrategy<Vec<Frame>> {
    arb_frames(fr, units, hint, unit_bias, max)
}

// ---------------------------------------------------------------------------------------------
// checks

fn finish(j: Judgement, facet: Facet) -> CaseResult {
    let v = match facet {
        Facet::Replies => j.replies,
        Facet::Calls => j.calls,
        Facet::MultiDrop => j.multidrop,
        Facet::Auth => j.auth.or(None),
    };
    if let Some(m) = v {
        return Err(m);
    }
    let mut ok = j.ok;
    let has = |l: &str| ok.labels.iter().any(|x| *x == l);
    ok.nontrivial = match facet {
        Facet::Replies => {
            has("nt:exception_read") && has("nt:invalid_or_unsupported") && has("nt:write_then_read") && has("nt:two_units")
        }
        Facet::Calls => has("nt:multi_write_accepted") && has("nt:invalid_or_unsupported"),
        Facet::MultiDrop => has("nt:broadcast_write_2units") || has("nt:malformed_to_unconfigured"),
        Facet::Auth => has("nt:allow_and_deny"),
    };
    Ok(ok)
}

pub fn check_c01(case: &SrvCase) -> CaseResult {
    finish(judge(case), Facet::Replies)
}

pub fn check_c02(case: &SrvCase) -> CaseResult {
    let (j, run) = judge_with_run(case);
    if j.calls.is_none() && case.cfg.framing == Fr::Mbap && !case.frames.is_empty() {
        // same requests, each arriving in two pieces with a server command (decode level set to
        // the level it already has) handled in between: same handler calls, same final state
        let mut steps = Vec::new();
        for (k, f) in case.frames.iter().enumerate() {
            let b = frame_bytes(Fr::Mbap, f);
            let cut = 1 + (case.select_seed as usize + 7 * k) % (b.len() - 1);
            steps.push(Step::Bytes(b[..cut].to_vec()));
            steps.push(Step::Pause);
            steps.push(Step::SetDecode(case.cfg.decode));
            steps.push(Step::Pause);
            steps.push(Step::Bytes(b[cut..].to_vec()));
            steps.push(Step::Pause);
        }
        steps.push(Step::Eof);
        let split = run_server(
            &case.cfg,
            &steps,
            &SrvOptions {
                select_seed: case.select_seed,
                ..Default::default()
            },
        );
        if split.calls != run.calls || split.final_units != run.final_units {
            let k = split.calls.iter().zip(run.calls.iter()).take_while(|(a, b)| a == b).count();
            return Err(format!(
                "requests arriving in two pieces with a server command in between: {} handler calls instead of {}; first difference at call {}: {:?} vs {:?}",
                split.calls.len(),
                run.calls.len(),
                k,
                split.calls.get(k),
                run.calls.get(k)
            ));
        }
    }
    finish(j, Facet::Calls)
}

pub fn check_c17(case: &SrvCase) -> CaseResult {
    finish(judge(case), Facet::MultiDrop)
}

/// C08: the authorization facet, plus the differential "allowed requests behave exactly as
/// without authorization": the sub-history of allowed requests is re-run on a server without an
/// authorization handler and must give the same replies, calls and final state.
pub fn check_c08(case: &SrvCase) -> CaseResult {
    let (j, with) = judge_with_run(case);
    if let Some(m) = j.auth.clone().or(j.replies.clone()).or(j.calls.clone()) {
        return Err(m);
    }
    // differential half
    let fr = case.cfg.framing;
    // which frames were allowed (or never reached the policy)
    let mut allowed_frames = Vec::new();
    let mut prev = Snapshot { writes: 0, calls: 0 };
    let mut with_writes: Vec<Vec<u8>> = Vec::new();
    let mut with_calls: Vec<crate::app::Call> = Vec::new();
    for (k, f) in case.frames.iter().enumerate() {
        let snap = match with.snapshots.get(k) {
            Some(s) => s.clone(),
            None => break,
        };
        let calls = &with.calls[prev.calls..snap.calls];
        let writes = &with.writes[prev.writes..snap.writes];
        let denied = calls
            .iter()
            .any(|c| matches!(c, crate::app::Call::Auth { allowed: false, .. }));
        if !denied {
            allowed_frames.push(f.clone());
            for w in writes {
                with_writes.push(w.1.clone());
            }
            for c in calls {
                if !c.is_auth() {
                    with_calls.push(c.clone());
                }
            }
        }
        prev = snap;
    }
    let mut cfg2 = case.cfg.clone();
    cfg2.auth = None;
    let mut steps2 = Vec::new();
    for f in &allowed_frames {
        steps2.push(Step::Bytes(frame_bytes(fr, f)));
        steps2.push(Step::Pause);
    }
    steps2.push(Step::Eof);
    let without = run_server(
        &cfg2,
        &steps2,
        &SrvOptions {
            select_seed: case.select_seed,
            ..Default::default()
        },
    );
    let without_writes: Vec<Vec<u8>> = without.writes.iter().map(|w| w.1.clone()).collect();
    if without_writes != with_writes {
        return Err(format!(
            "allowed requests are answered differently with authorization ({} replies) than without ({} replies)",
            with_writes.len(),
            without_writes.len()
        ));
    }
    if without.calls != with_calls {
        return Err("allowed requests cause different handler calls with authorization than without".to_string());
    }
    if without.final_units != with.final_units {
        return Err("final application state differs between the run with authorization and the run of its allowed sub-history without".to_string());
    }
    finish(j, Facet::Auth)
}
