#!/bin/sh
# tools/verify_seed.sh <ID> : verify an integration-test style seed in its scratch worktree /tmp/wt/<ID>
ID=$1; WT=/tmp/wt/$ID; OUT=/tmp/seed_out/$ID
cd $WT || exit 2
git checkout -q -- . ; rm -f rodbus/tests/seed_demo.rs
mkdir -p rodbus/tests; cp $OUT/seed_demo.rs rodbus/tests/seed_demo.rs
echo "== demo WITHOUT patch"; cargo test -p rodbus $SEED_FEATURES --test seed_demo --offline 2>&1 | grep -E "^test result|^test .*(ok|FAILED)$" | tail -4
git apply $OUT/patch.diff || { echo "patch does not apply"; exit 1; }
echo "== demo WITH patch"; cargo test -p rodbus $SEED_FEATURES --test seed_demo --offline 2>&1 | grep -E "^test result|^test .*(ok|FAILED)$" | tail -4
rm -f rodbus/tests/seed_demo.rs; rmdir rodbus/tests 2>/dev/null
echo "== baseline suite WITH patch"; cargo test --workspace --offline 2>&1 | grep -E "^test result" | awk '{p+=$4; f+=$6} END {print "passed",p,"failed",f}'
git checkout -q -- . ; git status --short
