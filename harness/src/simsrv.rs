//! Driver for the production server session over the in-memory transport.

use std::collections::BTreeMap;
use std::sync::{Arc, Mutex};
use std::time::Duration;

use rodbus::server::{ServerHandlerMap, ServerHandlerType};
use rodbus::verif::{server_session, Framing as RFraming};
use rodbus::{AppDecodeLevel, DecodeLevel, FrameDecodeLevel, PhysDecodeLevel, RequestError, UnitId};
use serde::{Deserialize, Serialize};

use crate::app::{Call, CallLog, LogAuth, LogHandler, Policy, UnitState};
use crate::model::server::Framing;
use crate::sim::{self, IoKind, PollCounted, Quiesce, ReadEv};

/// serde mirror of rodbus::DecodeLevel
#[derive(Copy, Clone, Debug, Default, PartialEq, Eq, Hash, Serialize, Deserialize)]
pub struct Decode {
    pub app: u8,
    pub frame: u8,
    pub phys: u8,
}

impl Decode {
    pub const NOTHING: Decode = Decode {
        app: 0,
        frame: 0,
        phys: 0,
    };
    pub const MAX: Decode = Decode {
        app: 3,
        frame: 2,
        phys: 2,
    };
    pub fn all() -> Vec<Decode> {
        let mut v = Vec::new();
        for app in 0..4 {
            for frame in 0..3 {
                for phys in 0..3 {
                    v.push(Decode { app, frame, phys });
                }
            }
        }
        v
    }
    pub fn to_rodbus(self) -> DecodeLevel {
        DecodeLevel {
            app: match self.app % 4 {
                0 => AppDecodeLevel::Nothing,
                1 => AppDecodeLevel::FunctionCode,
                2 => AppDecodeLevel::DataHeaders,
                _ => AppDecodeLevel::DataValues,
            },
            frame: match self.frame % 3 {
                0 => FrameDecodeLevel::Nothing,
                1 => FrameDecodeLevel::Header,
                _ => FrameDecodeLevel::Payload,
            },
            physical: match self.phys % 3 {
                0 => PhysDecodeLevel::Nothing,
                1 => PhysDecodeLevel::Length,
                _ => PhysDecodeLevel::Data,
            },
        }
    }
    pub fn is_nothing(self) -> bool {
        self.app % 4 == 0 && self.frame % 3 == 0 && self.phys % 3 == 0
    }
}

#[derive(Copy, Clone, Debug, PartialEq, Eq, Hash, Serialize, Deserialize)]
pub enum Fr {
    Mbap,
    Rtu,
}

impl Fr {
    pub fn model(self) -> Framing {
        match self {
            Fr::Mbap => Framing::Mbap,
            Fr::Rtu => Framing::Rtu,
        }
    }
    pub fn rodbus(self) -> RFraming {
        match self {
            Fr::Mbap => RFraming::Mbap,
            Fr::Rtu => RFraming::Rtu,
        }
    }
}

#[derive(Clone, Debug, PartialEq, Eq, Hash, Serialize, Deserialize)]
pub struct SrvConfig {
    pub framing: Fr,
    pub units: Vec<(u8, UnitState)>,
    pub auth: Option<(Policy, String)>,
    pub decode: Decode,
    /// further unit ids served by the handler *instance* of another unit (alias id, owner id):
    /// ServerHandlerMap::add takes the same Arc<Mutex<handler>> under several ids
    #[serde(default)]
    pub aliases: Vec<(u8, u8)>,
}

impl SrvConfig {
    pub fn unit_map(&self) -> BTreeMap<u8, UnitState> {
        // later entries with the same id replace earlier ones, as ServerHandlerMap::add does
        let mut m = BTreeMap::new();
        for (u, s) in &self.units {
            m.insert(*u, s.clone());
        }
        m
    }
    /// alias id -> owner id, for aliases that name a configured owner and are not units themselves
    pub fn alias_map(&self) -> BTreeMap<u8, u8> {
        let units = self.unit_map();
        let mut m = BTreeMap::new();
        for (a, o) in &self.aliases {
            if units.contains_key(o) && !units.contains_key(a) {
                m.insert(*a, *o);
            }
        }
        m
    }
}

/// One step of a server script
#[derive(Clone, Debug, PartialEq, Eq, Hash, Serialize, Deserialize)]
pub enum Step {
    /// make one chunk of bytes readable (delivered as its own read)
    Bytes(Vec<u8>),
    /// let the session process everything delivered so far, then take a snapshot
    Pause,
    /// advance virtual time
    Wait(u32),
    /// change the decode level through the server handle
    SetDecode(Decode),
    /// orderly end of stream
    Eof,
    /// read error
    ReadErr(IoKind),
    /// ServerHandle::shutdown()
    Shutdown,
    /// drop the ServerHandle
    DropHandle,
}

#[derive(Clone, Debug, PartialEq, Eq)]
pub enum SrvEnd {
    /// session returned this error
    Ended(String),
    /// session is parked waiting for input
    Parked,
}

#[derive(Clone, Debug, PartialEq, Eq)]
pub struct Snapshot {
    pub writes: usize,
    pub calls: usize,
}

#[derive(Clone, Debug)]
pub struct SrvRun {
    pub writes: Vec<(Duration, Vec<u8>)>,
    pub calls: Vec<Call>,
    pub snapshots: Vec<Snapshot>,
    pub end: SrvEnd,
    pub final_units: BTreeMap<u8, UnitState>,
    pub polls: u64,
    /// result of ServerHandle::shutdown() after the session ended / while parked
    pub shutdown_after: Option<Result<(), ()>>,
    /// whether the session ended after a final shutdown request while parked
    pub ended_after_shutdown: Option<bool>,
    pub fail_write_at: Option<(usize, IoKind)>,
}

impl SrvRun {
    pub fn written_bytes(&self) -> Vec<u8> {
        let mut v = Vec::new();
        for (_, b) in &self.writes {
            v.extend_from_slice(b);
        }
        v
    }
}

pub fn err_class(e: &RequestError) -> String {
    match e {
        RequestError::Io(k) => format!("Io({:?})", k),
        RequestError::BadFrame(f) => format!("BadFrame({:?})", f),
        RequestError::Shutdown => "Shutdown".to_string(),
        other => format!("{:?}", other),
    }
}

pub struct SrvOptions {
    pub select_seed: u64,
    pub fail_write_at: Option<(usize, IoKind)>,
    /// after the script, if the session is still parked, request shutdown and see that it ends
    pub probe_shutdown: bool,
    /// back-pressure on the reply direction: after this many bytes nothing is accepted for this
    /// many ms (a write crossing the mark is accepted in part)
    pub write_stall: Option<(usize, u64)>,
}

impl Default for SrvOptions {
    fn default() -> Self {
        Self {
            select_seed: 0,
            fail_write_at: None,
            probe_shutdown: true,
            write_stall: None,
        }
    }
}

/// Run the production server session against a script
pub fn run_server(cfg: &SrvConfig, steps: &[Step], opt: &SrvOptions) -> SrvRun {
    crate::trace::init();
    let rt = sim::runtime(opt.select_seed);
    let log: CallLog = Arc::new(Mutex::new(Vec::new()));
    let mut map: ServerHandlerMap<LogHandler> = ServerHandlerMap::new();
    let mut handlers: Vec<(u8, ServerHandlerType<LogHandler>)> = Vec::new();
    for (u, st) in cfg.unit_map() {
        let h = rodbus::server::RequestHandler::wrap(LogHandler::new(u, st, log.clone()));
        map.add(UnitId::new(u), h.clone());
        handlers.push((u, h));
    }
    for (a, o) in cfg.alias_map() {
        if let Some((_, h)) = handlers.iter().find(|(u, _)| *u == o) {
            map.add(UnitId::new(a), h.clone());
        }
    }
    let auth = cfg.auth.as_ref().map(|(p, role)| {
        let a: Arc<dyn rodbus::server::AuthorizationHandler> =
            Arc::new(LogAuth::new(p.clone(), log.clone()));
        (a, role.clone())
    });
    let decode = cfg.decode.to_rodbus();
    let framing = cfg.framing.rodbus();
    let fail_write_at = opt.fail_write_at;
    let probe_shutdown = opt.probe_shutdown;

    let out = rt.block_on(async {
        let (handle, mut session) = server_session(framing, map, auth, decode);
        let (io, ioh) = sim::script_io(Vec::new(), fail_write_at, None);
        if let Some((after, ms)) = opt.write_stall {
            ioh.set_write_stall(after, Duration::from_millis(ms));
        }
        let (session_fut, polls) = PollCounted::new(async move { session.run(Box::new(io)).await });
        tokio::pin!(session_fut);
        let mut handle = Some(handle);
        let mut snapshots = Vec::new();
        let mut ended: Option<RequestError> = None;

        // drive: the session future is polled whenever the driver awaits
        macro_rules! drive {
            ($fut:expr) => {{
                if ended.is_none() {
                    tokio::select! {
                        biased;
                        e = &mut session_fut => { ended = Some(e); }
                        _ = $fut => {}
                    }
                } else {
                    $fut.await;
                }
            }};
        }

        for step in steps {
            match step {
                Step::Bytes(b) => ioh.push(Duration::ZERO, ReadEv::Chunk(b.clone())),
                Step::Pause => {
                    drive!(tokio::time::sleep(Duration::from_millis(1)));
                    snapshots.push(Snapshot {
                        writes: ioh.write_count(),
                        calls: log.lock().unwrap().len(),
                    });
                }
                Step::Wait(ms) => {
                    drive!(tokio::time::sleep(Duration::from_millis(*ms as u64)));
                }
                Step::SetDecode(d) => {
                    if let Some(h) = handle.as_mut() {
                        let lvl = d.to_rodbus();
                        // the command queue has capacity 8 and the session drains it; a send can
                        // only wait if the session is gone, in which case it errors
                        drive!(async {
                            let _ = h.set_decode_level(lvl).await;
                        });
                    }
                }
                Step::Eof => ioh.push(Duration::ZERO, ReadEv::Eof),
                Step::ReadErr(k) => ioh.push(Duration::ZERO, ReadEv::Err(*k)),
                Step::Shutdown => {
                    if let Some(h) = handle.as_ref() {
                        drive!(async {
                            let _ = h.shutdown().await;
                        });
                    }
                }
                Step::DropHandle => {
                    handle = None;
                }
            }
        }
        // let the session finish whatever is left
        if ended.is_none() {
            match sim::until_quiescent(session_fut.as_mut()).await {
                Quiesce::Done(e) => ended = Some(e),
                Quiesce::Parked => {}
            }
        }
        let mut shutdown_after = None;
        let mut ended_after_shutdown = None;
        let end = match &ended {
            Some(e) => SrvEnd::Ended(err_class(e)),
            None => SrvEnd::Parked,
        };
        if probe_shutdown {
            if let Some(h) = handle.as_ref() {
                if ended.is_none() {
                    // parked: shutdown must end it
                    let mut res = None;
                    tokio::select! {
                        biased;
                        e = &mut session_fut => { ended = Some(e); }
                        r = h.shutdown() => { res = Some(r.map_err(|_| ())); }
                    }
                    shutdown_after = res;
                    if ended.is_none() {
                        match sim::until_quiescent(session_fut.as_mut()).await {
                            Quiesce::Done(e) => ended = Some(e),
                            Quiesce::Parked => {}
                        }
                    }
                    ended_after_shutdown = Some(matches!(ended, Some(RequestError::Shutdown)));
                } else {
                    // session is gone: the handle must keep answering (with an error), not hang
                    let r = tokio::time::timeout(Duration::from_secs(3600), h.shutdown()).await;
                    shutdown_after = match r {
                        Ok(x) => Some(x.map_err(|_| ())),
                        Err(_) => None,
                    };
                }
            }
        }
        (
            ioh.written(),
            snapshots,
            end,
            polls.load(std::sync::atomic::Ordering::Relaxed),
            shutdown_after,
            ended_after_shutdown,
        )
    });
    drop(rt);
    let calls = log.lock().unwrap().clone();
    let mut final_units = BTreeMap::new();
    for (u, h) in handlers {
        final_units.insert(u, h.lock().unwrap().state.clone());
    }
    SrvRun {
        writes: out.0,
        calls,
        snapshots: out.1,
        end: out.2,
        final_units,
        polls: out.3,
        shutdown_after: out.4,
        ended_after_shutdown: out.5,
        fail_write_at,
    }
}
