#!/bin/sh
# tools/fuzz_c07.sh : coverage-guided campaign for C07 (thorough tier). Fixed work: N runs per
# job, 8 jobs per target, seeded from VERIF_SEED. Artifacts = violations (the targets panic with
# "VERIF-VIOLATION property=<ID> ..." when an in-target oracle fails). Exit 0 / 1 / 2.
DIR=$(cd "$(dirname "$0")/.." && pwd)
SEED=${VERIF_SEED:-1}
RUNS=${VERIF_FUZZ_RUNS:-250000}
JOBS=${VERIF_FUZZ_JOBS:-8}
export CARGO_NET_OFFLINE=true
cd "$DIR/harness" || exit 2
LOG="$DIR/fuzz/build.log"
if ! RUSTFLAGS="--cfg tokio_unstable" cargo +nightly fuzz build --fuzz-dir "$DIR/fuzz" >"$LOG" 2>&1; then
    echo "INCONCLUSIVE property=C07 fuzz targets do not build (see $LOG)"; tail -5 "$LOG"; exit 2
fi
rm -rf "$DIR/fuzz/corpus" "$DIR/fuzz/artifacts" "$DIR/fuzz/logs"; mkdir -p "$DIR/fuzz/corpus" "$DIR/fuzz/logs"
"$DIR/harness/target/release/vh" export-fuzz-seeds "$DIR/fuzz/corpus" 300 >/dev/null || { echo "INCONCLUSIVE property=C07 cannot export seeds"; exit 2; }
status=0
for T in srv cli; do
    mkdir -p "$DIR/fuzz/artifacts/$T"
    ( cd "$DIR/fuzz/logs" && RUSTFLAGS="--cfg tokio_unstable" cargo +nightly fuzz run --fuzz-dir "$DIR/fuzz" $T "$DIR/fuzz/corpus/$T" -- \
        -runs=$RUNS -seed=$SEED -len_control=0 -max_len=2048 -jobs=$JOBS -workers=$JOBS -timeout=20 \
        -artifact_prefix="$DIR/fuzz/artifacts/$T/" > "$DIR/fuzz/logs/$T.out" 2>&1 )
    n=$(ls "$DIR/fuzz/artifacts/$T" 2>/dev/null | wc -l)
    execs=$(grep -h "^Done" "$DIR"/fuzz/logs/fuzz-*.log 2>/dev/null | awk '{s+=$2} END {print s+0}')
    cov=$(grep -h "cov:" "$DIR"/fuzz/logs/fuzz-*.log 2>/dev/null | sed 's/.*cov: \([0-9]*\).*/\1/' | sort -n | tail -1)
    echo "[C07] fuzz target $T: $execs executions in $JOBS jobs, max edge coverage ${cov:-?}, corpus $(ls "$DIR/fuzz/corpus/$T" | wc -l) files, $n artifacts"
    mkdir -p "$DIR/fuzz/logs/$T" && mv "$DIR"/fuzz/logs/fuzz-*.log "$DIR/fuzz/logs/$T/" 2>/dev/null
    echo "$T $execs ${cov:-0} $n" >> "$DIR/fuzz/logs/summary.txt"
    if [ "$n" -gt 0 ]; then
        for a in "$DIR/fuzz/artifacts/$T"/*; do
            case "$a" in
              *timeout*|*oom*|*slow-unit*) echo "INCONCLUSIVE property=C07 libFuzzer $a"; [ $status -eq 0 ] && status=2 ;;
              *) msg=$(grep -h "VERIF-VIOLATION" "$DIR/fuzz/logs/$T"/fuzz-*.log | head -1)
                 prop=$(echo "$msg" | sed -n 's/.*property=\(C[0-9]*\).*/\1/p')
                 echo "violation found by libFuzzer target $T: ${msg:-panic (see logs)}"
                 echo "VIOLATION property=${prop:-C07} replay=$a"; status=1 ;;
            esac
        done
    fi
done
# add the campaign to the evidence file written by vh
python3 - "$DIR" <<'PY'
import json,sys,os
d=sys.argv[1]
p=os.path.join(os.environ.get('VERIF_EVIDENCE_DIR', os.path.join(d,'evidence')),'C07.json')
try:
    ev=json.load(open(p))
except Exception:
    sys.exit(0)
camp=[]
for l in open(os.path.join(d,'fuzz/logs/summary.txt')):
    t,execs,cov,n=l.split()
    camp.append({"target":t,"executions":int(execs),"max_edge_coverage":int(cov),"artifacts":int(n)})
    ev['coverage']['evaluations']+=int(execs)
ev['coverage']['libfuzzer_campaigns']=camp
json.dump(ev,open(p,'w'),indent=1)
PY
exit $status
