//! Client-session properties on the in-memory transport: C03 (request encoding or nothing),
//! C04 (reply acceptance), C11 (transaction ids, no cross-talk), C12 (deadlines, timeout limit).

use std::time::Duration;

use proptest::collection::vec;
use proptest::prelude::*;
use serde::{Deserialize, Serialize};

use crate::gen::*;
use crate::model::client::{predict, Expect, ModelRequest, StreamFrame};
use crate::model::framing::{deframe_rtu, Direction};
use crate::model::pdu::*;
use crate::runner::{CaseOk, CaseResult};
use crate::sim::IoKind;
use crate::simcli::*;
use crate::simsrv::{Decode, Fr};

// ---------------------------------------------------------------------------------------------
// request generators

fn arb_kind() -> BoxedStrategy<Kind> {
    prop::sample::select(Kind::ALL.to_vec()).boxed()
}

/// (start, count) lattice for the client side: counts around every limit, ranges ending at
/// 65535 / 65536, zero, plus random
fn arb_client_start_count(kind: Kind) -> BoxedStrategy<(u16, u32)> {
    let limit = kind.limit();
    let count = prop_oneof![
        3 => prop::sample::select(vec![1u32, 2, 7, 8, 9, 16, 17]),
        5 => (0u32..5).prop_map(move |d| (limit + 2).saturating_sub(d)),
        2 => 1u32..=limit.max(1),
        1 => prop::sample::select(vec![0u32, 1969, 1976, 1977, 2000, 2001, 2008, 2009, 2040, 124, 125, 126, 127, 130, 255, 256, 4000]),
        1 => 0u32..2100,
        // the whole u16 range and its binary boundaries (wrap-arounds in size computations)
        1 => 0u32..=65535,
        1 => (0u32..=16, 0u32..3).prop_map(|(k, d)| ((1u32 << k) + d).saturating_sub(1).min(65535)),
    ];
    (count, 0u8..8, any::<u16>())
        .prop_map(|(count, sel, raw)| {
            let start = match sel {
                0 | 1 | 2 => raw % 200,
                3 | 4 => 65536u32.saturating_sub(count).min(65535) as u16,
                5 => 65537u32.saturating_sub(count).min(65535) as u16,
                6 => 65535,
                _ => raw,
            };
            (start, count)
        })
        .boxed()
}

pub fn arb_req_spec() -> BoxedStrategy<ReqSpec> {
    arb_kind()
        .prop_flat_map(|kind| {
            (arb_client_start_count(kind), any::<u64>(), 0u8..40).prop_map(move |((start, count), seed, huge)| {
                let mut x = seed | 1;
                let mut next = move || {
                    x ^= x << 13;
                    x ^= x >> 7;
                    x ^= x << 17;
                    x
                };
                match kind {
                    k if k.is_read() => ReqSpec::Read {
                        kind: k,
                        start,
                        count: count.min(65535) as u16,
                    },
                    Kind::WriteCoil => ReqSpec::WriteCoil {
                        addr: start,
                        value: next() & 1 == 1,
                    },
                    Kind::WriteReg => ReqSpec::WriteReg {
                        addr: start,
                        value: next() as u16,
                    },
                    Kind::WriteCoils => {
                        // a few value vectors at and beyond the u16 limit
                        let n = match huge {
                            0 => 65535,
                            1 => 65536,
                            2 => 70000,
                            _ => count as usize,
                        };
                        ReqSpec::WriteCoils {
                            start,
                            values: (0..n).map(|_| next() & 1 == 1).collect(),
                        }
                    }
                    _ => {
                        let n = match huge {
                            0 => 65535,
                            1 => 65536,
                            _ => count as usize,
                        };
                        ReqSpec::WriteRegs {
                            start,
                            values: (0..n).map(|_| next() as u16).collect(),
                        }
                    }
                }
            })
        })
        .boxed()
}

/// A request the reference accepts (for the reply-side properties)
pub fn arb_valid_req() -> BoxedStrategy<ReqSpec> {
    arb_kind()
        .prop_flat_map(|kind| {
            let limit = kind.limit();
            (
                prop_oneof![
                    4 => prop::sample::select(vec![1u32, 2, 7, 8, 9, 15, 16, 17]),
                    2 => (0u32..3).prop_map(move |d| limit.saturating_sub(d).max(1)),
                    2 => 1u32..=limit,
                ],
                0u8..6,
                any::<u16>(),
                any::<u64>(),
            )
                .prop_map(move |(count, sel, raw, seed)| {
                    let count = count.min(limit).max(1);
                    let start = match sel {
                        0 | 1 | 2 => raw % 200,
                        3 => (65536 - count) as u16,
                        4 => (65536 - count - (raw as u32 % 20)).min(65535) as u16,
                        _ => (raw as u32 % (65536 - count + 1)) as u16,
                    };
                    let mut x = seed | 1;
                    let mut next = move || {
                        x ^= x << 13;
                        x ^= x >> 7;
                        x ^= x << 17;
                        x
                    };
                    match kind {
                        k if k.is_read() => ReqSpec::Read {
                            kind: k,
                            start,
                            count: count as u16,
                        },
                        Kind::WriteCoil => ReqSpec::WriteCoil {
                            addr: start,
                            value: next() & 1 == 1,
                        },
                        Kind::WriteReg => ReqSpec::WriteReg {
                            addr: start,
                            value: next() as u16,
                        },
                        Kind::WriteCoils => ReqSpec::WriteCoils {
                            start,
                            values: (0..count).map(|_| next() & 1 == 1).collect(),
                        },
                        _ => ReqSpec::WriteRegs {
                            start,
                            values: (0..count).map(|_| next() as u16).collect(),
                        },
                    }
                })
        })
        .boxed()
}

fn arb_style() -> BoxedStrategy<Style> {
    prop_oneof![3 => Just(Style::Future), 1 => Just(Style::Callback), 1 => Just(Style::Ffi)].boxed()
}

fn arb_fr() -> BoxedStrategy<Fr> {
    prop_oneof![1 => Just(Fr::Mbap), 1 => Just(Fr::Rtu)].boxed()
}

// ---------------------------------------------------------------------------------------------
// C03

#[derive(Clone, Debug, PartialEq, Eq, Hash, Serialize, Deserialize)]
pub struct C03Case {
    pub framing: Fr,
    pub decode: Decode,
    pub requests: Vec<(Style, u8, ReqSpec)>,
    pub select_seed: u64,
}

pub fn arb_c03() -> BoxedStrategy<C03Case> {
    (
        arb_fr(),
        arb_decode(),
        vec((arb_style(), any::<u8>(), arb_req_spec()), 1..=6),
        any::<u64>(),
    )
        .prop_map(|(framing, decode, requests, select_seed)| C03Case {
            framing,
            decode,
            requests,
            select_seed,
        })
        .boxed()
}

fn hex(b: &[u8]) -> String {
    let mut s = String::new();
    for (i, x) in b.iter().enumerate() {
        if i > 0 {
            s.push(' ');
        }
        s.push_str(&format!("{:02X}", x));
        if i > 24 {
            s.push_str(&format!(" .. ({} bytes)", b.len()));
            break;
        }
    }
    s
}

pub fn check_c03(case: &C03Case) -> CaseResult {
    let mut ops = Vec::new();
    for (i, (style, unit, req)) in case.requests.iter().enumerate() {
        ops.push(COp::Submit {
            id: i,
            style: *style,
            handle: 0,
            unit: *unit,
            timeout_ms: 1000,
            req: req.clone(),
        });
        // the peer answers 1 ms after each request; 5 ms later the request is over
        ops.push(COp::Advance(5));
    }
    let cli = CliCase {
        cfg: CliConfig {
            framing: case.framing,
            decode: case.decode,
            max_timeouts: None,
            queue: 16,
            retry_ms: 1000,
        },
        conns: vec![ConnPlan {
            peer: PeerPlan {
                per_request: vec![],
                default: vec![PeerAct::Frame {
                    delay_ms: 1,
                    tx: TxSel::Echo,
                    pdu: PduSel::Genuine(7),
                    split: None,
                }],
            },
            fail_write_at: None,
            write_stall: None,
            unsolicited: vec![],
        }],
        ops,
        select_seed: case.select_seed,
        pre_enable: true,
    };
    let run = run_client(&cli);
    let mut ok = CaseOk::new();
    ok.label(match case.framing {
        Fr::Mbap => "framing:mbap",
        Fr::Rtu => "framing:rtu",
    });
    let writes: Vec<Vec<u8>> = run
        .peers
        .first()
        .map(|p| p.writes.iter().map(|w| w.1.clone()).collect())
        .unwrap_or_default();
    let max_len = match case.framing {
        Fr::Mbap => 260,
        Fr::Rtu => 256,
    };
    for w in &writes {
        if w.len() > max_len {
            return Err(format!(
                "a frame of {} bytes was transmitted (maximum {}): [{}]",
                w.len(),
                max_len,
                hex(w)
            ));
        }
    }
    let mut next_write = 0usize;
    let mut submitted_before = 0u32;
    let mut last_tx: Option<u16> = None;
    for (i, (_style, unit, req)) in case.requests.iter().enumerate() {
        let accepted = req.model_accepts();
        let refusal = run.ledger.refusals.iter().find(|r| r.0 == i);
        let completion: Vec<_> = run.ledger.completions.iter().filter(|c| c.id == i).collect();
        let kind = req.kind();
        let n = req.len() as i64;
        let lim = kind.limit() as i64;
        if kind.limit() > 1 && (n - lim).abs() <= 2 {
            ok.label("near_limit");
            ok.nontrivial = true;
        }
        if req.start() as usize + req.len() == 65536 || req.start() as usize + req.len() == 65537 {
            ok.label("range_end_65535_or_65536");
            ok.nontrivial = true;
        }
        ok.label(if accepted { "model:accept" } else { "model:reject" });
        if accepted {
            let valid = req.to_valid().unwrap();
            // exactly one frame, equal to the reference encoding
            let w = match writes.get(next_write) {
                Some(w) => w,
                None => {
                    return Err(format!(
                        "request {} ({} start {} count {}) is valid but was not transmitted (refusal {:?}, completion {:?})",
                        i, kind.name(), req.start(), req.len(), refusal, completion
                    ))
                }
            };
            next_write += 1;
            let tx = if case.framing == Fr::Mbap && w.len() >= 2 {
                u16::from_be_bytes([w[0], w[1]])
            } else {
                0
            };
            let expected = expected_request_frame(case.framing, tx, *unit, &valid);
            if *w != expected {
                return Err(format!(
                    "request {} ({} start {} count {}): transmitted [{}] but the protocol encoding is [{}]",
                    i, kind.name(), req.start(), req.len(), hex(w), hex(&expected)
                ));
            }
            if case.framing == Fr::Mbap {
                // transaction ids grow, at least one per transmitted request and at most one per
                // submitted request (whether a rejected request consumes an id is C11's business)
                if let Some(l) = last_tx {
                    if tx <= l {
                        return Err(format!("transaction id {} after {}", tx, l));
                    }
                }
                if (tx as u32) < (next_write as u32 - 1) || tx as u32 > submitted_before {
                    return Err(format!(
                        "request {}: transaction id {} outside [{}, {}]",
                        i,
                        tx,
                        next_write - 1,
                        submitted_before
                    ));
                }
                last_tx = Some(tx);
            }
            // the peer answered genuinely: the request must have completed exactly once
            if completion.len() != 1 {
                return Err(format!(
                    "request {} transmitted but has {} completions",
                    i,
                    completion.len()
                ));
            }
        } else {
            // rejected: an error must be reported and nothing may be transmitted. "Nothing" is
            // established below by the total count of writes and by the next accepted request's
            // frame following immediately.
            let reported_error = refusal.is_some()
                || completion.iter().any(|c| !c.res.is_ok());
            if completion.iter().any(|c| c.res.is_ok()) {
                return Err(format!(
                    "request {} ({} start {} count {}) is outside protocol limits but completed successfully",
                    i, kind.name(), req.start(), req.len()
                ));
            }
            if !reported_error {
                return Err(format!(
                    "request {} ({} start {} count {}) is outside protocol limits but no error was reported",
                    i, kind.name(), req.start(), req.len()
                ));
            }
            if refusal.is_some() {
                ok.label("reject:at_call");
            } else {
                ok.label("reject:by_task");
            }
        }
        submitted_before += 1;
    }
    if writes.len() != next_write {
        let extra = &writes[next_write.min(writes.len() - 1)];
        return Err(format!(
            "{} frames transmitted for {} acceptable requests; e.g. [{}] (a request outside protocol limits was transmitted)",
            writes.len(),
            next_write,
            hex(extra)
        ));
    }
    Ok(ok)
}

// ---------------------------------------------------------------------------------------------
// C04

#[derive(Clone, Debug, PartialEq, Eq, Hash, Serialize, Deserialize)]
pub struct C04Case {
    pub framing: Fr,
    pub decode: Decode,
    pub style: Style,
    pub unit: u8,
    pub req: ReqSpec,
    pub reply: Vec<u8>,
    pub select_seed: u64,
}

/// Mutations of the genuine reply
fn arb_reply_for(req: ReqSpec) -> BoxedStrategy<Vec<u8>> {
    let valid = req.to_valid().expect("valid request");
    let fc = valid.kind().fc();
    let genuine = any::<u64>().prop_map({
        let valid = valid.clone();
        move |seed| {
            let (b, r) = genuine_values(seed);
            genuine_reply(&valid, &b, &r)
        }
    });
    let is_read = valid.kind().is_read();
    let mutated = (genuine.clone(), 0u8..15, any::<u8>(), any::<prop::sample::Index>(), 0u8..8, 1usize..=3)
        .prop_map(move |(mut p, m, byte, idx, bit, k)| {
            match m {
                // function code replaced
                0 => p[0] = byte,
                1 => p[0] = fc | 0x80,
                2 => p[0] = (byte & 0x7F) | 0x80,
                // length
                3 => {
                    let n = p.len().saturating_sub(k).max(1);
                    p.truncate(n)
                }
                4 => {
                    for _ in 0..k {
                        p.push(byte)
                    }
                }
                // one bit of one body byte flipped (byte count, echo address / value / quantity)
                5 | 6 | 7 => {
                    if p.len() > 1 {
                        let i = 1 + idx.index(p.len() - 1);
                        p[i] ^= 1 << bit;
                    }
                }
                // byte-count field (reads) altered
                8 => {
                    if p.len() > 1 {
                        p[1] = p[1].wrapping_add(k as u8);
                    }
                }
                // length and byte-count field changed together: the well-formed reply to a
                // request for more / fewer points than were asked for
                12 | 13 => {
                    if is_read && p.len() > 1 {
                        let step = if fc == 3 || fc == 4 { 2 * k } else { k };
                        if (p[1] as usize) + step <= 250 {
                            for _ in 0..step {
                                p.push(byte);
                            }
                            p[1] += step as u8;
                        }
                    }
                }
                14 => {
                    if is_read && p.len() > 1 {
                        let step = if fc == 3 || fc == 4 { 2 * k } else { k };
                        if (p[1] as usize) > step {
                            p.truncate(p.len() - step);
                            p[1] -= step as u8;
                        }
                    }
                }
                // coil echo value that is neither 0 nor FF00
                9 => {
                    if p.len() == 5 {
                        p[3] = 0x00;
                        p[4] = 0xFF;
                    }
                }
                _ => {}
            }
            p.truncate(253);
            p
        });
    let exception = (0u8..3, any::<u8>(), any::<u8>()).prop_map(move |(n, code, extra)| {
        let mut p = vec![fc | 0x80];
        match n {
            0 => {}
            1 => p.push(code),
            _ => {
                p.push(code);
                p.push(extra)
            }
        }
        p
    });
    let raw = vec(any::<u8>(), 0..=253);
    let raw_short = vec(any::<u8>(), 0..=6);
    prop_oneof![
        3 => genuine,
        8 => mutated,
        3 => exception,
        1 => raw,
        1 => raw_short,
    ]
    .boxed()
}

pub fn arb_c04() -> BoxedStrategy<C04Case> {
    (arb_fr(), arb_decode(), arb_style(), any::<u8>(), arb_valid_req(), any::<u64>())
        .prop_flat_map(|(framing, decode, style, unit, req, select_seed)| {
            arb_reply_for(req.clone()).prop_map(move |reply| C04Case {
                framing,
                decode,
                style,
                unit,
                req: req.clone(),
                reply,
                select_seed,
            })
        })
        .boxed()
}

pub fn check_c04(case: &C04Case) -> CaseResult {
    let valid = match case.req.to_valid() {
        Some(v) => v,
        None => return Err("generator produced an invalid request".to_string()),
    };
    let cli = CliCase {
        cfg: CliConfig {
            framing: case.framing,
            decode: case.decode,
            max_timeouts: None,
            queue: 4,
            retry_ms: 1000,
        },
        conns: vec![ConnPlan {
            peer: PeerPlan {
                per_request: vec![vec![PeerAct::Frame {
                    delay_ms: 1,
                    tx: TxSel::Echo,
                    pdu: PduSel::Bytes(case.reply.clone()),
                    split: None,
                }]],
                default: vec![],
            },
            fail_write_at: None,
            write_stall: None,
            unsolicited: vec![],
        }],
        ops: vec![
            COp::Submit {
                id: 0,
                style: case.style,
                handle: 0,
                unit: case.unit,
                timeout_ms: 1000,
                req: case.req.clone(),
            },
            COp::Advance(2000),
        ],
        select_seed: case.select_seed,
        pre_enable: true,
    };
    let run = run_client(&cli);
    let mut ok = CaseOk::new();
    ok.label(match case.framing {
        Fr::Mbap => "framing:mbap",
        Fr::Rtu => "framing:rtu",
    });
    let comps: Vec<_> = run.ledger.completions.iter().filter(|c| c.id == 0).collect();
    if comps.len() != 1 {
        return Err(format!(
            "request completed {} times (refusals {:?})",
            comps.len(),
            run.ledger.refusals
        ));
    }
    let res = &comps[0].res;
    // what reaches the client as a PDU
    let class = match case.framing {
        Fr::Mbap => classify_reply(&valid, &case.reply),
        Fr::Rtu => {
            // the RTU length is derived from the reply itself: ask the reference deframer what
            // the bytes on the wire are
            let wire = frame_reply(Fr::Rtu, 0, case.unit, &case.reply);
            let (frames, _end) = deframe_rtu(Direction::Response, &wire);
            match frames.first() {
                Some(f) => {
                    if f.pdu != case.reply {
                        ok.label("rtu:reframed");
                    }
                    classify_reply(&valid, &f.pdu)
                }
                None => {
                    ok.label("rtu:no_frame");
                    ReplyClass::OtherError
                }
            }
        }
    };
    // non-trivial: a reply differing from a genuine reply in exactly one field
    let genuine_len = genuine_reply(&valid, &[false], &[0]).len();
    if case.reply.len() == genuine_len && !matches!(class, ReplyClass::Ok(_)) {
        ok.label("one_field_off");
        ok.nontrivial = true;
    }
    if !case.reply.is_empty()
        && case.reply[0] == valid.kind().fc()
        && (case.reply.len() as i64 - genuine_len as i64).abs() <= 3
        && case.reply.len() != genuine_len
    {
        ok.label("length_off");
        ok.nontrivial = true;
    }
    match &class {
        ReplyClass::Ok(v) => {
            ok.label("class:ok");
            match res {
                Res::Ok(got) if got == v => {}
                other => {
                    return Err(format!(
                        "genuine reply [{}] to {:?}: expected the values it carries, got {:?}",
                        hex(&case.reply),
                        short(&case.req),
                        other
                    ))
                }
            }
        }
        ReplyClass::Exception(c) => {
            ok.label("class:exception");
            match res {
                Res::Exception(got) if got == c => {}
                other => {
                    return Err(format!(
                        "exception reply [{}] to {:?}: expected exception {}, got {:?}",
                        hex(&case.reply),
                        short(&case.req),
                        c,
                        other
                    ))
                }
            }
        }
        ReplyClass::OtherError => {
            ok.label("class:other_error");
            match res {
                Res::Ok(_) | Res::Exception(_) => {
                    return Err(format!(
                        "reply [{}] to {:?} is not a genuine matching reply, but the request completed with {:?}",
                        hex(&case.reply),
                        short(&case.req),
                        res
                    ))
                }
                _ => {}
            }
        }
        ReplyClass::ByteCountMismatch(v) => {
            ok.label("class:dontcare_byte_count");
            ok.dontcare += 1;
            match res {
                Res::Ok(got) if got != v => {
                    return Err(format!(
                        "reply [{}] accepted with values that are not the ones it encodes",
                        hex(&case.reply)
                    ))
                }
                Res::Exception(_) => {
                    return Err("byte-count mismatch reported as an exception".to_string())
                }
                _ => {}
            }
        }
    }
    ok.label(match res {
        Res::Ok(_) => "res:ok",
        Res::Exception(_) => "res:exception",
        Res::BadResponse(_) => "res:bad_response",
        Res::ResponseTimeout => "res:timeout",
        Res::BadFrame(_) => "res:bad_frame",
        _ => "res:other",
    });
    Ok(ok)
}

fn short(r: &ReqSpec) -> String {
    format!("{} start {} count {}", r.kind().name(), r.start(), r.len())
}

// ---------------------------------------------------------------------------------------------
// C03 under back-pressure: the transport stops accepting bytes in the middle of a frame

#[derive(Clone, Debug, PartialEq, Eq, Hash, Serialize, Deserialize)]
pub struct C03Bp {
    pub framing: Fr,
    pub decode: Decode,
    /// (unit, timeout ms, gap before submitting ms, request)
    pub requests: Vec<(u8, u32, u32, ReqSpec)>,
    /// nothing is accepted for `.1` ms once `.0` bytes have been written
    pub stall: (u32, u32),
    pub max_timeouts: Option<u16>,
    pub select_seed: u64,
}

pub fn arb_c03_bp() -> BoxedStrategy<C03Bp> {
    (
        arb_fr(),
        arb_decode(),
        vec(
            (
                any::<u8>(),
                prop::sample::select(vec![1u32, 5, 20, 100, 1000]),
                prop_oneof![3 => Just(0u32), 1 => 0u32..300],
                arb_valid_req(),
            ),
            1..=4,
        ),
        (prop_oneof![2 => 0u32..30, 2 => 0u32..300, 1 => 0u32..700], prop::sample::select(vec![1u32, 4, 19, 50, 150, 999, 5000])),
        proptest::option::weighted(0.3, 1u16..=3),
        any::<u64>(),
    )
        .prop_map(|(framing, decode, requests, stall, max_timeouts, select_seed)| C03Bp {
            framing,
            decode,
            requests,
            stall,
            max_timeouts,
            select_seed,
        })
        .boxed()
}

/// The same scripts on serial framing only (C06: every emitted frame is complete and ends with
/// its CRC, also when the line takes it in pieces)
pub fn arb_c03_bp_rtu() -> BoxedStrategy<C03Bp> {
    arb_c03_bp()
        .prop_map(|mut c| {
            c.framing = Fr::Rtu;
            c
        })
        .boxed()
}

/// Oracle: whatever the timing, the bytes on the wire are a concatenation of complete request
/// frames, each the reference encoding of a distinct submitted request, in submission order;
/// every request completes; a request of which no frame is on the wire completed with an error.
pub fn check_c03_bp(case: &C03Bp) -> CaseResult {
    let mut ops = Vec::new();
    for (i, (unit, timeout, gap, req)) in case.requests.iter().enumerate() {
        if *gap > 0 {
            ops.push(COp::Advance(*gap));
        }
        ops.push(COp::Submit {
            id: i,
            style: Style::Future,
            handle: 0,
            unit: *unit,
            timeout_ms: *timeout,
            req: req.clone(),
        });
    }
    ops.push(COp::Advance(60_000));
    let run = run_client(&CliCase {
        cfg: CliConfig {
            framing: case.framing,
            decode: case.decode,
            max_timeouts: case.max_timeouts,
            queue: 16,
            retry_ms: 100_000_000,
        },
        conns: vec![ConnPlan {
            peer: PeerPlan::default(),
            fail_write_at: None,
            write_stall: Some(case.stall),
            unsolicited: vec![],
        }],
        ops,
        select_seed: case.select_seed,
        pre_enable: true,
    });
    let mut ok = CaseOk::new();
    ok.label(match case.framing {
        Fr::Mbap => "framing:mbap",
        Fr::Rtu => "framing:rtu",
    });
    let mut wire: Vec<u8> = Vec::new();
    let mut fragments = 0;
    if let Some(p) = run.peers.first() {
        for (_, b) in &p.writes {
            wire.extend_from_slice(b);
            fragments += 1;
        }
    }
    // walk the wire: frame after frame of the submitted requests, in order
    let mut pos = 0usize;
    let mut next_req = 0usize;
    let mut transmitted: Vec<usize> = Vec::new();
    let mut abandoned_write = false;
    // requests of which at least one byte went out, in wire order
    let mut begun: Vec<usize> = Vec::new();
    while pos < wire.len() {
        let tx = if case.framing == Fr::Mbap && wire.len() >= pos + 2 {
            u16::from_be_bytes([wire[pos], wire[pos + 1]])
        } else {
            0
        };
        let mut matched = None;
        for j in next_req..case.requests.len() {
            let (unit, _, _, req) = &case.requests[j];
            let f = expected_request_frame(case.framing, tx, *unit, &req.to_valid().unwrap());
            if wire[pos..].starts_with(&f) {
                matched = Some((j, f.len()));
                break;
            }
        }
        match matched {
            Some((j, n)) => {
                transmitted.push(j);
                begun.push(j);
                next_req = j + 1;
                pos += n;
            }
            None => {
                // a write the transport did not take within the request's own timeout is given up:
                // the connection then ends with an I/O time-out, and what it carried last is the
                // beginning of that request's frame and nothing after it
                let abandoned = (next_req..case.requests.len()).find(|j| {
                    let (unit, _, _, req) = &case.requests[*j];
                    let f = expected_request_frame(case.framing, tx, *unit, &req.to_valid().unwrap());
                    let timed_out = run
                        .ledger
                        .completions
                        .iter()
                        .any(|c| c.id == *j && matches!(&c.res, Res::Io(k) if k == "TimedOut"));
                    timed_out && f.len() > wire.len() - pos && f.starts_with(&wire[pos..])
                });
                if let Some(j) = abandoned {
                    let later_sent_nothing = run
                        .ledger
                        .completions
                        .iter()
                        .all(|c| c.id <= j || matches!(c.res, Res::NoConnection | Res::Shutdown));
                    if later_sent_nothing {
                        abandoned_write = true;
                        begun.push(j);
                        break;
                    }
                }
                let (unit, _, _, req) = &case.requests[next_req.min(case.requests.len() - 1)];
                let f = expected_request_frame(case.framing, tx, *unit, &req.to_valid().unwrap());
                return Err(format!(
                    "transport stops accepting after {} bytes for {} ms: at offset {} the wire holds [{}] ({} bytes to the end), which is not a complete frame of any remaining request (the next one encodes to {} bytes [{}])",
                    case.stall.0,
                    case.stall.1,
                    pos,
                    hex(&wire[pos..]),
                    wire.len() - pos,
                    f.len(),
                    hex(&f)
                ));
            }
        }
    }
    for (i, _) in case.requests.iter().enumerate() {
        let n = run.ledger.completions.iter().filter(|c| c.id == i).count();
        if n != 1 {
            return Err(format!("request {} completed {} times", i, n));
        }
        let c = run.ledger.completions.iter().find(|c| c.id == i).unwrap();
        if matches!(c.res, Res::Ok(_) | Res::Exception(_)) {
            return Err(format!("request {} completed with {:?} although the peer never answers", i, c.res));
        }
    }
    if fragments > transmitted.len() {
        ok.label("frame_written_in_pieces");
    }
    if abandoned_write {
        ok.label("write_given_up_at_the_deadline");
    }
    // the stall began inside a frame and outlasted that request's timeout
    let mut off = 0usize;
    for j in &begun {
        let (unit, timeout, _, req) = &case.requests[*j];
        let n = expected_request_frame(case.framing, 0, *unit, &req.to_valid().unwrap()).len();
        let s = case.stall.0 as usize;
        if s > off && s < off + n && case.stall.1 > *timeout {
            ok.label("stall_mid_frame_longer_than_timeout");
            ok.nontrivial = true;
        }
        off += n;
    }
    if transmitted.len() >= 2 {
        ok.label("frames>=2");
    }
    Ok(ok)
}

// ---------------------------------------------------------------------------------------------
// C11 / C12: the stream model

#[derive(Clone, Debug, PartialEq, Eq, Hash, Serialize, Deserialize)]
pub struct StreamCase {
    pub framing: Fr,
    pub decode: Decode,
    pub max_timeouts: Option<u16>,
    /// (style, unit, timeout ms, gap before submitting in ms, request)
    pub requests: Vec<(Style, u8, u32, u32, ReqSpec)>,
    /// what the peer does for the k-th request
    pub plans: Vec<Vec<PeerAct>>,
    /// frames the peer sends before any request: (delay_ms, tx, pdu)
    pub idle_frames: Vec<(u32, u16, Vec<u8>)>,
    pub select_seed: u64,
    /// request indices after which a setting that changes nothing (the decode level the channel
    /// already has) is queued: not a request outcome, so it must not touch deadlines or the
    /// consecutive-timeout count
    #[serde(default)]
    pub settings_after: Vec<usize>,
}

fn arb_reply_pdu_simple() -> BoxedStrategy<PduSel> {
    prop_oneof![
        6 => any::<u64>().prop_map(PduSel::Genuine),
        2 => any::<u8>().prop_map(PduSel::Exception),
        1 => vec(any::<u8>(), 1..8).prop_map(PduSel::Bytes),
    ]
    .boxed()
}

/// delays relative to a timeout T (ms): just before, just after, early, late
fn arb_delay(t: u32) -> BoxedStrategy<u32> {
    prop_oneof![
        3 => 1u32..t.max(2),
        2 => Just(t.saturating_sub(1).max(1)),
        2 => Just(t + 1),
        1 => (t + 1)..(2 * t + 10),
        1 => Just(1u32),
    ]
    .boxed()
}

fn arb_txsel_c11() -> BoxedStrategy<TxSel> {
    prop_oneof![
        5 => Just(TxSel::Echo),
        4 => prop::sample::select(vec![65535u16, 65534, 65281, 65280, 32768, 1, 2, 255, 256]).prop_map(TxSel::Offset),
        1 => any::<u16>().prop_map(TxSel::Offset),
    ]
    .boxed()
}

pub fn arb_c11() -> BoxedStrategy<StreamCase> {
    (
        arb_decode(),
        vec((arb_style(), any::<u8>(), prop::sample::select(vec![10u32, 50, 100, 1000]), arb_valid_req()), 1..=8),
        any::<u64>(),
        vec((1u32..200, any::<u16>(), vec(any::<u8>(), 1..6)), 0..2),
    )
        .prop_flat_map(|(decode, reqs, select_seed, idle)| {
            let plans: Vec<BoxedStrategy<Vec<PeerAct>>> = reqs
                .iter()
                .map(|(_, _, t, _)| {
                    let t = *t;
                    vec(
                        (arb_delay(t), arb_txsel_c11(), arb_reply_pdu_simple(), proptest::option::weighted(0.15, (1u16..12, 1u32..30))),
                        0..4,
                    )
                    .prop_map(|v| {
                        v.into_iter()
                            .map(|(delay_ms, tx, pdu, split)| PeerAct::Frame {
                                delay_ms,
                                tx,
                                pdu,
                                split,
                            })
                            .collect()
                    })
                    .boxed()
                })
                .collect();
            (plans, Just(reqs), Just(idle)).prop_map(move |(plans, reqs, idle)| StreamCase {
                framing: Fr::Mbap,
                decode,
                max_timeouts: None,
                requests: reqs
                    .into_iter()
                    .map(|(s, u, t, r)| (s, u, t, 0, r))
                    .collect(),
                plans,
                idle_frames: idle,
                select_seed,
                settings_after: vec![],
            })
        })
        .boxed()
}

pub fn arb_c12() -> BoxedStrategy<StreamCase> {
    (
        arb_fr(),
        arb_decode(),
        proptest::option::weighted(0.8, 1u16..=5),
        vec(
            (
                arb_style(),
                any::<u8>(),
                prop_oneof![3 => 1u32..200, 2 => prop::sample::select(vec![0u32, 1, 2, 10, 1000, 60000]), 1 => 1u32..60000],
                prop_oneof![4 => Just(0u32), 1 => 0u32..50],
                arb_valid_req(),
            ),
            1..=12,
        ),
        any::<u64>(),
        prop_oneof![2 => Just(Vec::new()), 1 => vec(0usize..12, 1..4)],
    )
        .prop_flat_map(|(framing, decode, max_timeouts, reqs, select_seed, settings_after)| {
            let plans: Vec<BoxedStrategy<Vec<PeerAct>>> = reqs
                .iter()
                .map(|(_, _, t, _, _)| {
                    let t = *t;
                    // outcome classes: timeout (nothing / late), success, exception, bad reply
                    let one = (
                        arb_delay(t),
                        prop_oneof![
                            5 => any::<u64>().prop_map(PduSel::Genuine),
                            2 => any::<u8>().prop_map(PduSel::Exception),
                            // a well-framed reply for another function: a bad reply
                            1 => Just(PduSel::OtherFunction),
                        ],
                        proptest::option::weighted(0.3, (1u16..12, 1u32..40)),
                    )
                        .prop_map(|(delay_ms, pdu, split)| PeerAct::Frame {
                            delay_ms,
                            tx: TxSel::Echo,
                            pdu,
                            split,
                        });
                    // frames carrying a foreign transaction id (MBAP): a late reply to an earlier
                    // request, a duplicate; they are not outcomes and must not touch the count
                    let stale = (arb_delay(t), prop::sample::select(vec![65535u16, 65534, 1, 2]), any::<u64>()).prop_map(|(delay_ms, off, seed)| PeerAct::Frame {
                        delay_ms,
                        tx: TxSel::Offset(off),
                        pdu: PduSel::Genuine(seed),
                        split: None,
                    });
                    prop_oneof![
                        2 => Just(Vec::new()),
                        6 => one.clone().prop_map(|a| vec![a]),
                        1 => stale.clone().prop_map(|a| vec![a]),
                        1 => (stale, one).prop_map(|(a, b)| vec![a, b]),
                    ]
                    .boxed()
                })
                .collect();
            (plans, Just(reqs)).prop_map(move |(plans, reqs)| StreamCase {
                framing,
                decode,
                max_timeouts,
                requests: reqs,
                plans,
                idle_frames: vec![],
                select_seed,
                settings_after: settings_after.clone(),
            })
        })
        .boxed()
}

/// C12 with the largest timeout there is: "no timeout" is a timeout too. The reply arrives after
/// a few ms, so the request must succeed, and so must an ordinary request after it.
pub fn c12_unbounded_timeout(_ctx: &crate::runner::Ctx) -> crate::runner::SearchReport {
    use crate::runner::{hash_of, Failure, SearchReport};
    let mut rep = SearchReport::empty(
        "c12_unbounded_timeout",
        "enumeration: {MBAP, RTU} x 3 submission styles x 8 request kinds x {fresh channel, after an answered ordinary request, after a timed-out ordinary request} x reply after {5 ms, 40 ms, 3 s}: a request with the timeout Duration::MAX must succeed with the values of its genuine reply whenever that arrives and whatever the channel did before, and an ordinary request submitted afterwards must succeed as well (the channel is still there).",
    );
    let kinds = [
        ReqSpec::Read { kind: Kind::ReadCoils, start: 3, count: 9 },
        ReqSpec::Read { kind: Kind::ReadDiscrete, start: 0, count: 1 },
        ReqSpec::Read { kind: Kind::ReadHolding, start: 65530, count: 6 },
        ReqSpec::Read { kind: Kind::ReadInput, start: 7, count: 2 },
        ReqSpec::WriteCoil { addr: 5, value: true },
        ReqSpec::WriteReg { addr: 6, value: 0xBEEF },
        ReqSpec::WriteCoils { start: 1, values: vec![true, false, true] },
        ReqSpec::WriteRegs { start: 2, values: vec![1, 2, 3] },
    ];
    for framing in [Fr::Mbap, Fr::Rtu] {
        for style in [Style::Future, Style::Callback, Style::Ffi] {
            for (k, req) in kinds.iter().enumerate() {
                // what the channel did before: nothing / an ordinary request (timeout 20 ms)
                // answered after 5 ms / an ordinary request that timed out
                for before in ["nothing", "answered request", "timed-out request"] {
                    // the reply to the unbounded request: soon, after the earlier request's
                    // deadline would have passed, much later
                    for reply_ms in [5u32, 40, 3000] {
                        let case = serde_json::json!({"framing": format!("{:?}", framing), "style": format!("{:?}", style), "request": format!("{:?}", req.kind()), "before": before, "reply_after_ms": reply_ms});
                        let reply = |delay_ms: u32, seed: u64| PeerAct::Frame {
                            delay_ms,
                            tx: TxSel::Echo,
                            pdu: PduSel::Genuine(seed),
                            split: None,
                        };
                        let mut per_request = Vec::new();
                        let mut ops = Vec::new();
                        let mut next_id = 0usize;
                        if before != "nothing" {
                            per_request.push(if before == "answered request" { vec![reply(5, 7)] } else { vec![] });
                            ops.push(COp::Submit {
                                id: next_id,
                                style: Style::Future,
                                handle: 0,
                                unit: 1,
                                timeout_ms: 20,
                                req: ReqSpec::Read {
                                    kind: Kind::ReadInput,
                                    start: 1,
                                    count: 2,
                                },
                            });
                            next_id += 1;
                            // the unbounded request follows as soon as the first one is over
                            ops.push(COp::Advance(if before == "answered request" { 6 } else { 21 }));
                        }
                        let unbounded = next_id;
                        per_request.push(vec![reply(reply_ms, 11 + k as u64)]);
                        per_request.push(vec![reply(5, 99)]);
                        ops.push(COp::Submit {
                            id: unbounded,
                            style,
                            handle: 0,
                            unit: 1,
                            timeout_ms: u32::MAX,
                            req: req.clone(),
                        });
                        ops.push(COp::Advance(reply_ms + 45));
                        ops.push(COp::Submit {
                            id: unbounded + 1,
                            style: Style::Future,
                            handle: 0,
                            unit: 1,
                            timeout_ms: 100,
                            req: ReqSpec::Read {
                                kind: Kind::ReadHolding,
                                start: 0,
                                count: 1,
                            },
                        });
                        ops.push(COp::Advance(500));
                        let run = run_client(&CliCase {
                            cfg: CliConfig {
                                framing,
                                decode: Decode::NOTHING,
                                max_timeouts: Some(2),
                                queue: 16,
                                retry_ms: 100_000_000,
                            },
                            conns: vec![ConnPlan {
                                peer: PeerPlan {
                                    per_request,
                                    default: vec![],
                                },
                                fail_write_at: None,
                                write_stall: None,
                                unsolicited: vec![],
                            }],
                            ops,
                            select_seed: k as u64,
                            pre_enable: true,
                        });
                        rep.stats.evaluations += 1;
                        let r0 = run.ledger.completions.iter().find(|c| c.id == unbounded).map(|c| c.res.clone());
                        let r1 = run.ledger.completions.iter().find(|c| c.id == unbounded + 1).map(|c| c.res.clone());
                        if !matches!(r0, Some(Res::Ok(_))) || !matches!(r1, Some(Res::Ok(_))) {
                            rep.failure = Some(Failure {
                                message: format!(
                                    "{}: a request with timeout Duration::MAX answered after {} ms completed with {:?}; the ordinary request after it with {:?} (task ended: {})",
                                    case, reply_ms, r0, r1, run.task_ended
                                ),
                                case,
                                hang: false,
                            });
                            return rep;
                        }
                        rep.stats.nontrivial_total += 1;
                        rep.stats.distinct.insert(hash_of(&format!("{}", case)));
                        if rep.stats.samples.len() < 3 {
                            rep.stats.samples.push(case);
                        }
                    }
                }
            }
        }
    }
    rep.exhaustive = true;
    rep
}

pub fn c12_unbounded_timeout_replay(_v: &serde_json::Value) -> CaseResult {
    let ctx = crate::runner::Ctx {
        tier: crate::runner::Tier::Quick,
        seed: 1,
        scale: 1.0,
        threads: 4,
        verif_dir: std::path::PathBuf::from("/verif"),
    };
    match c12_unbounded_timeout(&ctx).failure {
        Some(f) => Err(f.message),
        None => Ok(CaseOk::new()),
    }
}

pub struct StreamJudgement {
    pub violation: Option<String>,
    pub ok: CaseOk,
}

/// The client script a stream case stands for
pub fn stream_cli_case(case: &StreamCase) -> CliCase {
    let mut ops = Vec::new();
    for (i, (style, unit, timeout, gap, req)) in case.requests.iter().enumerate() {
        if *gap > 0 {
            ops.push(COp::Advance(*gap));
        }
        ops.push(COp::Submit {
            id: i,
            style: *style,
            handle: 0,
            unit: *unit,
            timeout_ms: *timeout,
            req: req.clone(),
        });
        if case.settings_after.contains(&i) {
            ops.push(COp::SetDecode(0, case.decode));
        }
    }
    let mut cli = CliCase {
        cfg: CliConfig {
            framing: case.framing,
            decode: case.decode,
            max_timeouts: case.max_timeouts,
            queue: 16,
            // longer than any script so that a dropped connection is not re-established
            retry_ms: 100_000_000,
        },
        conns: vec![ConnPlan {
            peer: PeerPlan {
                per_request: case.plans.clone(),
                default: vec![],
            },
            fail_write_at: None,
            write_stall: None,
            unsolicited: case
                .idle_frames
                .iter()
                .map(|(d, tx, pdu)| (*d, frame_reply(case.framing, *tx, 1, pdu)))
                .collect(),
        }],
        ops,
        select_seed: case.select_seed,
        pre_enable: true,
    };
    // idle frames are sent before the first request is submitted
    if !case.idle_frames.is_empty() {
        let maxd = case.idle_frames.iter().map(|x| x.0).max().unwrap_or(0);
        cli.ops.insert(0, COp::Advance(maxd + 1));
    }
    cli
}

pub fn judge_stream(case: &StreamCase) -> StreamJudgement {
    let mut ok = CaseOk::new();
    let cli = stream_cli_case(case);
    let run = run_client(&cli);
    if case.settings_after.iter().any(|i| *i < case.requests.len()) {
        ok.label("settings_between_requests");
    }
    let fail = |m: String, ok: CaseOk| StreamJudgement {
        violation: Some(m),
        ok,
    };
    let peer = match run.peers.first() {
        Some(p) => p.clone(),
        None => return fail("the client never connected".to_string(), ok),
    };
    // model inputs
    let mut requests = Vec::new();
    for (i, (_s, _u, timeout, _gap, req)) in case.requests.iter().enumerate() {
        let submitted = run
            .ledger
            .submitted
            .iter()
            .find(|s| s.0 == i)
            .map(|s| s.1)
            .unwrap_or(Duration::ZERO);
        requests.push(ModelRequest {
            req: req.to_valid().expect("valid"),
            timeout: Duration::from_millis(*timeout as u64),
            submitted,
        });
    }
    let mut stream: Vec<StreamFrame> = Vec::new();
    for (d, tx, pdu) in &case.idle_frames {
        stream.push(StreamFrame {
            arrival: Duration::from_millis(*d as u64),
            tx: if case.framing == Fr::Mbap { Some(*tx) } else { None },
            pdu: pdu.clone(),
        });
    }
    stream.sort_by_key(|f| f.arrival);
    for (_k, at, tx, pdu) in &peer.sent {
        stream.push(StreamFrame {
            arrival: *at,
            tx: *tx,
            pdu: pdu.clone(),
        });
    }
    // the transport keeps arrival times monotone; the log is in stream order
    for i in 1..stream.len() {
        if stream[i].arrival < stream[i - 1].arrival {
            let a = stream[i - 1].arrival;
            stream[i].arrival = a;
        }
    }
    let mbap = case.framing == Fr::Mbap;
    let pred = predict(
        mbap,
        &requests,
        &stream,
        case.max_timeouts.map(|n| n as usize),
    );
    if pred.tie {
        ok.label("tie:not_judged");
        ok.dontcare += 1;
        return StreamJudgement { violation: None, ok };
    }
    // on RTU a split frame's first part can also coincide with a deadline: the model works on
    // completion times only, which is what the statement speaks about ("complete valid reply")

    // 1. transmissions: order, transaction ids, never before the previous completion
    let written: Vec<_> = pred.per_request.iter().filter(|p| p.written.is_some()).collect();
    if peer.requests.len() != written.len() {
        return fail(
            format!(
                "{} requests transmitted, the reference transmits {}",
                peer.requests.len(),
                written.len()
            ),
            ok,
        );
    }
    let mut wi = 0;
    for (i, p) in pred.per_request.iter().enumerate() {
        let (_s, unit, _t, _g, req) = &case.requests[i];
        if let Some(w) = p.written {
            let (at, tx, u, pdu) = &peer.requests[wi];
            wi += 1;
            let expected_pdu = encode_request(&req.to_valid().unwrap());
            if *pdu != expected_pdu || u != unit {
                return fail(
                    format!(
                        "transmission {} is not request {} (submission order violated): unit {} pdu [{}]",
                        wi - 1,
                        i,
                        u,
                        hex(pdu)
                    ),
                    ok,
                );
            }
            if mbap && *tx != p.tx {
                return fail(
                    format!(
                        "request {} transmitted with transaction id {:?}, expected {:?}",
                        i, tx, p.tx
                    ),
                    ok,
                );
            }
            if *at != w {
                return fail(
                    format!(
                        "request {} transmitted at {:?}, the reference (previous request completed / submission) says {:?}",
                        i, at, w
                    ),
                    ok,
                );
            }
        }
    }
    // 2. results and completion instants
    let mut timeouts_seen = 0;
    let mut pattern: Vec<bool> = Vec::new();
    for (i, p) in pred.per_request.iter().enumerate() {
        let comps: Vec<_> = run.ledger.completions.iter().filter(|c| c.id == i).collect();
        if comps.len() != 1 {
            return fail(format!("request {} completed {} times", i, comps.len()), ok);
        }
        let c = comps[0];
        let describe = || {
            format!(
                "request {} ({}; timeout {} ms; written {:?})",
                i,
                short(&case.requests[i].4),
                case.requests[i].2,
                p.written
            )
        };
        match &p.expect {
            Expect::Timeout => {
                timeouts_seen += 1;
                pattern.push(true);
                if c.res != Res::ResponseTimeout {
                    return fail(
                        format!("{}: no valid reply before the deadline, expected a timeout, got {:?}", describe(), c.res),
                        ok,
                    );
                }
                if c.at != p.completed {
                    return fail(
                        format!("{}: timed out at {:?}, deadline is {:?}", describe(), c.at, p.completed),
                        ok,
                    );
                }
            }
            Expect::NoConnection => {
                if c.res != Res::NoConnection {
                    return fail(
                        format!("{}: connection was dropped by the timeout limit, expected no-connection, got {:?}", describe(), c.res),
                        ok,
                    );
                }
            }
            Expect::Reply(class) => {
                pattern.push(false);
                if c.at != p.completed {
                    return fail(
                        format!("{}: completed at {:?}, its reply completed at {:?}", describe(), c.at, p.completed),
                        ok,
                    );
                }
                let good = match class {
                    ReplyClass::Ok(v) => matches!(&c.res, Res::Ok(g) if g == v),
                    ReplyClass::Exception(code) => matches!(&c.res, Res::Exception(g) if g == code),
                    ReplyClass::OtherError => !matches!(c.res, Res::Ok(_) | Res::Exception(_) | Res::ResponseTimeout | Res::NoConnection | Res::Shutdown),
                    ReplyClass::ByteCountMismatch(v) => match &c.res {
                        Res::Ok(g) => g == v,
                        Res::Exception(_) => false,
                        _ => true,
                    },
                };
                if !good {
                    return fail(
                        format!("{}: the frame carrying its transaction id says {:?}, the request got {:?}", describe(), class, c.res),
                        ok,
                    );
                }
            }
        }
    }
    // 3. session end by the timeout limit
    let ended: Vec<_> = run
        .events
        .iter()
        .filter_map(|(t, e)| match e {
            LoopEvent::SessionEnd(_, why) => Some((*t, why.clone())),
            _ => None,
        })
        .collect();
    match pred.session_end {
        Some(at) => {
            ok.label("limit:reached");
            let n = case.max_timeouts.unwrap() as usize;
            match ended.first() {
                Some((t, why)) if *t == at && *why == format!("MaxTimeouts({})", n) => {}
                other => {
                    return fail(
                        format!(
                            "connection must be dropped at {:?} after {} consecutive timeouts, observed {:?}",
                            at, n, other
                        ),
                        ok,
                    )
                }
            }
        }
        None => {
            if let Some((t, why)) = ended.iter().find(|(_, w)| w.starts_with("MaxTimeouts")) {
                return fail(
                    format!("connection dropped at {:?} ({}) although the limit was not reached", t, why),
                    ok,
                );
            }
        }
    }
    // labels
    if timeouts_seen > 0 {
        ok.label("has_timeout");
    }
    // >=2 timeouts separated by a non-timeout outcome
    let mut sep = false;
    for i in 0..pattern.len() {
        if pattern[i] {
            for j in i + 1..pattern.len() {
                if !pattern[j] {
                    for k in j + 1..pattern.len() {
                        if pattern[k] {
                            sep = true;
                        }
                    }
                }
            }
        }
    }
    if sep {
        ok.label("timeouts_separated_by_other_outcome");
    }
    // a well-formed reply with a wrong tx id and the right function code arrived while a
    // request was outstanding
    if mbap {
        for (k, at, tx, pdu) in &peer.sent {
            if let Some(p) = pred.per_request.get(*k) {
                if let (Some(w), Some(ptx)) = (p.written, p.tx) {
                    let fc = case.requests[*k].4.kind().fc();
                    if *tx != Some(ptx) && !pdu.is_empty() && pdu[0] == fc && *at > w && *at < p.completed {
                        ok.label("wrong_tx_right_fc_while_outstanding");
                    }
                }
            }
        }
    }
    if stream.iter().zip(peer.sent.iter()).any(|_| false) {
        ok.label("unreachable");
    }
    StreamJudgement { violation: None, ok }
}

pub fn check_c11(case: &StreamCase) -> CaseResult {
    let j = judge_stream(case);
    if let Some(v) = j.violation {
        return Err(v);
    }
    let mut ok = j.ok;
    ok.nontrivial = ok.labels.contains(&"wrong_tx_right_fc_while_outstanding");
    Ok(ok)
}

pub fn check_c12(case: &StreamCase) -> CaseResult {
    let j = judge_stream(case);
    if let Some(v) = j.violation {
        return Err(v);
    }
    let mut ok = j.ok;
    ok.label(match case.framing {
        Fr::Mbap => "framing:mbap",
        Fr::Rtu => "framing:rtu",
    });
    if case.max_timeouts.is_some() {
        ok.label("limit:configured");
    }
    ok.nontrivial = ok.labels.contains(&"timeouts_separated_by_other_outcome")
        && case.max_timeouts.map(|n| n >= 2).unwrap_or(false);
    Ok(ok)
}

/// One long run crossing the 16-bit wrap of the transaction id
pub fn c11_wrap_run(n: usize) -> CaseResult {
    let mut ops = Vec::new();
    for i in 0..n {
        ops.push(COp::Submit {
            id: i,
            style: Style::Future,
            handle: 0,
            unit: 1,
            timeout_ms: 100,
            req: ReqSpec::Read {
                kind: Kind::ReadHolding,
                start: (i % 60000) as u16,
                count: 1,
            },
        });
        ops.push(COp::Advance(2));
    }
    let cli = CliCase {
        cfg: CliConfig {
            framing: Fr::Mbap,
            decode: Decode::NOTHING,
            max_timeouts: None,
            queue: 16,
            retry_ms: 1000,
        },
        conns: vec![ConnPlan {
            peer: PeerPlan {
                per_request: vec![],
                default: vec![PeerAct::Frame {
                    delay_ms: 1,
                    tx: TxSel::Echo,
                    pdu: PduSel::Genuine(3),
                    split: None,
                }],
            },
            fail_write_at: None,
            write_stall: None,
            unsolicited: vec![],
        }],
        ops,
        select_seed: 1,
        pre_enable: true,
    };
    let run = run_client(&cli);
    let peer = run.peers.first().ok_or("never connected")?;
    if peer.requests.len() != n {
        return Err(format!("{} of {} requests transmitted", peer.requests.len(), n));
    }
    for (i, (_, tx, _, _)) in peer.requests.iter().enumerate() {
        if *tx != Some((i % 65536) as u16) {
            return Err(format!(
                "request {} carries transaction id {:?}, expected {}",
                i,
                tx,
                i % 65536
            ));
        }
    }
    let oks = run.ledger.completions.iter().filter(|c| c.res.is_ok()).count();
    if oks != n {
        return Err(format!("{} of {} requests succeeded across the wrap", oks, n));
    }
    let mut ok = CaseOk::new();
    ok.nontrivial = n > 65536;
    ok.label("wrap_run");
    Ok(ok)
}

#[allow(dead_code)]
fn _unused(_: IoKind) {}


// ---------------------------------------------------------------------------------------------
// C03: systematic sweep over the count axis

/// Every read count 0..=65535 (four kinds, two framings) and every write count 0..=2100 plus a
/// binary lattice up to 70000 (two kinds, two framings), submitted through the client API in
/// batches and judged by the same oracle as the generated cases.
pub fn c03_count_sweep(ctx: &crate::runner::Ctx) -> crate::runner::SearchReport {
    count_sweep(ctx, "c03_count_sweep", &[Fr::Mbap, Fr::Rtu])
}

/// The serial half of the sweep, for C06's "at most 256 bytes": every count through every
/// submission path on RTU framing
pub fn c06_count_sweep(ctx: &crate::runner::Ctx) -> crate::runner::SearchReport {
    count_sweep(ctx, "c06_count_sweep_rtu", &[Fr::Rtu])
}

fn count_sweep(ctx: &crate::runner::Ctx, name: &'static str, framings: &[Fr]) -> crate::runner::SearchReport {
    use crate::runner::*;
    let mut rep = SearchReport::empty(
        name,
        "enumeration: every read count 0..=65535 x {read coils, discrete inputs, holding, input registers} x {MBAP, RTU} with start 0 and (thorough) start 65536-count; every write-multiple count 0..=2100 and the lattice {2^k-1, 2^k, 2^k+1} up to 70000 x {coils, registers} x {MBAP, RTU}; all three submission paths (Channel future, CallbackSession, FfiChannel) for the writes and for read counts near the limits and powers of two, in rotation elsewhere; batches of 256 requests per client session, same oracle as c03_requests. Non-trivial = request with count within 2 of its limit or of a power of two.",
    );
    let mut batches: Vec<C03Case> = Vec::new();
    let thorough = ctx.tier == Tier::Thorough;
    for fr in framings.iter().copied() {
        for kind in [Kind::ReadCoils, Kind::ReadDiscrete, Kind::ReadHolding, Kind::ReadInput] {
            let mut cur = Vec::new();
            for count in 0..=65535u32 {
                let mut starts = vec![0u16];
                if thorough && count >= 1 {
                    starts.push((65536 - count) as u16);
                }
                for start in starts {
                  // every submission path has its own argument checks: all three near the limits
                  // and powers of two, in rotation elsewhere
                  let near = |c: u32| [0u32, 125, 2000, 255, 256, 65535].iter().any(|l| c + 3 >= *l && c <= *l + 3) || (c & (c.wrapping_sub(1))) == 0;
                  let styles: Vec<Style> = if near(count) {
                      vec![Style::Future, Style::Callback, Style::Ffi]
                  } else {
                      vec![[Style::Future, Style::Callback, Style::Ffi][(count % 3) as usize]]
                  };
                  for style in styles {
                    cur.push((
                        style,
                        (count % 251) as u8,
                        ReqSpec::Read {
                            kind,
                            start,
                            count: count as u16,
                        },
                    ));
                    if cur.len() == 256 {
                        batches.push(C03Case {
                            framing: fr,
                            decode: Decode::NOTHING,
                            requests: std::mem::take(&mut cur),
                            select_seed: 1,
                        });
                    }
                  }
                }
            }
            if !cur.is_empty() {
                batches.push(C03Case {
                    framing: fr,
                    decode: Decode::NOTHING,
                    requests: cur,
                    select_seed: 1,
                });
            }
        }
        for coils in [true, false] {
            let mut counts: Vec<usize> = (0..=2100).collect();
            for k in 0..=16u32 {
                for d in [0usize, 1, 2] {
                    counts.push(((1usize << k) + d).saturating_sub(1));
                }
            }
            counts.push(65535);
            counts.push(65536);
            counts.push(70000);
            counts.sort();
            counts.dedup();
            let mut cur = Vec::new();
            for n in counts {
                let req = if coils {
                    ReqSpec::WriteCoils {
                        start: 0,
                        values: (0..n).map(|i| i % 3 == 0).collect(),
                    }
                } else {
                    ReqSpec::WriteRegs {
                        start: 0,
                        values: (0..n).map(|i| i as u16).collect(),
                    }
                };
              for style in [Style::Future, Style::Callback, Style::Ffi] {
                cur.push((style, 1u8, req.clone()));
                if cur.len() == 64 {
                    batches.push(C03Case {
                        framing: fr,
                        decode: Decode::NOTHING,
                        requests: std::mem::take(&mut cur),
                        select_seed: 1,
                    });
                }
              }
            }
            if !cur.is_empty() {
                batches.push(C03Case {
                    framing: fr,
                    decode: Decode::NOTHING,
                    requests: cur,
                    select_seed: 1,
                });
            }
        }
    }
    let batches = std::sync::Arc::new(batches);
    let next = std::sync::Arc::new(std::sync::atomic::AtomicUsize::new(0));
    let failure: std::sync::Arc<std::sync::Mutex<Option<(String, C03Case)>>> = Default::default();
    let mut handles = Vec::new();
    let counted = std::sync::Arc::new(std::sync::atomic::AtomicU64::new(0));
    let nontrivial = std::sync::Arc::new(std::sync::atomic::AtomicU64::new(0));
    for _ in 0..ctx.threads.max(1) {
        let batches = batches.clone();
        let next = next.clone();
        let failure = failure.clone();
        let counted = counted.clone();
        let nontrivial = nontrivial.clone();
        handles.push(std::thread::spawn(move || loop {
            let i = next.fetch_add(1, std::sync::atomic::Ordering::Relaxed);
            if i >= batches.len() || failure.lock().unwrap().is_some() {
                return;
            }
            let b = &batches[i];
            match guarded(|| check_c03(b)) {
                Ok(Ok(_)) => {
                    counted.fetch_add(b.requests.len() as u64, std::sync::atomic::Ordering::Relaxed);
                    let nt = b
                        .requests
                        .iter()
                        .filter(|r| {
                            let n = r.2.len() as i64;
                            let lim = r.2.kind().limit() as i64;
                            (n - lim).abs() <= 2 || (n > 0 && ((n as u64 + 1).is_power_of_two() || (n as u64).is_power_of_two() || (n as u64 - 1).is_power_of_two()))
                        })
                        .count();
                    nontrivial.fetch_add(nt as u64, std::sync::atomic::Ordering::Relaxed);
                }
                Ok(Err(m)) => {
                    *failure.lock().unwrap() = Some((m, b.clone()));
                }
                Err(p) => {
                    *failure.lock().unwrap() = Some((format!("panic: {}", p), b.clone()));
                }
            }
        }));
    }
    for h in handles {
        let _ = h.join();
    }
    rep.stats.evaluations = counted.load(std::sync::atomic::Ordering::Relaxed);
    let nt = nontrivial.load(std::sync::atomic::Ordering::Relaxed);
    rep.stats.nontrivial_total = nt;
    for i in 0..nt {
        rep.stats.distinct.insert(i);
    }
    rep.stats.samples.push(serde_json::json!({"kind": "read_holding", "start": 0, "count": 32768, "framing": "Mbap"}));
    if let Some((m, c)) = failure.lock().unwrap().take() {
        // shrink by hand: find the single request of the batch that fails alone
        let mut minimal = c.clone();
        for r in &c.requests {
            let one = C03Case {
                requests: vec![r.clone()],
                ..c.clone()
            };
            if let Ok(Err(_)) | Err(_) = guarded(|| check_c03(&one)) {
                minimal = one;
                break;
            }
        }
        rep.failure = Some(Failure {
            message: m,
            case: serde_json::to_value(&minimal).unwrap_or(serde_json::Value::Null),
            hang: false,
        });
    } else {
        rep.exhaustive = true;
    }
    rep
}

pub fn c03_count_sweep_replay(v: &serde_json::Value) -> CaseResult {
    let c: C03Case = serde_json::from_value(v.clone()).map_err(|e| e.to_string())?;
    check_c03(&c)
}

// ---------------------------------------------------------------------------------------------
// C12: the consecutive-timeout count belongs to a connection

/// A channel with limit N: k < N timeouts on the first connection, then that connection ends for
/// another reason (peer closes, read error, garbage, disable + enable), the channel reconnects,
/// and the peer stays silent again. The new connection must be dropped after exactly N timeouts.
#[derive(Clone, Debug, PartialEq, Eq, Hash, Serialize, Deserialize)]
pub struct C12Conn {
    pub framing: Fr,
    pub n: u16,
    pub k: u16,
    /// 0 = peer closes, 1 = read error, 2 = garbage, 3 = disable then enable
    pub how: u8,
    pub timeout_ms: u32,
    pub select_seed: u64,
}

pub fn arb_c12_conn() -> BoxedStrategy<C12Conn> {
    (arb_fr(), 2u16..=5, any::<u16>(), 0u8..4, prop::sample::select(vec![1u32, 7, 30]), any::<u64>())
        .prop_map(|(framing, n, k, how, timeout_ms, select_seed)| C12Conn {
            framing,
            n,
            k: 1 + k % (n - 1),
            how,
            timeout_ms,
            select_seed,
        })
        .boxed()
}

pub fn check_c12_conn(case: &C12Conn) -> CaseResult {
    let mut ops = Vec::new();
    let mut id = 0usize;
    let mut submit = |ops: &mut Vec<COp>| {
        ops.push(COp::Submit {
            id,
            style: Style::Future,
            handle: 0,
            unit: 1,
            timeout_ms: case.timeout_ms,
            req: ReqSpec::Read {
                kind: Kind::ReadHolding,
                start: id as u16,
                count: 1,
            },
        });
        ops.push(COp::Advance(case.timeout_ms + 1));
        id += 1;
    };
    for _ in 0..case.k {
        submit(&mut ops);
    }
    match case.how {
        0 => ops.push(COp::PeerEof),
        1 => ops.push(COp::PeerErr(IoKind::ALL[(case.select_seed % IoKind::ALL.len() as u64) as usize])),
        2 => ops.push(COp::PeerBytes(match case.framing {
            // a header with a foreign protocol id / a frame of an unknown function
            Fr::Mbap => vec![0, 1, 0x12, 0x34, 0, 2, 1, 3],
            Fr::Rtu => vec![1, 0x6B, 0, 0],
        })),
        _ => {
            ops.push(COp::Disable(0));
            ops.push(COp::Advance(1));
            ops.push(COp::Enable(0));
        }
    }
    // the reconnect delay is 5 ms
    ops.push(COp::Advance(8));
    let first_after = case.k as usize;
    for _ in 0..case.n + 1 {
        submit(&mut ops);
    }
    let run = run_client(&CliCase {
        cfg: CliConfig {
            framing: case.framing,
            decode: Decode::NOTHING,
            max_timeouts: Some(case.n),
            queue: 16,
            retry_ms: 5,
        },
        conns: vec![
            ConnPlan {
                peer: PeerPlan::default(),
                fail_write_at: None,
                write_stall: None,
                unsolicited: vec![],
            },
            ConnPlan {
                peer: PeerPlan::default(),
                fail_write_at: None,
                write_stall: None,
                unsolicited: vec![],
            },
        ],
        ops,
        select_seed: case.select_seed,
        pre_enable: true,
    });
    let mut ok = CaseOk::new();
    ok.label(match case.how {
        0 => "first_connection_ends_by:peer_close",
        1 => "first_connection_ends_by:read_error",
        2 => "first_connection_ends_by:garbage",
        _ => "first_connection_ends_by:disable_enable",
    });
    let ends: Vec<(usize, String)> = run
        .events
        .iter()
        .filter_map(|(_, e)| match e {
            LoopEvent::SessionEnd(k, why) => Some((*k, why.clone())),
            _ => None,
        })
        .collect();
    let describe = format!(
        "limit {} with {} timeouts on the first connection, which then ends by {}; session ends {:?}",
        case.n,
        case.k,
        match case.how {
            0 => "the peer closing it",
            1 => "a read error",
            2 => "garbage",
            _ => "disable + enable",
        },
        ends
    );
    // the first connection must not have been dropped by the counter
    match ends.first() {
        Some((0, why)) if !why.starts_with("MaxTimeouts") => {}
        other => return Err(format!("{}: the first connection ended with {:?}", describe, other)),
    }
    let res = |i: usize| run.ledger.completions.iter().find(|c| c.id == i).map(|c| c.res.clone());
    for i in 0..case.k as usize {
        if !matches!(res(i), Some(Res::ResponseTimeout)) {
            return Err(format!("{}: request {} on the first connection completed with {:?}", describe, i, res(i)));
        }
    }
    // on the second connection: exactly N timeouts, then the connection is dropped
    for j in 0..case.n as usize {
        let r = res(first_after + j);
        if !matches!(r, Some(Res::ResponseTimeout)) {
            return Err(format!(
                "{}: request no. {} on the second connection completed with {:?}; the connection has to last for {} timeouts in a row",
                describe,
                j + 1,
                r,
                case.n
            ));
        }
    }
    match ends.get(1) {
        Some((1, why)) if why.starts_with("MaxTimeouts") => {}
        other => return Err(format!("{}: the second connection ended with {:?} instead of the timeout limit", describe, other)),
    }
    let last = res(first_after + case.n as usize);
    if !matches!(last, Some(Res::NoConnection)) {
        return Err(format!("{}: the request after the limit was reached completed with {:?}", describe, last));
    }
    ok.nontrivial = true;
    Ok(ok)
}

// ---------------------------------------------------------------------------------------------
// C05 / C10: a connection lost in the middle of a reply leaves nothing behind for the next one

/// The first connection delivers only the first `cut` bytes of a reply and then ends (peer
/// closes, read error, disable + enable, timeout limit); the channel reconnects and the peer
/// answers every request genuinely: all of them must succeed with the reply's values.
#[derive(Clone, Debug, PartialEq, Eq, Hash, Serialize, Deserialize)]
pub struct MidFrameCase {
    pub framing: Fr,
    pub cut: u16,
    /// 0 = peer closes, 1 = read error, 2 = disable then enable, 3 = timeout limit of 1
    pub how: u8,
    pub req: ReqSpec,
    pub after: Vec<ReqSpec>,
    pub select_seed: u64,
}

pub fn arb_mid_frame() -> BoxedStrategy<MidFrameCase> {
    (
        arb_fr(),
        prop_oneof![3 => 1u16..=12, 1 => 1u16..=200],
        0u8..4,
        arb_valid_req(),
        vec(arb_valid_req(), 1..4),
        any::<u64>(),
    )
        .prop_map(|(framing, cut, how, req, after, select_seed)| MidFrameCase {
            framing,
            cut,
            how,
            req,
            after,
            select_seed,
        })
        .boxed()
}

pub fn check_mid_frame(case: &MidFrameCase) -> CaseResult {
    let genuine = |seed: u64| PeerAct::Frame {
        delay_ms: 1,
        tx: TxSel::Echo,
        pdu: PduSel::Genuine(seed),
        split: None,
    };
    let mut ops = vec![
        COp::Submit {
            id: 0,
            style: Style::Future,
            handle: 0,
            unit: 1,
            timeout_ms: 20,
            req: case.req.clone(),
        },
        COp::Advance(25),
    ];
    match case.how {
        0 => ops.push(COp::PeerEof),
        1 => ops.push(COp::PeerErr(IoKind::ALL[(case.select_seed % IoKind::ALL.len() as u64) as usize])),
        2 => {
            ops.push(COp::Disable(0));
            ops.push(COp::Advance(1));
            ops.push(COp::Enable(0));
        }
        _ => {}
    }
    ops.push(COp::Advance(10));
    for (i, r) in case.after.iter().enumerate() {
        ops.push(COp::Submit {
            id: 1 + i,
            style: Style::Future,
            handle: 0,
            unit: 1,
            timeout_ms: 50,
            req: r.clone(),
        });
        ops.push(COp::Advance(5));
    }
    ops.push(COp::Advance(100));
    // the first request of a fresh channel carries transaction id 0
    let first_frame = {
        let valid = case.req.to_valid().expect("valid request");
        let (b, r) = genuine_values(5);
        frame_reply(case.framing, 0, 1, &genuine_reply(&valid, &b, &r))
    };
    let first_len = first_frame.len();
    let run = run_client(&CliCase {
        cfg: CliConfig {
            framing: case.framing,
            decode: Decode::NOTHING,
            max_timeouts: if case.how == 3 { Some(1) } else { None },
            queue: 16,
            retry_ms: 5,
        },
        conns: vec![
            ConnPlan {
                peer: PeerPlan {
                    // the first bytes of the genuine reply; the rest never arrives
                    per_request: vec![vec![PeerAct::Raw {
                        delay_ms: 1,
                        bytes: first_frame[..(case.cut as usize).min(first_frame.len())].to_vec(),
                    }]],
                    default: vec![],
                },
                fail_write_at: None,
                write_stall: None,
                unsolicited: vec![],
            },
            ConnPlan {
                peer: PeerPlan {
                    per_request: vec![],
                    default: vec![genuine(9)],
                },
                fail_write_at: None,
                write_stall: None,
                unsolicited: vec![],
            },
        ],
        ops,
        select_seed: case.select_seed,
        pre_enable: true,
    });
    let mut ok = CaseOk::new();
    if std::env::var("VERIF_DEBUG").is_ok() {
        eprintln!("events {:?}", run.events);
        for p in &run.peers {
            eprintln!("peer requests {:?} sent {:?}", p.requests, p.sent);
        }
        eprintln!("completions {:?}", run.ledger.completions);
    }
    ok.label(match case.how {
        0 => "first_connection_ends_by:peer_close",
        1 => "first_connection_ends_by:read_error",
        2 => "first_connection_ends_by:disable_enable",
        _ => "first_connection_ends_by:timeout_limit",
    });
    let partial = (case.cut as usize) < first_len && case.cut > 0;
    if partial {
        ok.label("reply_cut_short");
        if case.framing == Fr::Mbap && case.cut >= 7 {
            ok.label("header_complete_body_cut");
        }
    }
    if !partial {
        // the whole reply arrived: an ordinary exchange, nothing to judge here
        ok.label("reply_complete");
        return Ok(ok);
    }
    let r0 = run.ledger.completions.iter().find(|c| c.id == 0).map(|c| c.res.clone());
    if partial && !matches!(r0, Some(Res::ResponseTimeout)) {
        return Err(format!("request 0, of whose reply only {} bytes arrived, completed with {:?}", case.cut, r0));
    }
    // everything on the second connection is answered genuinely
    let second = run.peers.get(1);
    for (i, _) in case.after.iter().enumerate() {
        let r = run.ledger.completions.iter().find(|c| c.id == 1 + i).map(|c| c.res.clone());
        let transmitted_on_second = second.map(|p| p.requests.len() > i).unwrap_or(false);
        match r {
            Some(Res::Ok(_)) => {}
            Some(Res::NoConnection) if !transmitted_on_second => {
                // submitted before the reconnect was complete: nothing to judge
                ok.label("submitted_before_reconnect");
            }
            other => {
                return Err(format!(
                    "the first connection delivered {} of {} bytes of a reply and ended by {}; request no. {} on the next connection, answered genuinely, completed with {:?}",
                    case.cut.min(first_len as u16),
                    first_len,
                    match case.how {
                        0 => "the peer closing it",
                        1 => "a read error",
                        2 => "disable + enable",
                        _ => "the timeout limit",
                    },
                    i + 1,
                    other
                ))
            }
        }
    }
    ok.nontrivial = partial;
    Ok(ok)
}
