//! Black-box checks of the serial tasks over pseudo-terminals: RTU server (C17 / C06 subset).

use std::time::Duration;

use proptest::prelude::*;
use rodbus::server::ServerHandlerMap;
use rodbus::{SerialSettings, UnitId};
use serde::{Deserialize, Serialize};

use super::pty::Pty;
use super::*;
use crate::app::{CallLog, LogHandler};
use crate::gen::*;
use crate::model::crc::rtu_frame;
use crate::model::server::{AuthModel, ModelServer};
use crate::props::srv::{arb_frames_pub, Frame, SrvCase};
use crate::runner::CaseResult;
use crate::simsrv::{Decode, Fr, SrvConfig};

#[derive(Clone, Debug, PartialEq, Eq, Hash, Serialize, Deserialize)]
pub struct PtySrvCase {
    pub base: SrvCase,
}

pub fn arb_pty_srv() -> BoxedStrategy<PtySrvCase> {
    (arb_units(3), arb_decode())
        .prop_flat_map(|(units, decode)| {
            let mut units = units;
            // a sentinel unit that always exists and always answers
            let mut st = crate::app::UnitState::default();
            st.holding.insert(0, 0xBEEF);
            // the sentinel point is write-protected so that generated writes cannot change it
            st.write_ex.push((crate::model::pdu::Table::Holding, 0, crate::app::Exc { code: 4, as_unknown: false }));
            units.retain(|u| u.0 != 200);
            units.push((200, st));
            let ids: Vec<u8> = units.iter().map(|u| u.0).collect();
            let hint = WinHint::of(units.first().map(|u| &u.1));
            arb_frames_pub(Fr::Rtu, ids, hint, 5, 6).prop_map(move |frames| PtySrvCase {
                base: SrvCase {
                    cfg: SrvConfig {
                        framing: Fr::Rtu,
                        units: units.clone(),
                        auth: None,
                        decode,
                        aliases: vec![],
                    },
                    frames,
                    select_seed: 0,
                },
            })
        })
        .boxed()
}

pub fn check_pty_srv(case: &PtySrvCase) -> CaseResult {
    retry3(|slow| run_pty_srv(case, slow))
}

fn run_pty_srv(case: &PtySrvCase, slow: u32) -> CaseResult {
    let rt = rt(2);
    let wait = Duration::from_millis(600 * slow as u64);
    let mut pty = Pty::open()?;
    let log: CallLog = Default::default();
    let mut map: ServerHandlerMap<LogHandler> = ServerHandlerMap::new();
    // the application keeps its handlers (that is what the Arc<Mutex<..>> is for) and locks one
    // now and then, as an application updating its values would
    let mut app_handles = Vec::new();
    for (u, st) in case.base.cfg.unit_map() {
        let h = rodbus::server::RequestHandler::wrap(LogHandler::new(u, st, log.clone()));
        app_handles.push(h.clone());
        map.add(UnitId::new(u), h);
    }
    let handle = {
        let _g = rt.enter();
        rodbus::server::spawn_rtu_server_task(
            &pty.slave_path,
            SerialSettings::default(),
            rodbus::doubling_retry_strategy(Duration::from_millis(20), Duration::from_millis(40)),
            map,
            case.base.cfg.decode.to_rodbus(),
        )
        .map_err(|e| format!("INFRA: spawn_rtu_server_task {}", e))?
    };
    // wait until the port is open: the sentinel is answered
    let sentinel = rtu_frame(200, &[3, 0, 0, 0, 1]);
    let sentinel_reply = rtu_frame(200, &[3, 2, 0xBE, 0xEF]);
    let mut up = false;
    for _ in 0..50 {
        pty.write(&sentinel)?;
        let got = pty.read_n(sentinel_reply.len(), Duration::from_millis(100));
        if got == sentinel_reply {
            up = true;
            break;
        }
    }
    if !up {
        return Err("INFRA: RTU server on the pty never answered the sentinel".to_string());
    }
    let mut model = ModelServer {
        framing: crate::model::server::Framing::Rtu,
        units: case.base.cfg.unit_map(),
        auth: None::<AuthModel>,
        aliases: Default::default(),
    };
    let mut ok = CaseOk::new();
    let mut silent_frames = 0;
    for (k, f) in case.base.frames.iter().enumerate() {
        let verdict = model.judge(f.unit, &f.pdu);
        if verdict.allowed.len() != 1 {
            // don't-care classes are decided on the in-memory engine only
            continue;
        }
        let o = &verdict.allowed[0];
        let before = log.lock().unwrap().len();
        // while a write addressed to 0 arrives the application holds the lock of one unit for
        // 30 ms: the fan-out has to wait for it, not skip the unit
        // ... and for every third frame whatever its address: a request has to wait for the
        // application, it is not answered differently because of it
        let holder = if (f.unit == 0 || k % 3 == 1) && !app_handles.is_empty() {
            let h = app_handles[k % app_handles.len()].clone();
            let (tx, rx) = std::sync::mpsc::channel();
            let t = std::thread::spawn(move || {
                let g = h.lock().unwrap();
                let _ = tx.send(());
                std::thread::sleep(Duration::from_millis(30));
                drop(g);
            });
            let _ = rx.recv_timeout(Duration::from_millis(500));
            ok.label(if f.unit == 0 { "broadcast_while_application_holds_a_handler" } else { "request_while_application_holds_a_handler" });
            Some(t)
        } else {
            None
        };
        pty.write(&rtu_frame(f.unit, &f.pdu))?;
        // the trailing sentinel establishes what, if anything, was written for the frame
        std::thread::sleep(Duration::from_millis(8));
        pty.write(&sentinel)?;
        let expect: Vec<u8> = match &o.reply {
            Some(p) => {
                let mut v = rtu_frame(f.unit, p);
                v.extend_from_slice(&sentinel_reply);
                v
            }
            None => {
                silent_frames += 1;
                sentinel_reply.clone()
            }
        };
        let got = pty.read_n(expect.len(), wait);
        if let Some(t) = holder {
            let _ = t.join();
        }
        // nothing may follow
        let extra = pty.drain(Duration::from_millis(10));
        if got != expect || !extra.is_empty() {
            return Err(format!(
                "frame {} (address {}, pdu {:02X?}) over the pty: received {:02X?}{:02X?}, the reference server writes {:02X?} (incl. the sentinel's reply)",
                k,
                f.unit,
                &f.pdu[..f.pdu.len().min(12)],
                &got[..got.len().min(24)],
                &extra[..extra.len().min(8)],
                &expect[..expect.len().min(24)]
            ));
        }
        let mut calls: Vec<_> = log.lock().unwrap()[before..].to_vec();
        // the last call is the sentinel's own read
        let sentinel_call = crate::app::Call::Read {
            unit: 200,
            table: crate::model::pdu::Table::Holding,
            addr: 0,
        };
        if calls.last() == Some(&sentinel_call) {
            calls.pop();
        }
        if let Err(e) = crate::model::server::check_calls(o, &calls) {
            return Err(format!("frame {} over the pty: {}", k, e));
        }
        model.commit(o);
        for l in &verdict.labels {
            ok.label(l);
        }
    }
    // shutdown ends the task
    let r = rt.block_on(async { tokio::time::timeout(wait, handle.shutdown()).await });
    if r.is_err() {
        return Err("ServerHandle::shutdown() of the RTU server did not return".to_string());
    }
    ok.nontrivial = silent_frames >= 1 && case.base.frames.len() >= 2;
    let _ = Decode::NOTHING;
    let _: Option<Frame> = None;
    Ok(ok)
}


// ---------------------------------------------------------------------------------------------
// C14-b for the RTU server task: it has no listener, so the announced delays are read from its
// log records ("retrying in <d>" / "waiting <d> to reopen port") and the attempts are timed by
// the instants of those records.

fn parse_duration(s: &str) -> Option<Duration> {
    // Debug formatting of std::time::Duration: "20ms", "1.5s", "160ms", "2s"
    let s = s.trim();
    if let Some(x) = s.strip_suffix("ms") {
        return x.parse::<f64>().ok().map(|v| Duration::from_secs_f64(v / 1000.0));
    }
    if let Some(x) = s.strip_suffix("µs") {
        return x.parse::<f64>().ok().map(|v| Duration::from_secs_f64(v / 1_000_000.0));
    }
    if let Some(x) = s.strip_suffix('s') {
        return x.parse::<f64>().ok().map(Duration::from_secs_f64);
    }
    None
}

pub fn c14_rtu_server(ctx: &crate::runner::Ctx) -> crate::runner::SearchReport {
    use crate::runner::*;
    let mut rep = SearchReport::empty(
        "c14_rtu_server_delays",
        "the real RTU server task on a port path that does not resolve (open fails repeatedly), then resolves to a pty (open succeeds), then the device hangs up, then fails again: the delays it announces in its log records must be min*2^(k-1) capped at max for the k-th consecutive failed open, min after a lost port, restarting after a successful open, and consecutive attempts must be at least the announced delay apart. Scenarios over (min, max) pairs; single-threaded because the log capture is process-wide.",
    );
    let pairs: &[(u64, u64)] = match ctx.tier {
        Tier::Quick => &[(20, 20), (20, 50), (15, 120)],
        Tier::Thorough => &[(20, 20), (20, 50), (15, 120), (10, 15), (25, 200), (30, 31)],
    };
    for (min_ms, max_ms) in pairs {
        rep.stats.evaluations += 1;
        match rtu_server_scenario(*min_ms, *max_ms) {
            Ok(n) => {
                rep.stats.nontrivial_total += 1;
                rep.stats.distinct.insert((*min_ms << 16) | *max_ms);
                rep.stats.labels.insert(format!("delays_checked_{}_{}", min_ms, max_ms), n as u64);
                if rep.stats.samples.len() < 2 {
                    rep.stats.samples.push(serde_json::json!({"min_ms": min_ms, "max_ms": max_ms, "announced_delays_checked": n}));
                }
            }
            Err(e) if e.starts_with("INFRA:") => rep.health_errors.push(e),
            Err(e) => {
                // one re-run before reporting: the measurement is real time
                match rtu_server_scenario(*min_ms, *max_ms) {
                    Ok(_) => {
                        rep.stats.labels.insert("flaky:passed_on_rerun".to_string(), 1);
                    }
                    Err(e2) => {
                        rep.failure = Some(Failure {
                            message: format!("{} (again on re-run: {})", e, e2),
                            case: serde_json::json!({"min_ms": min_ms, "max_ms": max_ms}),
                            hang: false,
                        });
                        return rep;
                    }
                }
            }
        }
    }
    rep
}

pub fn c14_rtu_server_replay(v: &serde_json::Value) -> CaseResult {
    let min = v["min_ms"].as_u64().unwrap_or(20);
    let max = v["max_ms"].as_u64().unwrap_or(50);
    rtu_server_scenario(min, max).map(|_| CaseOk::new())
}

fn rtu_server_scenario(min_ms: u64, max_ms: u64) -> Result<usize, String> {
    let rt = rt(2);
    let min = Duration::from_millis(min_ms);
    let max = Duration::from_millis(max_ms);
    let dir = std::env::temp_dir().join(format!("verif-rtusrv-{}-{}-{}", std::process::id(), min_ms, max_ms));
    let _ = std::fs::remove_dir_all(&dir);
    std::fs::create_dir_all(&dir).map_err(|e| format!("INFRA: {}", e))?;
    let link = dir.join("port");
    let mut st = crate::app::UnitState::default();
    st.holding.insert(0, 0xBEEF);
    let log: CallLog = Default::default();
    let map = ServerHandlerMap::single(UnitId::new(200), rodbus::server::RequestHandler::wrap(LogHandler::new(200, st, log)));
    crate::trace::capture_global(true);
    let handle = {
        let _g = rt.enter();
        rodbus::server::spawn_rtu_server_task(
            &link.to_string_lossy(),
            SerialSettings::default(),
            rodbus::doubling_retry_strategy(min, max),
            map,
            rodbus::DecodeLevel::nothing(),
        )
        .map_err(|e| format!("INFRA: {}", e))?
    };
    // phase 1: five failed opens
    let mut total = Duration::ZERO;
    let mut d = min;
    for _ in 0..5 {
        total += d;
        d = std::cmp::min(d * 2, max);
    }
    std::thread::sleep(total + Duration::from_millis(30));
    // on a loaded machine the attempts may lag: wait until five of them were announced
    let t_wait = std::time::Instant::now();
    while crate::trace::count_global_timed("retrying in ") < 5 && t_wait.elapsed() < Duration::from_secs(8) {
        std::thread::sleep(Duration::from_millis(10));
    }
    // phase 2: the port appears
    let mut pty = Pty::open()?;
    std::os::unix::fs::symlink(&pty.slave_path, &link).map_err(|e| format!("INFRA: {}", e))?;
    let sentinel = rtu_frame(200, &[3, 0, 0, 0, 1]);
    let reply = rtu_frame(200, &[3, 2, 0xBE, 0xEF]);
    let mut up = false;
    for _ in 0..60 {
        let _ = pty.write(&sentinel);
        if pty.read_n(reply.len(), Duration::from_millis(40)) == reply {
            up = true;
            break;
        }
    }
    if !up {
        crate::trace::capture_global(false);
        let _ = std::fs::remove_dir_all(&dir);
        return Err("the RTU server never opened the port after it appeared".to_string());
    }
    // phase 3: the device hangs up and the path is gone again
    let _ = std::fs::remove_file(&link);
    pty.close_master();
    drop(pty);
    std::thread::sleep(min * 3 + max + Duration::from_millis(60));
    let t_wait = std::time::Instant::now();
    while (crate::trace::count_global_timed("to reopen port") < 1 || crate::trace::count_global_timed("retrying in ") < 7)
        && t_wait.elapsed() < Duration::from_secs(8)
    {
        std::thread::sleep(Duration::from_millis(10));
    }
    let records = crate::trace::take_global_timed();
    crate::trace::capture_global(false);
    let _ = rt.block_on(async { tokio::time::timeout(Duration::from_secs(2), handle.shutdown()).await });
    let _ = std::fs::remove_dir_all(&dir);

    // announced delays in order
    #[derive(Debug)]
    enum Ev {
        Failed(Duration, std::time::Instant),
        Lost(Duration, std::time::Instant),
        Opened(std::time::Instant),
    }
    let mut evs = Vec::new();
    for (at, text) in &records {
        if let Some(i) = text.find("retrying in ") {
            let rest = &text[i + "retrying in ".len()..];
            let dur = rest.split(" - ").next().unwrap_or("");
            match parse_duration(dur) {
                Some(d) => evs.push(Ev::Failed(d, *at)),
                None => return Err(format!("harness: cannot parse the delay in {:?}", text)),
            }
        } else if let Some(i) = text.find("waiting ") {
            if text.contains("to reopen port") {
                let rest = &text[i + "waiting ".len()..];
                let dur = rest.split(" to reopen").next().unwrap_or("");
                match parse_duration(dur) {
                    Some(d) => evs.push(Ev::Lost(d, *at)),
                    None => return Err(format!("harness: cannot parse the delay in {:?}", text)),
                }
            }
        } else if text.contains("opened port") {
            evs.push(Ev::Opened(*at));
        }
    }
    let mut k = 0u32;
    let mut checked = 0usize;
    let mut prev: Option<(Duration, std::time::Instant)> = None;
    let mut saw_lost = false;
    for e in &evs {
        let (at, announced) = match e {
            Ev::Failed(d, at) => {
                k += 1;
                let expect = std::cmp::min(min * 2u32.pow(k.min(16) - 1), max);
                if *d != expect {
                    return Err(format!("RTU server: failed open no. {} in a row announced a wait of {:?}, the strategy (min {:?}, max {:?}) says {:?}", k, d, min, max, expect));
                }
                checked += 1;
                (*at, Some(*d))
            }
            Ev::Lost(d, at) => {
                saw_lost = true;
                if *d != min {
                    return Err(format!("RTU server: wait after a lost port announced as {:?}, expected min {:?}", d, min));
                }
                checked += 1;
                (*at, Some(*d))
            }
            Ev::Opened(at) => {
                k = 0;
                (*at, None)
            }
        };
        if let Some((pd, pat)) = prev {
            let gap = at.duration_since(pat);
            if gap + Duration::from_millis(1) < pd {
                return Err(format!("RTU server: next open attempt {:?} after a wait of {:?} was announced", gap, pd));
            }
        }
        prev = announced.map(|d| (d, at));
    }
    if checked < 5 || !saw_lost {
        return Err(format!("INFRA: only {} announced delays observed (lost port seen: {})", checked, saw_lost));
    }
    Ok(checked)
}
