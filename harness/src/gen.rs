//! Structure-aware generators (proptest strategies). Constructive: no filtering on hot paths.

use proptest::collection::vec;
use proptest::prelude::*;
use proptest::strategy::BoxedStrategy;

use crate::app::{Exc, Policy, UnitState};
use crate::model::pdu::*;
use crate::simsrv::{Decode, Fr};

pub fn arb_exc() -> BoxedStrategy<Exc> {
    prop_oneof![
        4 => (1u8..=11).prop_map(|code| Exc { code, as_unknown: false }),
        2 => any::<u8>().prop_map(|code| Exc { code, as_unknown: false }),
        1 => any::<u8>().prop_map(|code| Exc { code, as_unknown: true }),
    ]
    .boxed()
}

pub fn arb_decode() -> BoxedStrategy<Decode> {
    prop_oneof![
        3 => Just(Decode::NOTHING),
        2 => Just(Decode::MAX),
        3 => (0u8..4, 0u8..3, 0u8..3).prop_map(|(app, frame, phys)| Decode { app, frame, phys }),
    ]
    .boxed()
}

pub fn arb_decode_any() -> BoxedStrategy<Decode> {
    (0u8..4, 0u8..3, 0u8..3)
        .prop_map(|(app, frame, phys)| Decode { app, frame, phys })
        .boxed()
}

/// Addresses that are interesting for a table: low window, top-of-space window, singles
fn arb_window_sizes(big: u16) -> BoxedStrategy<(u16, u16)> {
    // (size of the window starting at 0, size of the window ending at 65535)
    prop_oneof![
        5 => (0u16..40, 0u16..20),
        1 => ((big.saturating_sub(5))..(big + 10), 0u16..20),
        1 => (0u16..40, (big.saturating_sub(5))..(big + 10)),
    ]
    .boxed()
}

pub fn arb_unit_state() -> BoxedStrategy<UnitState> {
    (
        arb_window_sizes(2000),
        arb_window_sizes(2000),
        arb_window_sizes(125),
        arb_window_sizes(125),
        any::<u64>(),
        vec((0u8..4, any::<u16>(), arb_exc(), any::<bool>()), 0..4),
        vec((0u8..2, any::<u16>(), arb_exc(), any::<bool>()), 0..3),
        vec((0u8..4, any::<u16>()), 0..4),
    )
        .prop_map(|(c, d, h, i, seed, rex, wex, singles)| {
            let mut st = UnitState::default();
            let mut x = seed | 1;
            let mut next = move || {
                // xorshift: deterministic filler for point values
                x ^= x << 13;
                x ^= x >> 7;
                x ^= x << 17;
                x
            };
            let fill_bits = |lo: u16, hi: u16, next: &mut dyn FnMut() -> u64| {
                let mut m = std::collections::BTreeMap::new();
                for a in 0..lo {
                    m.insert(a, next() & 1 == 1);
                }
                for k in 0..hi {
                    m.insert(65535 - k, next() & 1 == 1);
                }
                m
            };
            let fill_regs = |lo: u16, hi: u16, next: &mut dyn FnMut() -> u64| {
                let mut m = std::collections::BTreeMap::new();
                for a in 0..lo {
                    m.insert(a, next() as u16);
                }
                for k in 0..hi {
                    m.insert(65535 - k, next() as u16);
                }
                m
            };
            st.coils = fill_bits(c.0, c.1, &mut next);
            st.discrete = fill_bits(d.0, d.1, &mut next);
            st.holding = fill_regs(h.0, h.1, &mut next);
            st.input = fill_regs(i.0, i.1, &mut next);
            for (t, a) in singles {
                match t {
                    0 => {
                        st.coils.insert(a, next() & 1 == 1);
                    }
                    1 => {
                        st.discrete.insert(a, next() & 1 == 1);
                    }
                    2 => {
                        st.holding.insert(a, next() as u16);
                    }
                    _ => {
                        st.input.insert(a, next() as u16);
                    }
                }
            }
            let table = |t: u8| match t {
                0 => Table::Coils,
                1 => Table::Discrete,
                2 => Table::Holding,
                _ => Table::Input,
            };
            // exception addresses are mapped into the populated windows so they are hit
            let place = |st: &UnitState, t: Table, raw: u16, top: bool| -> u16 {
                let (lo, hi) = match t {
                    Table::Coils => (c.0, c.1),
                    Table::Discrete => (d.0, d.1),
                    Table::Holding => (h.0, h.1),
                    Table::Input => (i.0, i.1),
                };
                let _ = st;
                if top && hi > 0 {
                    65535 - (raw % hi)
                } else if lo > 0 {
                    raw % lo
                } else {
                    raw
                }
            };
            for (t, raw, e, top) in rex {
                let t = table(t);
                let a = place(&st, t, raw, top);
                if !st.read_ex.iter().any(|x| x.0 == t && x.1 == a) {
                    st.read_ex.push((t, a, e));
                }
            }
            for (t, raw, e, top) in wex {
                let t = if t == 0 { Table::Coils } else { Table::Holding };
                let a = place(&st, t, raw, top);
                if !st.write_ex.iter().any(|x| x.0 == t && x.1 == a) {
                    st.write_ex.push((t, a, e));
                }
            }
            st
        })
        .boxed()
}

pub fn arb_unit_id() -> BoxedStrategy<u8> {
    prop_oneof![
        6 => prop::sample::select(vec![1u8, 2, 17, 247, 248, 255, 0]),
        1 => any::<u8>(),
    ]
    .boxed()
}

pub fn arb_units(max: usize) -> BoxedStrategy<Vec<(u8, UnitState)>> {
    vec((arb_unit_id(), arb_unit_state()), 0..=max).boxed()
}

/// Sizes of the populated windows of the first configured unit, so that requests can be aimed
/// at points that exist
#[derive(Copy, Clone, Debug, Default)]
pub struct WinHint {
    pub coils: (u16, u16),
    pub discrete: (u16, u16),
    pub holding: (u16, u16),
    pub input: (u16, u16),
}

impl WinHint {
    pub fn of(st: Option<&UnitState>) -> WinHint {
        fn runs<T>(m: &std::collections::BTreeMap<u16, T>) -> (u16, u16) {
            let mut lo = 0u16;
            while lo < 2100 && m.contains_key(&lo) {
                lo += 1;
            }
            let mut hi = 0u16;
            while hi < 2100 && m.contains_key(&(65535 - hi)) {
                hi += 1;
            }
            (lo, hi)
        }
        match st {
            None => WinHint::default(),
            Some(st) => WinHint {
                coils: runs(&st.coils),
                discrete: runs(&st.discrete),
                holding: runs(&st.holding),
                input: runs(&st.input),
            },
        }
    }
    pub fn for_fc(&self, fc: u8) -> (u16, u16) {
        match fc {
            1 | 5 | 15 => self.coils,
            2 => self.discrete,
            3 | 6 | 16 => self.holding,
            _ => self.input,
        }
    }
}

/// (start, count) inside a populated window when there is one, else boundary-biased
pub fn arb_start_count_hint(limit: u16, win: (u16, u16)) -> BoxedStrategy<(u16, u16)> {
    let (lo, hi) = win;
    let inside = (any::<u16>(), any::<u16>(), any::<bool>()).prop_map(move |(a, b, top)| {
        if top && hi > 0 {
            let count = 1 + b % hi.min(limit.max(1));
            let off = a % (hi - count + 1);
            // range [65536-hi+off, +count)
            ((65536u32 - hi as u32 + off as u32) as u16, count)
        } else if lo > 0 {
            let count = 1 + b % lo.min(limit.max(1));
            let off = a % (lo - count + 1);
            (off, count)
        } else {
            (a % 8, 1 + b % 4)
        }
    });
    prop_oneof![
        5 => inside,
        4 => arb_start_count(limit, lo.max(1)),
    ]
    .boxed()
}

/// (start, count) pairs biased to the boundaries of the address space and of `limit`.
/// May be invalid (zero, overflowing, over the limit).
pub fn arb_start_count(limit: u16, lo_win: u16) -> BoxedStrategy<(u16, u16)> {
    let count = prop_oneof![
        4 => prop::sample::select(vec![1u16, 2, 3, 7, 8, 9, 15, 16, 17]),
        3 => prop::sample::select(vec![limit.saturating_sub(1).max(1), limit, limit.saturating_sub(2).max(1)]),
        3 => 1u16..=limit.max(1),
        1 => prop::sample::select(vec![0u16, limit.saturating_add(1), limit.saturating_add(2), limit.saturating_add(8), 0xFFFF, 0x8000]),
        1 => Just(0u16),
        1 => any::<u16>(),
    ];
    (count, 0u8..10, any::<u16>())
        .prop_map(move |(count, sel, raw)| {
            let start = match sel {
                0 | 1 | 2 => 0,
                3 => raw % lo_win.max(1),
                // range ending exactly at 65535
                4 | 5 => (65536u32.saturating_sub(count as u32).min(65535)) as u16,
                // one past the end
                6 => (65537u32.saturating_sub(count as u32).min(65535)) as u16,
                7 => 65535,
                8 => 65535 - (raw % 20),
                _ => raw,
            };
            (start, count)
        })
        .boxed()
}

fn be(v: u16) -> [u8; 2] {
    v.to_be_bytes()
}

/// A request PDU for MBAP: valid requests, single-field mutations, every function code with a
/// random body, and the empty PDU.
pub fn arb_pdu_mbap(hint: WinHint) -> BoxedStrategy<Vec<u8>> {
    let read = (prop::sample::select(vec![1u8, 2, 3, 4]), any::<u16>(), 0u8..8)
        .prop_flat_map(move |(fc, _x, _y)| {
            let limit = if fc <= 2 { 2000 } else { 125 };
            arb_start_count_hint(limit, hint.for_fc(fc)).prop_map(move |(s, c)| {
                let mut p = vec![fc];
                p.extend_from_slice(&be(s));
                p.extend_from_slice(&be(c));
                p
            })
        });
    let cw = hint.coils.0.max(1);
    let hw = hint.holding.0.max(1);
    let wcoil = (
        prop_oneof![3 => 0u16..cw, 1 => (0u16..20).prop_map(|k| 65535 - k), 1 => any::<u16>()],
        prop_oneof![4 => Just(0xFF00u16), 4 => Just(0u16), 1 => prop::sample::select(vec![0x00FFu16, 0xFF01, 0x0001, 0xFFFF, 0x00F0]), 1 => any::<u16>()],
    )
        .prop_map(|(a, v)| {
            let mut p = vec![5u8];
            p.extend_from_slice(&be(a));
            p.extend_from_slice(&be(v));
            p
        });
    let wreg = (
        prop_oneof![3 => 0u16..hw, 1 => (0u16..20).prop_map(|k| 65535 - k), 1 => any::<u16>()],
        any::<u16>(),
    )
        .prop_map(|(a, v)| {
            let mut p = vec![6u8];
            p.extend_from_slice(&be(a));
            p.extend_from_slice(&be(v));
            p
        });
    // write multiple: (start,count) then data sized for the count, with optional damage
    let wmulti = (any::<bool>(), 0u8..12, any::<u64>(), -3i32..=3, 1u8..=3)
        .prop_flat_map(move |(coils, dmg, seed, delta, k)| {
            let limit = if coils { 1968 } else { 123 };
            arb_start_count_hint(limit, hint.for_fc(if coils { 15 } else { 16 })).prop_map(move |(s, c)| {
                let fc = if coils { 15u8 } else { 16u8 };
                let need = if coils {
                    bytes_for_bits(c as usize)
                } else {
                    2 * c as usize
                };
                // the frame cannot carry more than 252 body bytes: clip data, keep the count
                let mut data_len = need.min(247);
                let mut bc = (need & 0xFF) as u8;
                match dmg {
                    0 => data_len = data_len.saturating_sub(k as usize),
                    1 => data_len = (data_len + k as usize).min(247),
                    2 => bc = bc.wrapping_add(delta as u8),
                    3 => bc = 0,
                    _ => {}
                }
                let mut p = vec![fc];
                p.extend_from_slice(&be(s));
                p.extend_from_slice(&be(c));
                p.push(bc);
                let mut x = seed | 1;
                for _ in 0..data_len {
                    x ^= x << 13;
                    x ^= x >> 7;
                    x ^= x << 17;
                    p.push(x as u8);
                }
                p
            })
        });
    let structured = prop_oneof![
        4 => read.boxed(),
        2 => wcoil.boxed(),
        2 => wreg.boxed(),
        4 => wmulti.boxed(),
    ];
    // length mutations of a structured request
    let mutated = (structured.clone(), 0u8..4, 1usize..=3, vec(any::<u8>(), 3)).prop_map(
        |(mut p, m, k, extra)| {
            match m {
                0 => {
                    let n = p.len().saturating_sub(k).max(1);
                    p.truncate(n);
                }
                1 => p.extend_from_slice(&extra[..k]),
                2 => p.truncate(1),
                _ => {
                    p.truncate(1 + k);
                }
            }
            p
        },
    );
    let raw = (any::<u8>(), vec(any::<u8>(), 0..=252)).prop_map(|(fc, body)| {
        let mut p = vec![fc];
        p.extend_from_slice(&body);
        p
    });
    let raw_short = (any::<u8>(), vec(any::<u8>(), 0..=8)).prop_map(|(fc, body)| {
        let mut p = vec![fc];
        p.extend_from_slice(&body);
        p
    });
    prop_oneof![
        12 => structured,
        4 => mutated,
        1 => raw,
        2 => raw_short,
        1 => Just(Vec::new()),
    ]
    .boxed()
}

/// A request PDU that the RTU request deframer delimits as exactly one frame: one of the eight
/// supported functions, fixed 4-byte body, or for FC 15/16 a body of 5 + byte-count bytes.
pub fn arb_pdu_rtu(hint: WinHint) -> BoxedStrategy<Vec<u8>> {
    let fixed = (prop::sample::select(vec![1u8, 2, 3, 4, 5, 6]), any::<u64>()).prop_flat_map(
        move |(fc, _)| {
            let limit = match fc {
                1 | 2 => 2000,
                3 | 4 => 125,
                _ => 1,
            };
            (arb_start_count_hint(limit, hint.for_fc(fc)), any::<u16>(), 0u8..10).prop_map(move |((s, c), v, sel)| {
                let mut p = vec![fc];
                match fc {
                    1..=4 => {
                        p.extend_from_slice(&be(s));
                        p.extend_from_slice(&be(c));
                    }
                    5 => {
                        p.extend_from_slice(&be(s));
                        let val = match sel {
                            0..=3 => 0xFF00,
                            4..=7 => 0,
                            8 => 0x00FF,
                            _ => v,
                        };
                        p.extend_from_slice(&be(val));
                    }
                    _ => {
                        p.extend_from_slice(&be(s));
                        p.extend_from_slice(&be(v));
                    }
                }
                p
            })
        },
    );
    let multi = (any::<bool>(), 0u8..10, any::<u64>(), any::<u8>()).prop_flat_map(
        move |(coils, dmg, seed, rawbc)| {
            let limit = if coils { 1968 } else { 123 };
            arb_start_count_hint(limit, hint.for_fc(if coils { 15 } else { 16 })).prop_map(move |(s, c)| {
                let fc = if coils { 15u8 } else { 16u8 };
                let need = if coils {
                    bytes_for_bits(c as usize)
                } else {
                    2 * c as usize
                };
                // the byte count delimits the frame; 247 is the most that fits
                let bc: usize = match dmg {
                    0 => need.saturating_sub(1).min(247),
                    1 => (need + 1).min(247),
                    2 => (rawbc as usize).min(247),
                    _ => need.min(247),
                };
                let mut p = vec![fc];
                p.extend_from_slice(&be(s));
                p.extend_from_slice(&be(c));
                p.push(bc as u8);
                let mut x = seed | 1;
                for _ in 0..bc {
                    x ^= x << 13;
                    x ^= x >> 7;
                    x ^= x << 17;
                    p.push(x as u8);
                }
                p
            })
        },
    );
    prop_oneof![3 => fixed, 2 => multi].boxed()
}

pub fn arb_pdu(fr: Fr, hint: WinHint) -> BoxedStrategy<Vec<u8>> {
    match fr {
        Fr::Mbap => arb_pdu_mbap(hint),
        Fr::Rtu => arb_pdu_rtu(hint),
    }
}

pub fn arb_role() -> BoxedStrategy<String> {
    prop_oneof![
        3 => prop::sample::select(vec!["operator".to_string(), "admin".to_string(), "viewer".to_string(), "".to_string()]),
        2 => "[a-zA-Z0-9 _-]{0,24}".prop_map(|s| s),
        2 => "\\PC{0,16}".prop_map(|s| s),
        1 => vec(any::<char>(), 0..40).prop_map(|v| v.into_iter().collect::<String>()),
        1 => (1usize..1100).prop_map(|n| "r".repeat(n)),
    ]
    .boxed()
}

pub fn arb_policy() -> BoxedStrategy<Policy> {
    prop_oneof![
        4 => (any::<u64>(), 0u8..=4, 1u8..=4).prop_map(|(salt, num, den)| Policy::Hash { salt, num, den }),
        2 => (arb_unit_id(), prop_oneof![0u16..40, any::<u16>()]).prop_map(|(unit, addr)| Policy::DenyWritesAbove { unit, addr }),
        1 => arb_role().prop_map(Policy::OnlyRole),
        1 => Just(Policy::ReadOnlyModel),
        3 => vec(any::<bool>(), 1..6).prop_map(Policy::Sequence),
        1 => prop::sample::select(Kind::ALL.to_vec()).prop_map(Policy::DenyKind),
        2 => Just(Policy::BuiltinReadOnly),
    ]
    .boxed()
}

/// How a byte stream is cut into reads
#[derive(Clone, Debug, PartialEq, Eq, Hash, serde::Serialize, serde::Deserialize)]
pub enum Partition {
    Whole,
    /// every chunk has this size
    Every(usize),
    /// explicit chunk sizes, the remainder is delivered as one last chunk
    Cuts(Vec<usize>),
}

impl Partition {
    pub fn apply(&self, stream: &[u8]) -> Vec<Vec<u8>> {
        let mut out = Vec::new();
        match self {
            Partition::Whole => {
                if !stream.is_empty() {
                    out.push(stream.to_vec())
                }
            }
            Partition::Every(n) => {
                for c in stream.chunks((*n).max(1)) {
                    out.push(c.to_vec());
                }
            }
            Partition::Cuts(cuts) => {
                let mut pos = 0;
                for c in cuts {
                    if pos >= stream.len() {
                        break;
                    }
                    let n = (*c).max(1).min(stream.len() - pos);
                    out.push(stream[pos..pos + n].to_vec());
                    pos += n;
                }
                if pos < stream.len() {
                    out.push(stream[pos..].to_vec());
                }
            }
        }
        out
    }
}

/// Partitions for a stream whose frame boundaries are known: always a mix that includes
/// byte-per-byte, cuts inside headers and bodies, and chunks around the 260-byte buffer size
pub fn arb_partition(stream_len: usize, boundaries: Vec<usize>) -> BoxedStrategy<Partition> {
    let len = stream_len.max(1);
    let b2 = boundaries.clone();
    prop_oneof![
        1 => Just(Partition::Whole),
        1 => Just(Partition::Every(1)),
        1 => prop::sample::select(vec![2usize, 3, 5, 6, 7, 8, 13, 64, 259, 260, 261, 519, 520, 521]).prop_map(Partition::Every),
        2 => vec(1usize..=len.min(600), 1..40).prop_map(Partition::Cuts),
        // cuts placed relative to frame boundaries: inside the header (1..6 bytes after a
        // boundary) and inside the body
        3 => vec((any::<prop::sample::Index>(), 0usize..12), 1..12).prop_map(move |v| {
            let mut points: Vec<usize> = v
                .into_iter()
                .map(|(i, off)| {
                    if b2.is_empty() { off } else { b2[i.index(b2.len())] + off }
                })
                .filter(|p| *p > 0 && *p < len)
                .collect();
            points.sort();
            points.dedup();
            let mut cuts = Vec::new();
            let mut prev = 0;
            for p in points {
                cuts.push(p - prev);
                prev = p;
            }
            if cuts.is_empty() { Partition::Whole } else { Partition::Cuts(cuts) }
        }),
        // first chunk fills the receive buffer exactly, then small reads
        1 => (prop::sample::select(vec![253usize, 259, 260]), 1usize..9).prop_map(|(a, b)| Partition::Cuts(vec![a, b, b, b, 260, b])),
    ]
    .boxed()
}
