#!/bin/sh
# Regenerates the test PKI under /verif/certs (committed; checks never run this).
# Two authorities, server and client certificates with the Modbus role extension
# (OID 1.3.6.1.4.1.50316.802.1, UTF8String), fixed-date expired / not-yet-valid variants,
# and self-signed certificates.
set -e
D=$(cd "$(dirname "$0")/.." && pwd)/certs
rm -rf "$D"; mkdir -p "$D"; cd "$D"
OLD_FROM=20190101000000Z; OLD_TO=20200101000000Z
NEW_FROM=20900101000000Z; NEW_TO=21000101000000Z
OK_FROM=20200101000000Z;  OK_TO=21200101000000Z
key() { openssl genpkey -algorithm EC -pkeyopt ec_paramgen_curve:P-256 -out "$1" 2>/dev/null; }
ca() { # name
  key $1.key
  openssl req -x509 -new -key $1.key -subj "/O=verif/CN=$1" -not_before $OK_FROM -not_after $OK_TO \
     -addext "basicConstraints=critical,CA:TRUE" -addext "keyUsage=critical,keyCertSign,cRLSign" -out $1.pem
}
leaf() { # name ca from to extfile-content
  key $1.key
  openssl req -new -key $1.key -subj "/O=verif/CN=$6" -out $1.csr
  printf '%s\n' "$5" > $1.ext
  openssl x509 -req -in $1.csr -CA $2.pem -CAkey $2.key -set_serial 0x$(openssl rand -hex 8) \
     -not_before $3 -not_after $4 -extfile $1.ext -out $1.pem 2>/dev/null
  rm -f $1.csr $1.ext
}
selfsigned() { # name from to cn
  key $1.key
  openssl req -x509 -new -key $1.key -subj "/O=verif/CN=$4" -not_before $2 -not_after $3 -out $1.pem
}
ca ca1; ca ca2
SRV="basicConstraints=CA:FALSE
keyUsage=digitalSignature
extendedKeyUsage=serverAuth,clientAuth"
ROLE() { printf '%s\n1.3.6.1.4.1.50316.802.1=ASN1:FORMAT:UTF8,UTF8String:%s' "$SRV" "$1"; }
# servers
leaf server_ok        ca1 $OK_FROM  $OK_TO  "$SRV
subjectAltName=DNS:test.com" test.com
leaf server_othername ca1 $OK_FROM  $OK_TO  "$SRV
subjectAltName=DNS:other.com" other.com
leaf server_expired   ca1 $OLD_FROM $OLD_TO "$SRV
subjectAltName=DNS:test.com" test.com
leaf server_future    ca1 $NEW_FROM $NEW_TO "$SRV
subjectAltName=DNS:test.com" test.com
leaf server_ca2       ca2 $OK_FROM  $OK_TO  "$SRV
subjectAltName=DNS:test.com" test.com
leaf server_ip        ca1 $OK_FROM  $OK_TO  "$SRV
subjectAltName=IP:127.0.0.1,IP:::1" device
# clients
leaf client_operator  ca1 $OK_FROM  $OK_TO  "$(ROLE operator)" client
leaf client_viewer    ca1 $OK_FROM  $OK_TO  "$(ROLE viewer)" client
leaf client_utf8role  ca1 $OK_FROM  $OK_TO  "$(ROLE 'Bediener Ölförderung 操作员')" client
leaf client_spacerole ca1 $OK_FROM  $OK_TO  "$(ROLE 'night shift operator')" client
leaf client_norole    ca1 $OK_FROM  $OK_TO  "$SRV" client
leaf client_expired   ca1 $OLD_FROM $OLD_TO "$(ROLE operator)" client
leaf client_future    ca1 $NEW_FROM $NEW_TO "$(ROLE operator)" client
leaf client_ca2       ca2 $OK_FROM  $OK_TO  "$(ROLE operator)" client
# self-signed
selfsigned ss_server         $OK_FROM  $OK_TO  test.com
selfsigned ss_server_other   $OK_FROM  $OK_TO  test.com
selfsigned ss_server_expired $OLD_FROM $OLD_TO test.com
selfsigned ss_server_future  $NEW_FROM $NEW_TO test.com
selfsigned ss_client         $OK_FROM  $OK_TO  client
selfsigned ss_client_other   $OK_FROM  $OK_TO  client
selfsigned ss_client_expired $OLD_FROM $OLD_TO client
selfsigned ss_client_future  $NEW_FROM $NEW_TO client
# self-signed client certificate carrying a role
key ss_client_role.key
openssl req -x509 -new -key ss_client_role.key -subj "/O=verif/CN=client" -not_before $OK_FROM -not_after $OK_TO \
   -addext "1.3.6.1.4.1.50316.802.1=ASN1:FORMAT:UTF8,UTF8String:operator" -out ss_client_role.pem
rm -f ca1.srl ca2.srl
ls "$D" | wc -l
python3 "$(dirname "$0")/two_roles.py"
python3 "$(dirname "$0")/nul_role.py"
