#!/usr/bin/env python3
"""Builds certs/client_tworoles.pem: client_operator's certificate with a SECOND Modbus role
extension ("admin") spliced into the extension list and re-signed by ca1 (openssl refuses to
mint duplicate extensions itself). Uses only the openssl CLI for crypto."""
import base64, subprocess, sys, os
D = os.path.join(os.path.dirname(os.path.dirname(os.path.abspath(__file__))), 'certs')

def pem_to_der(path):
    b = open(path).read()
    body = ''.join(l for l in b.splitlines() if not l.startswith('-----'))
    return base64.b64decode(body)

def rd(buf, pos):
    tag = buf[pos]; l = buf[pos+1]; hl = 2
    if l & 0x80:
        n = l & 0x7F; l = int.from_bytes(buf[pos+2:pos+2+n], 'big'); hl = 2 + n
    return tag, hl, l

def enc(tag, content):
    n = len(content)
    if n < 0x80: return bytes([tag, n]) + content
    b = n.to_bytes((n.bit_length()+7)//8, 'big')
    return bytes([tag, 0x80 | len(b)]) + b + content

def children(buf, pos, hl, l):
    out = []; p = pos + hl; end = pos + hl + l
    while p < end:
        t, h, ln = rd(buf, p); out.append((p, t, h, ln)); p += h + ln
    return out

der = pem_to_der(os.path.join(D, 'client_operator.pem'))
t, h, l = rd(der, 0)                      # Certificate
cert_kids = children(der, 0, h, l)
tbs_pos, tbs_tag, tbs_h, tbs_l = cert_kids[0]
tbs_kids = children(der, tbs_pos, tbs_h, tbs_l)
ext_wrap = [k for k in tbs_kids if k[1] == 0xA3][0]      # [3] EXPLICIT
seq_pos = ext_wrap[0] + ext_wrap[2]
st, sh, sl = rd(der, seq_pos)             # SEQUENCE OF Extension
ext_content = der[seq_pos+sh: seq_pos+sh+sl]
# second role extension: SEQUENCE { OID 1.3.6.1.4.1.50316.802.1, OCTET STRING { UTF8String "admin" } }
oid = bytes([0x06, 0x0B, 0x2B, 0x06, 0x01, 0x04, 0x01, 0x83, 0x89, 0x0C, 0x86, 0x22, 0x01])
extra = enc(0x30, oid + enc(0x04, enc(0x0C, b'admin')))
assert oid[2:] in ext_content, "role OID not found in the source certificate"
new_exts = enc(0xA3, enc(0x30, ext_content + extra))
tbs_content = b''
for k in tbs_kids:
    piece = der[k[0]: k[0]+k[2]+k[3]]
    tbs_content += new_exts if k[1] == 0xA3 else piece
new_tbs = enc(0x30, tbs_content)
open('/tmp/two_roles_tbs.der', 'wb').write(new_tbs)
sig = subprocess.check_output(['openssl', 'dgst', '-sha256', '-sign', os.path.join(D, 'ca1.key'), '/tmp/two_roles_tbs.der'])
alg = der[cert_kids[1][0]: cert_kids[1][0]+cert_kids[1][2]+cert_kids[1][3]]
cert = enc(0x30, new_tbs + alg + enc(0x03, b'\x00' + sig))
pem = '-----BEGIN CERTIFICATE-----\n' + '\n'.join(base64.encodebytes(cert).decode().split()) + '\n-----END CERTIFICATE-----\n'
open(os.path.join(D, 'client_tworoles.pem'), 'w').write(pem)
import shutil; shutil.copy(os.path.join(D, 'client_operator.key'), os.path.join(D, 'client_tworoles.key'))
os.remove('/tmp/two_roles_tbs.der')
print('client_tworoles.pem written')
