//! A global tracing subscriber that really formats every event (tracing macros do not evaluate
//! their arguments unless a subscriber is interested, so without this the Display impls that
//! re-parse payloads would never run). Output goes to a thread-local sink that a check may
//! inspect or ignore.

use std::cell::RefCell;
use std::io::Write;
use std::sync::Once;

thread_local! {
    static SINK: RefCell<Sink> = RefCell::new(Sink { keep: false, buf: Vec::new(), bytes: 0, events: 0 });
}

struct Sink {
    keep: bool,
    buf: Vec<u8>,
    bytes: u64,
    events: u64,
}

/// process-wide capture (all threads), used by the FFI checks whose library threads are not ours
static GLOBAL_ON: std::sync::atomic::AtomicBool = std::sync::atomic::AtomicBool::new(false);
static GLOBAL_BUF: std::sync::Mutex<Vec<u8>> = std::sync::Mutex::new(Vec::new());
static GLOBAL_TIMED: std::sync::Mutex<Vec<(std::time::Instant, String)>> = std::sync::Mutex::new(Vec::new());

/// number of captured records containing `needle` so far (global capture only)
pub fn count_global_timed(needle: &str) -> usize {
    GLOBAL_TIMED.lock().unwrap().iter().filter(|r| r.1.contains(needle)).count()
}

/// formatted records with the instant at which they were written (global capture only)
pub fn take_global_timed() -> Vec<(std::time::Instant, String)> {
    std::mem::take(&mut *GLOBAL_TIMED.lock().unwrap())
}

pub fn capture_global(on: bool) {
    GLOBAL_BUF.lock().unwrap().clear();
    GLOBAL_TIMED.lock().unwrap().clear();
    GLOBAL_ON.store(on, std::sync::atomic::Ordering::SeqCst);
}

pub fn take_global() -> String {
    String::from_utf8_lossy(&std::mem::take(&mut *GLOBAL_BUF.lock().unwrap())).into_owned()
}

#[derive(Clone, Copy)]
pub struct SinkWriter;

impl Write for SinkWriter {
    fn write(&mut self, data: &[u8]) -> std::io::Result<usize> {
        if GLOBAL_ON.load(std::sync::atomic::Ordering::Relaxed) {
            GLOBAL_BUF.lock().unwrap().extend_from_slice(data);
            GLOBAL_TIMED
                .lock()
                .unwrap()
                .push((std::time::Instant::now(), String::from_utf8_lossy(data).into_owned()));
        }
        SINK.with(|s| {
            let mut s = s.borrow_mut();
            s.bytes += data.len() as u64;
            s.events += 1;
            if s.keep {
                s.buf.extend_from_slice(data);
            }
        });
        Ok(data.len())
    }
    fn flush(&mut self) -> std::io::Result<()> {
        Ok(())
    }
}

impl<'a> tracing_subscriber::fmt::MakeWriter<'a> for SinkWriter {
    type Writer = SinkWriter;
    fn make_writer(&'a self) -> Self::Writer {
        SinkWriter
    }
}

static INIT: Once = Once::new();

/// Install the formatting subscriber (idempotent)
pub fn init() {
    INIT.call_once(|| {
        let sub = tracing_subscriber::fmt()
            .with_max_level(tracing::Level::TRACE)
            .with_ansi(false)
            .without_time()
            .with_writer(SinkWriter)
            .finish();
        // ignore the error if somebody else (the FFI logging config) got there first
        let _ = tracing::subscriber::set_global_default(sub);
    });
}

/// Start keeping formatted output on this thread
pub fn capture(on: bool) {
    SINK.with(|s| {
        let mut s = s.borrow_mut();
        s.keep = on;
        s.buf.clear();
    });
}

/// Take what was captured on this thread
pub fn take() -> String {
    SINK.with(|s| {
        let mut s = s.borrow_mut();
        String::from_utf8_lossy(&std::mem::take(&mut s.buf)).into_owned()
    })
}

/// (bytes, writes) formatted on this thread so far
pub fn counters() -> (u64, u64) {
    SINK.with(|s| {
        let s = s.borrow();
        (s.bytes, s.events)
    })
}
