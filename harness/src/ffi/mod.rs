//! Engine `ffi`: the extern "C" functions of the rodbus-ffi rlib called from Rust, with
//! `extern "C"` callback structs whose `ctx` points at a ledger.

pub mod c18;
pub mod c19;

use std::ffi::CString;
use std::os::raw::{c_int, c_void};
use std::sync::{Arc, Mutex};
use std::time::{Duration, Instant};

use rodbus_ffi::ffi;

/// what a completion callback delivered
#[derive(Clone, Debug, PartialEq, Eq)]
pub enum Got {
    Bits(Vec<(u16, bool)>),
    Regs(Vec<(u16, u16)>),
    WriteOk,
    /// name of the ffi::RequestError value
    Err(String),
}

#[derive(Default, Debug)]
pub struct Slot {
    pub completions: Vec<Got>,
    pub destroyed: u32,
}

pub type SlotRef = Arc<Mutex<Slot>>;

fn slot_ctx(s: &SlotRef) -> *mut c_void {
    Arc::into_raw(s.clone()) as *mut c_void
}

unsafe fn with_slot(ctx: *mut c_void, f: impl FnOnce(&mut Slot)) {
    // the Arc handed to C is deliberately never released: callbacks may fire from any thread at
    // any time and a use-after-free in the harness would be worse than a small leak
    let p = ctx as *const Mutex<Slot>;
    if let Ok(mut g) = (*p).lock() {
        f(&mut g);
    }
}

extern "C" fn bits_complete(it: *mut rodbus_ffi::BitValueIterator<'_>, ctx: *mut c_void) {
    let mut v = Vec::new();
    unsafe {
        loop {
            let p = ffi::rodbus_bit_value_iterator_next(it);
            if p.is_null() {
                break;
            }
            v.push(((*p).index, (*p).value));
        }
        with_slot(ctx, |s| s.completions.push(Got::Bits(v)));
    }
}

extern "C" fn regs_complete(it: *mut rodbus_ffi::RegisterValueIterator<'_>, ctx: *mut c_void) {
    let mut v = Vec::new();
    unsafe {
        loop {
            let p = ffi::rodbus_register_value_iterator_next(it);
            if p.is_null() {
                break;
            }
            v.push(((*p).index, (*p).value));
        }
        with_slot(ctx, |s| s.completions.push(Got::Regs(v)));
    }
}

extern "C" fn write_complete(_nothing: c_int, ctx: *mut c_void) {
    unsafe { with_slot(ctx, |s| s.completions.push(Got::WriteOk)) }
}

extern "C" fn on_failure(err: c_int, ctx: *mut c_void) {
    let name = if (0..=19).contains(&err) {
        format!("{:?}", ffi::RequestError::from(err))
    } else {
        format!("<invalid enum value {}>", err)
    };
    unsafe { with_slot(ctx, |s| s.completions.push(Got::Err(name))) }
}

extern "C" fn on_destroy(ctx: *mut c_void) {
    unsafe { with_slot(ctx, |s| s.destroyed += 1) }
}

pub fn bit_callback(s: &SlotRef) -> ffi::BitReadCallback {
    ffi::BitReadCallback {
        on_complete: Some(bits_complete),
        on_failure: Some(on_failure),
        on_destroy: Some(on_destroy),
        ctx: slot_ctx(s),
    }
}

pub fn reg_callback(s: &SlotRef) -> ffi::RegisterReadCallback {
    ffi::RegisterReadCallback {
        on_complete: Some(regs_complete),
        on_failure: Some(on_failure),
        on_destroy: Some(on_destroy),
        ctx: slot_ctx(s),
    }
}

pub fn write_callback(s: &SlotRef) -> ffi::WriteCallback {
    ffi::WriteCallback {
        on_complete: Some(write_complete),
        on_failure: Some(on_failure),
        on_destroy: Some(on_destroy),
        ctx: slot_ctx(s),
    }
}

/// wait until the slot has at least one completion (returns a copy of all of them)
pub fn wait_slot(s: &SlotRef, max: Duration) -> Vec<Got> {
    let t0 = Instant::now();
    loop {
        {
            let g = s.lock().unwrap();
            if !g.completions.is_empty() {
                return g.completions.clone();
            }
        }
        if t0.elapsed() > max {
            return Vec::new();
        }
        std::thread::sleep(Duration::from_micros(200));
    }
}

pub struct FfiRuntime(pub *mut rodbus_ffi::Runtime);
unsafe impl Send for FfiRuntime {}

impl FfiRuntime {
    pub fn new(threads: u16) -> Result<Self, String> {
        let mut out: *mut rodbus_ffi::Runtime = std::ptr::null_mut();
        let cfg = ffi::RuntimeConfig {
            num_core_threads: threads,
        };
        let rc = unsafe { ffi::rodbus_runtime_create(cfg, &mut out) };
        if rc != 0 || out.is_null() {
            return Err(format!("INFRA: rodbus_runtime_create returned {}", rc));
        }
        Ok(FfiRuntime(out))
    }
}

impl Drop for FfiRuntime {
    fn drop(&mut self) {
        unsafe { ffi::rodbus_runtime_destroy(self.0) }
    }
}

pub fn decode_level(app: u8, frame: u8, phys: u8) -> ffi::DecodeLevel {
    // enum values by NAME: AppDecodeLevel {Nothing, FunctionCode, DataHeaders, DataValues} etc.
    let app = match app % 4 {
        0 => ffi::AppDecodeLevel::Nothing,
        1 => ffi::AppDecodeLevel::FunctionCode,
        2 => ffi::AppDecodeLevel::DataHeaders,
        _ => ffi::AppDecodeLevel::DataValues,
    };
    let frame = match frame % 3 {
        0 => ffi::FrameDecodeLevel::Nothing,
        1 => ffi::FrameDecodeLevel::Header,
        _ => ffi::FrameDecodeLevel::Payload,
    };
    let phys = match phys % 3 {
        0 => ffi::PhysDecodeLevel::Nothing,
        1 => ffi::PhysDecodeLevel::Length,
        _ => ffi::PhysDecodeLevel::Data,
    };
    ffi::DecodeLevelFields {
        app,
        frame,
        physical: phys,
    }
    .into()
}

pub fn retry_strategy(min_ms: u64, max_ms: u64) -> ffi::RetryStrategy {
    ffi::RetryStrategyFields {
        min_delay: Duration::from_millis(min_ms),
        max_delay: Duration::from_millis(max_ms),
    }
    .into()
}

/// recorded client states (by name of the ffi enum value)
pub type StateLog = Arc<Mutex<Vec<String>>>;

extern "C" fn state_change(state: c_int, ctx: *mut c_void) {
    let name = if (0..=5).contains(&state) {
        format!("{:?}", ffi::ClientState::from(state))
    } else {
        format!("<invalid {}>", state)
    };
    unsafe {
        let p = ctx as *const Mutex<Vec<String>>;
        if let Ok(mut g) = (*p).lock() {
            g.push(name);
        }
    }
}

extern "C" fn state_destroy(_ctx: *mut c_void) {}

pub fn state_listener(log: &StateLog) -> ffi::ClientStateListener {
    ffi::ClientStateListener {
        on_change: Some(state_change),
        on_destroy: Some(state_destroy),
        ctx: Arc::into_raw(log.clone()) as *mut c_void,
    }
}

pub fn cstr(s: &str) -> CString {
    CString::new(s).expect("no NUL")
}

pub fn free_port() -> u16 {
    // the ephemeral range can be exhausted for a moment when many real-socket checks run at once
    for _ in 0..250 {
        if let Ok(l) = std::net::TcpListener::bind("127.0.0.1:0") {
            if let Ok(a) = l.local_addr() {
                return a.port();
            }
        }
        std::thread::sleep(std::time::Duration::from_millis(20));
    }
    panic!("INFRA: no free TCP port on 127.0.0.1 for 5 s");
}
