#!/usr/bin/env python3
"""tools/mkmutant.py <name> <file relative to /repo> <old> <new> : writes mutants/<name>.diff (unified diff against /repo HEAD)."""
import sys, subprocess, os
name, rel, old, new = sys.argv[1:5]
p = os.path.join('/repo', rel)
s = open(p).read()
if s.count(old) != 1:
    print("pattern occurs %d times" % s.count(old)); sys.exit(1)
open(p, 'w').write(s.replace(old, new))
d = subprocess.check_output(['git', '-C', '/repo', 'diff'], text=True)
subprocess.check_call(['git', '-C', '/repo', 'checkout', '--', rel])
open('/verif/mutants/%s.diff' % name, 'w').write(d)
print("wrote mutants/%s.diff" % name)
