//! C09: TLS admits only authenticated peers at or above the minimum protocol version.
//! The complete configuration grid is enumerated against rustls peers the harness builds itself
//! (independent of sfio-rustls-config) with pinned protocol versions.

use std::path::{Path, PathBuf};
use std::sync::{Arc, Mutex};
use std::time::Duration;

use rodbus::client::{ClientState, HostAddr, Listener, RequestParam, TlsClientConfig};
use rodbus::server::{
    AddressFilter, Authorization, AuthorizationHandler, RequestHandler, ServerHandlerMap, TlsServerConfig,
};
use rodbus::{AddressRange, ClientOptions, DecodeLevel, ExceptionCode, MaybeAsync, UnitId};
use serde_json::json;
use tokio::io::{AsyncReadExt, AsyncWriteExt};
use tokio::net::{TcpListener, TcpStream};
use tokio_rustls::rustls;
use tokio_rustls::rustls::client::danger::{HandshakeSignatureValid, ServerCertVerified, ServerCertVerifier};
use tokio_rustls::rustls::pki_types::pem::PemObject;
use tokio_rustls::rustls::pki_types::{CertificateDer, PrivateKeyDer, ServerName, UnixTime};
use tokio_rustls::rustls::server::danger::{ClientCertVerified, ClientCertVerifier};
use tokio_rustls::rustls::{DigitallySignedStruct, DistinguishedName, SignatureScheme};

use super::rt;
use crate::model::framing::{deframe_mbap, mbap_frame};
use crate::runner::*;

#[derive(Copy, Clone, Debug, PartialEq, Eq)]
pub enum Offer {
    V12,
    V13,
    Both,
}

impl Offer {
    fn versions(self) -> &'static [&'static rustls::SupportedProtocolVersion] {
        static V12: &[&rustls::SupportedProtocolVersion] = &[&rustls::version::TLS12];
        static V13: &[&rustls::SupportedProtocolVersion] = &[&rustls::version::TLS13];
        static BOTH: &[&rustls::SupportedProtocolVersion] = &[&rustls::version::TLS12, &rustls::version::TLS13];
        match self {
            Offer::V12 => V12,
            Offer::V13 => V13,
            Offer::Both => BOTH,
        }
    }
    pub(crate) fn name(self) -> &'static str {
        match self {
            Offer::V12 => "tls1.2-only",
            Offer::V13 => "tls1.3-only",
            Offer::Both => "tls1.2+1.3",
        }
    }
    /// highest offered version as 12 / 13
    pub(crate) fn max(self) -> u8 {
        match self {
            Offer::V12 => 12,
            _ => 13,
        }
    }
}

pub(crate) fn certs_dir() -> PathBuf {
    PathBuf::from(std::env::var("VERIF_DIR").unwrap_or_else(|_| "/verif".to_string())).join("certs")
}

fn load_chain(name: &str) -> Vec<CertificateDer<'static>> {
    CertificateDer::pem_file_iter(certs_dir().join(format!("{}.pem", name)))
        .expect("cert file")
        .map(|c| c.expect("cert"))
        .collect()
}

fn load_key(name: &str) -> PrivateKeyDer<'static> {
    PrivateKeyDer::from_pem_file(certs_dir().join(format!("{}.key", name))).expect("key")
}

fn provider() -> Arc<rustls::crypto::CryptoProvider> {
    Arc::new(rustls::crypto::ring::default_provider())
}

/// The harness's client does not judge the server certificate: rodbus is under test, not it
#[derive(Debug)]
struct AcceptAnyServer(Arc<rustls::crypto::CryptoProvider>);

impl ServerCertVerifier for AcceptAnyServer {
    fn verify_server_cert(
        &self,
        _end_entity: &CertificateDer<'_>,
        _intermediates: &[CertificateDer<'_>],
        _server_name: &ServerName<'_>,
        _ocsp: &[u8],
        _now: UnixTime,
    ) -> Result<ServerCertVerified, rustls::Error> {
        Ok(ServerCertVerified::assertion())
    }
    fn verify_tls12_signature(
        &self,
        message: &[u8],
        cert: &CertificateDer<'_>,
        dss: &DigitallySignedStruct,
    ) -> Result<HandshakeSignatureValid, rustls::Error> {
        rustls::crypto::verify_tls12_signature(message, cert, dss, &self.0.signature_verification_algorithms)
    }
    fn verify_tls13_signature(
        &self,
        message: &[u8],
        cert: &CertificateDer<'_>,
        dss: &DigitallySignedStruct,
    ) -> Result<HandshakeSignatureValid, rustls::Error> {
        rustls::crypto::verify_tls13_signature(message, cert, dss, &self.0.signature_verification_algorithms)
    }
    fn supported_verify_schemes(&self) -> Vec<SignatureScheme> {
        self.0.signature_verification_algorithms.supported_schemes()
    }
}

/// The harness's server asks for a client certificate and accepts whatever it gets
#[derive(Debug)]
struct AcceptAnyClient(Arc<rustls::crypto::CryptoProvider>);

impl ClientCertVerifier for AcceptAnyClient {
    fn root_hint_subjects(&self) -> &[DistinguishedName] {
        &[]
    }
    fn verify_client_cert(
        &self,
        _end_entity: &CertificateDer<'_>,
        _intermediates: &[CertificateDer<'_>],
        _now: UnixTime,
    ) -> Result<ClientCertVerified, rustls::Error> {
        Ok(ClientCertVerified::assertion())
    }
    fn verify_tls12_signature(
        &self,
        message: &[u8],
        cert: &CertificateDer<'_>,
        dss: &DigitallySignedStruct,
    ) -> Result<HandshakeSignatureValid, rustls::Error> {
        rustls::crypto::verify_tls12_signature(message, cert, dss, &self.0.signature_verification_algorithms)
    }
    fn verify_tls13_signature(
        &self,
        message: &[u8],
        cert: &CertificateDer<'_>,
        dss: &DigitallySignedStruct,
    ) -> Result<HandshakeSignatureValid, rustls::Error> {
        rustls::crypto::verify_tls13_signature(message, cert, dss, &self.0.signature_verification_algorithms)
    }
    fn supported_verify_schemes(&self) -> Vec<SignatureScheme> {
        self.0.signature_verification_algorithms.supported_schemes()
    }
    fn client_auth_mandatory(&self) -> bool {
        false
    }
}

pub(crate) fn peer_client_config(offer: Offer, cert: Option<&str>) -> Arc<rustls::ClientConfig> {
    let p = provider();
    let b = rustls::ClientConfig::builder_with_provider(p.clone())
        .with_protocol_versions(offer.versions())
        .expect("versions")
        .dangerous()
        .with_custom_certificate_verifier(Arc::new(AcceptAnyServer(p)));
    let cfg = match cert {
        Some(name) => b
            .with_client_auth_cert(load_chain(name), load_key(name))
            .expect("client cert"),
        None => b.with_no_client_auth(),
    };
    Arc::new(cfg)
}

pub(crate) fn peer_server_config(offer: Offer, cert: &str) -> Arc<rustls::ServerConfig> {
    let p = provider();
    let cfg = rustls::ServerConfig::builder_with_provider(p.clone())
        .with_protocol_versions(offer.versions())
        .expect("versions")
        .with_client_cert_verifier(Arc::new(AcceptAnyClient(p)))
        .with_single_cert(load_chain(cert), load_key(cert))
        .expect("server cert");
    Arc::new(cfg)
}

struct Sentinel {
    calls: Arc<Mutex<u32>>,
}
impl RequestHandler for Sentinel {
    fn read_holding_register(&self, address: u16) -> Result<u16, ExceptionCode> {
        *self.calls.lock().unwrap() += 1;
        if address == 0 {
            Ok(0xBEEF)
        } else {
            Err(ExceptionCode::IllegalDataAddress)
        }
    }
}

struct RoleRecorder {
    roles: Arc<Mutex<Vec<String>>>,
}
impl AuthorizationHandler for RoleRecorder {
    fn read_holding_registers(&self, _u: UnitId, _r: AddressRange, role: &str) -> Authorization {
        self.roles.lock().unwrap().push(role.to_string());
        Authorization::Allow
    }
}

#[derive(Clone, Debug)]
struct Cell {
    role: &'static str, // "server" or "client": what rodbus is
    min: u8,
    mode: &'static str,
    authz: bool,
    name_check: bool,
    offer: Offer,
    peer_cert: &'static str,
    /// certificate validity under the mode (ignoring versions)
    cert_valid: bool,
    /// expected role string when authz and accepted
    expect_role: Option<&'static str>,
    /// client role, authority mode with name check: the server name the client is told to expect
    expect_name: &'static str,
}

impl Cell {
    fn expect_accept(&self) -> bool {
        self.cert_valid && self.offer.max() >= self.min
    }
    fn faults(&self) -> u32 {
        (!self.cert_valid) as u32 + (self.offer.max() < self.min) as u32
    }
    fn json(&self) -> serde_json::Value {
        json!({
            "rodbus_is": self.role, "min_version": format!("1.{}", self.min - 10), "mode": self.mode,
            "authz": self.authz, "name_check": self.name_check, "peer_offers": self.offer.name(),
            "peer_cert": self.peer_cert, "expect_accept": self.expect_accept(), "expected_server_name": if self.name_check { self.expect_name } else { "" },
        })
    }
}

pub(crate) fn min_tls(min: u8) -> rodbus::client::MinTlsVersion {
    if min == 12 {
        rodbus::client::MinTlsVersion::V1_2
    } else {
        rodbus::client::MinTlsVersion::V1_3
    }
}

pub(crate) fn path(name: &str, ext: &str) -> PathBuf {
    certs_dir().join(format!("{}.{}", name, ext))
}

fn grid() -> Vec<Cell> {
    let mut v = Vec::new();
    let offers = [Offer::V12, Offer::V13, Offer::Both];
    for min in [12u8, 13] {
        for offer in offers {
            // ---- rodbus is the server
            for authz in [false, true] {
                // authority mode: chain to ca1, no name check on clients
                for (cert, valid_noauthz, valid_authz, role) in [
                    ("client_operator", true, true, Some("operator")),
                    ("client_viewer", true, true, Some("viewer")),
                    ("client_utf8role", true, true, Some("Bediener Ölförderung 操作员")),
                    ("client_spacerole", true, true, Some("night shift operator")),
                    ("client_norole", true, false, None),
                    ("client_tworoles", true, false, None),
                    ("client_expired", false, false, None),
                    ("client_future", false, false, None),
                    ("client_ca2", false, false, None),
                    ("", false, false, None),
                ] {
                    if cert == "client_tworoles" && !authz {
                        continue;
                    }
                    v.push(Cell {
                        role: "server",
                        min,
                        mode: "authority",
                        authz,
                        name_check: false,
                        offer,
                        peer_cert: cert,
                        cert_valid: if authz { valid_authz } else { valid_noauthz },
                        expect_role: if authz { role } else { None },
                        expect_name: "",
                    });
                }
                // self-signed mode: the configured peer certificate is named per cell
                for (cert, valid_noauthz, valid_authz, role) in [
                    ("ss_client", true, false, None),
                    ("ss_client_role", true, true, Some("operator")),
                    ("ss_client_other", false, false, None),
                    ("ss_client_expired", false, false, None),
                    ("ss_client_future", false, false, None),
                ] {
                    v.push(Cell {
                        role: "server",
                        min,
                        mode: "self-signed",
                        authz,
                        name_check: false,
                        offer,
                        peer_cert: cert,
                        cert_valid: if authz { valid_authz } else { valid_noauthz },
                        expect_role: if authz { role } else { None },
                        expect_name: "",
                    });
                }
            }
            // ---- rodbus is the client
            for name_check in [true, false] {
                for (cert, valid) in [
                    ("server_ok", true),
                    ("server_othername", !name_check),
                    ("server_expired", false),
                    ("server_future", false),
                    ("server_ca2", false),
                ] {
                    v.push(Cell {
                        role: "client",
                        min,
                        mode: "authority",
                        authz: false,
                        name_check,
                        offer,
                        peer_cert: cert,
                        cert_valid: valid,
                        expect_role: None,
                        expect_name: "test.com",
                    });
                }
            }
            // the expected name in other shapes: IP literals are names too (they match only IP
            // subject alternative names), DNS names compare case-insensitively
            for (name, cert, valid) in [
                ("127.0.0.1", "server_ok", false),
                ("::1", "server_ok", false),
                ("10.1.2.3", "server_ok", false),
                ("wrong.com", "server_ok", false),
                ("com", "server_ok", false),
                ("sub.test.com", "server_ok", false),
                ("TEST.COM", "server_ok", true),
                ("127.0.0.1", "server_ip", true),
                ("::1", "server_ip", true),
                ("10.1.2.3", "server_ip", false),
                ("test.com", "server_ip", false),
                ("device", "server_ip", false),
            ] {
                v.push(Cell {
                    role: "client",
                    min,
                    mode: "authority",
                    authz: false,
                    name_check: true,
                    offer,
                    peer_cert: cert,
                    cert_valid: valid,
                    expect_role: None,
                    expect_name: name,
                });
            }
            for (cert, valid) in [
                ("ss_server", true),
                ("ss_server_other", false),
                ("ss_server_expired", false),
                ("ss_server_future", false),
            ] {
                v.push(Cell {
                    role: "client",
                    min,
                    mode: "self-signed",
                    authz: false,
                    name_check: false,
                    offer,
                    peer_cert: cert,
                    cert_valid: valid,
                    expect_role: None,
                    expect_name: "",
                });
            }
        }
    }
    v
}

/// rodbus is the TLS server: returns (served, negotiated version, roles seen, handler calls)
async fn run_server_cell(c: &Cell, slow: u32) -> Result<(bool, Option<u8>, Vec<String>, u32), String> {
    let wait = Duration::from_millis(1500 * slow as u64);
    // in self-signed mode the server is configured with exactly the certificate the peer uses,
    // except for the "other" cell where it is configured with ss_client
    let (peer_path, local, mode) = if c.mode == "authority" {
        (path("ca1", "pem"), "server_ok", rodbus::client::CertificateMode::AuthorityBased)
    } else {
        let configured = if c.peer_cert == "ss_client_other" { "ss_client" } else { c.peer_cert };
        (path(configured, "pem"), "ss_server", rodbus::client::CertificateMode::SelfSigned)
    };
    let cfg = TlsServerConfig::new(
        &peer_path,
        &path(local, "pem"),
        &path(local, "key"),
        None,
        min_tls(c.min),
        mode,
    )
    .map_err(|e| format!("INFRA: TlsServerConfig::new failed: {}", e))?;
    let listener = TcpListener::bind("127.0.0.1:0").await.map_err(|e| format!("INFRA: {}", e))?;
    let addr = listener.local_addr().unwrap();
    let calls = Arc::new(Mutex::new(0u32));
    let roles = Arc::new(Mutex::new(Vec::new()));
    let map = ServerHandlerMap::single(UnitId::new(1), Sentinel { calls: calls.clone() }.wrap());
    let (handle, task) = if c.authz {
        rodbus::server::create_tls_server_task_with_authz(
            4,
            listener,
            map,
            Arc::new(RoleRecorder { roles: roles.clone() }),
            cfg,
            AddressFilter::Any,
            DecodeLevel::nothing(),
        )
    } else {
        rodbus::server::create_tls_server_task(4, listener, map, cfg, AddressFilter::Any, DecodeLevel::nothing())
    };
    let join = tokio::spawn(task.run());

    // plaintext probe first: a Modbus request sent without TLS must not be processed
    {
        let mut s = TcpStream::connect(addr).await.map_err(|e| format!("INFRA: connect {}", e))?;
        let _ = s.write_all(&mbap_frame(7, 1, &[3, 0, 0, 0, 1])).await;
        let mut buf = [0u8; 64];
        let mut got = Vec::new();
        loop {
            match tokio::time::timeout(Duration::from_millis(300 * slow as u64), s.read(&mut buf)).await {
                Ok(Ok(0)) | Ok(Err(_)) | Err(_) => break,
                Ok(Ok(n)) => got.extend_from_slice(&buf[..n]),
            }
        }
        let (frames, _) = deframe_mbap(&got);
        if frames.iter().any(|f| f.tx == 7 && f.pdu.first() == Some(&3)) {
            return Err("a plaintext Modbus request sent to the TLS server was answered".to_string());
        }
        if *calls.lock().unwrap() != 0 {
            return Err("a plaintext Modbus request sent to the TLS server reached the application handler".to_string());
        }
    }

    let cert = if c.peer_cert.is_empty() { None } else { Some(c.peer_cert) };
    let connector = tokio_rustls::TlsConnector::from(peer_client_config(c.offer, cert));
    let tcp = TcpStream::connect(addr).await.map_err(|e| format!("INFRA: connect {}", e))?;
    let name = ServerName::try_from("test.com").unwrap();
    let mut served = false;
    let mut version = None;
    if let Ok(Ok(mut tls)) = tokio::time::timeout(wait, connector.connect(name, tcp)).await {
        version = tls.get_ref().1.protocol_version().map(|v| match v {
            rustls::ProtocolVersion::TLSv1_2 => 12u8,
            rustls::ProtocolVersion::TLSv1_3 => 13u8,
            _ => 0,
        });
        if tls.write_all(&mbap_frame(9, 1, &[3, 0, 0, 0, 1])).await.is_ok() {
            let mut buf = [0u8; 64];
            let mut got = Vec::new();
            loop {
                match tokio::time::timeout(wait, tls.read(&mut buf)).await {
                    Ok(Ok(0)) | Ok(Err(_)) | Err(_) => break,
                    Ok(Ok(n)) => {
                        got.extend_from_slice(&buf[..n]);
                        if got.len() >= 11 {
                            break;
                        }
                    }
                }
            }
            if got == mbap_frame(9, 1, &[3, 2, 0xBE, 0xEF]) {
                served = true;
            } else if !got.is_empty() {
                return Err(format!("unexpected bytes from the TLS server: {:?}", got));
            }
        }
    }
    drop(handle);
    let _ = tokio::time::timeout(wait, join).await;
    let roles = roles.lock().unwrap().clone();
    let calls = *calls.lock().unwrap();
    Ok((served, version, roles, calls))
}

struct StateRec {
    tx: tokio::sync::mpsc::UnboundedSender<ClientState>,
}
impl Listener<ClientState> for StateRec {
    fn update(&mut self, value: ClientState) -> MaybeAsync<()> {
        let _ = self.tx.send(value);
        MaybeAsync::ready(())
    }
}

/// rodbus is the TLS client: returns (connected and served, version seen by the peer server)
async fn run_client_cell(c: &Cell, slow: u32) -> Result<(bool, Option<u8>), String> {
    let wait = Duration::from_millis(2000 * slow as u64);
    let listener = TcpListener::bind("127.0.0.1:0").await.map_err(|e| format!("INFRA: {}", e))?;
    let addr = listener.local_addr().unwrap();
    let acceptor = tokio_rustls::TlsAcceptor::from(peer_server_config(c.offer, c.peer_cert));
    let version: Arc<Mutex<Option<u8>>> = Arc::new(Mutex::new(None));
    let v2 = version.clone();
    let server = tokio::spawn(async move {
        loop {
            let (tcp, _) = match listener.accept().await {
                Ok(x) => x,
                Err(_) => return,
            };
            let acceptor = acceptor.clone();
            let v3 = v2.clone();
            tokio::spawn(async move {
                if let Ok(mut tls) = acceptor.accept(tcp).await {
                    *v3.lock().unwrap() = tls.get_ref().1.protocol_version().map(|v| match v {
                        rustls::ProtocolVersion::TLSv1_2 => 12u8,
                        rustls::ProtocolVersion::TLSv1_3 => 13u8,
                        _ => 0,
                    });
                    let mut buf = [0u8; 256];
                    let mut acc = Vec::new();
                    loop {
                        let n = match tls.read(&mut buf).await {
                            Ok(0) | Err(_) => break,
                            Ok(n) => n,
                        };
                        acc.extend_from_slice(&buf[..n]);
                        let (frames, _) = deframe_mbap(&acc);
                        let mut used = 0;
                        for f in frames {
                            used += 7 + f.pdu.len();
                            if tls.write_all(&mbap_frame(f.tx, f.unit, &[3, 2, 0xBE, 0xEF])).await.is_err() {
                                return;
                            }
                        }
                        acc.drain(..used);
                    }
                }
            });
        }
    });
    let tls_config = if c.mode == "authority" {
        TlsClientConfig::full_pki(
            if c.name_check { Some(c.expect_name.to_string()) } else { None },
            &path("ca1", "pem"),
            &path("client_operator", "pem"),
            &path("client_operator", "key"),
            None,
            min_tls(c.min),
        )
    } else {
        let configured = if c.peer_cert == "ss_server_other" { "ss_server" } else { c.peer_cert };
        TlsClientConfig::self_signed(
            &path(configured, "pem"),
            &path("ss_client", "pem"),
            &path("ss_client", "key"),
            None,
            min_tls(c.min),
        )
    }
    .map_err(|e| format!("INFRA: TlsClientConfig failed: {}", e))?;
    let (tx, mut rx) = tokio::sync::mpsc::unbounded_channel();
    let (channel, task) = rodbus::client::create_tls_client_task_with_options(
        HostAddr::ip(addr.ip(), addr.port()),
        rodbus::doubling_retry_strategy(Duration::from_secs(5), Duration::from_secs(5)),
        tls_config,
        Some(Box::new(StateRec { tx })),
        ClientOptions::default(),
    );
    let join = tokio::spawn(task.run());
    channel.enable().await.map_err(|_| "enable failed".to_string())?;
    let mut connected = None;
    let deadline = tokio::time::Instant::now() + wait;
    while connected.is_none() {
        match tokio::time::timeout_at(deadline, rx.recv()).await {
            Ok(Some(ClientState::Connected)) => connected = Some(true),
            Ok(Some(ClientState::WaitAfterFailedConnect(_))) | Ok(Some(ClientState::WaitAfterDisconnect(_))) => {
                connected = Some(false)
            }
            Ok(Some(_)) => {}
            Ok(None) | Err(_) => break,
        }
    }
    let mut served = false;
    if connected == Some(true) {
        let r = tokio::time::timeout(
            wait,
            channel.read_holding_registers(
                RequestParam::new(UnitId::new(1), Duration::from_millis(1000 * slow as u64)),
                AddressRange::try_from(0, 1).unwrap(),
            ),
        )
        .await;
        if let Ok(Ok(v)) = r {
            served = v.len() == 1 && v[0].value == 0xBEEF;
        }
    }
    let _ = channel.shutdown().await;
    let _ = tokio::time::timeout(wait, join).await;
    server.abort();
    let v = *version.lock().unwrap();
    Ok((served, v))
}

fn judge_cell(c: &Cell) -> CaseResult {
    super::retry3(|slow| {
        let rt = rt(2);
        let c = c.clone();
        rt.block_on(async move {
            let expect = c.expect_accept();
            let (served, version, roles, calls) = if c.role == "server" {
                run_server_cell(&c, slow).await?
            } else {
                let (s, v) = run_client_cell(&c, slow).await?;
                (s, v, vec![], 0)
            };
            if served != expect {
                return Err(format!(
                    "TLS grid cell {}: peer was {} but must be {}",
                    c.json(),
                    if served { "served" } else { "refused" },
                    if expect { "served" } else { "refused" }
                ));
            }
            if served {
                match version {
                    Some(v) if v >= c.min => {}
                    other => {
                        return Err(format!(
                            "TLS grid cell {}: negotiated version {:?} is below the configured minimum",
                            c.json(),
                            other
                        ))
                    }
                }
                if c.role == "server" && c.authz {
                    let want = c.expect_role.unwrap_or("");
                    if roles != vec![want.to_string()] {
                        return Err(format!(
                            "TLS grid cell {}: authorization handler saw roles {:?}, the certificate's role extension is {:?}",
                            c.json(),
                            roles,
                            want
                        ));
                    }
                }
            } else if c.role == "server" && (calls != 0 || !roles.is_empty()) {
                return Err(format!(
                    "TLS grid cell {}: refused peer reached the application ({} handler calls, roles {:?})",
                    c.json(),
                    calls,
                    roles
                ));
            }
            let mut ok = CaseOk::new();
            ok.nontrivial = c.faults() == 1;
            Ok(ok)
        })
    })
}

pub fn c09_grid(ctx: &Ctx) -> SearchReport {
    let mut rep = SearchReport::empty(
        "c09_grid",
        "complete enumeration of the configuration grid {min 1.2, 1.3} x {authority, self-signed} x {authz, no authz} x {rodbus is server, client} x peer offers {1.2 only, 1.3 only, both} x peer certificate {valid (4 role variants), role-less, other CA, expired, not yet valid, none / other self-signed, wrong name}; peers are rustls endpoints configured by the harness with pinned versions that do not validate anything themselves. Oracle: truth table (served iff certificate valid under the mode and some offered version >= minimum; negotiated version >= minimum; role string equals the extension; a plaintext Modbus request is never processed). Non-trivial = cells where exactly one condition fails.",
    );
    let cells = grid();
    let cells = Arc::new(cells);
    let next = Arc::new(std::sync::atomic::AtomicUsize::new(0));
    let failure: Arc<Mutex<Option<(String, serde_json::Value)>>> = Default::default();
    let done = Arc::new(Mutex::new((0u64, 0u64, Vec::<serde_json::Value>::new(), 0u64)));
    let mut handles = Vec::new();
    for _ in 0..ctx.threads.min(8).max(1) {
        let cells = cells.clone();
        let next = next.clone();
        let failure = failure.clone();
        let done = done.clone();
        handles.push(std::thread::spawn(move || loop {
            let i = next.fetch_add(1, std::sync::atomic::Ordering::Relaxed);
            if i >= cells.len() || failure.lock().unwrap().is_some() {
                return;
            }
            let c = &cells[i];
            let r = match guarded(|| judge_cell(c)) {
                Ok(r) => r,
                Err(p) => Err(format!("panic: {}", p)),
            };
            match r {
                Ok(ok) => {
                    let mut d = done.lock().unwrap();
                    d.0 += 1;
                    if ok.nontrivial {
                        d.1 += 1;
                        if d.2.len() < 4 {
                            d.2.push(c.json());
                        }
                    }
                    if ok.labels.iter().any(|l| l.starts_with("flaky")) {
                        d.3 += 1;
                    }
                }
                Err(m) => {
                    *failure.lock().unwrap() = Some((m, json!({"cell_index": i, "cell": c.json()})));
                }
            }
        }));
    }
    for h in handles {
        let _ = h.join();
    }
    let d = done.lock().unwrap();
    rep.stats.evaluations = d.0;
    rep.stats.nontrivial_total = d.1;
    for i in 0..d.1 {
        rep.stats.distinct.insert(i);
    }
    rep.stats.samples = d.2.clone();
    rep.stats.labels.insert("cells_in_grid".to_string(), cells.len() as u64);
    if d.3 > 0 {
        rep.stats.labels.insert("flaky:passed_on_rerun".to_string(), d.3);
    }
    if let Some((m, c)) = failure.lock().unwrap().take() {
        if m.contains("INFRA:") {
            // the harness could not set the cell up (no port, ...): inconclusive, not a violation
            rep.health_errors.push(format!("c09_grid: {}", m));
        } else {
            rep.failure = Some(Failure {
                message: m,
                case: c,
                hang: false,
            });
        }
    } else {
        rep.exhaustive = true;
    }
    rep
}

pub fn c09_replay(v: &serde_json::Value) -> CaseResult {
    let i = v["cell_index"].as_u64().ok_or("cell_index")? as usize;
    let cells = grid();
    let c = cells.get(i).ok_or("no such cell")?;
    judge_cell(c)
}

#[allow(dead_code)]
fn _p(_: &Path) {}


// ---------------------------------------------------------------------------------------------
// an independent TLS implementation as the peer: openssl s_client / s_server

fn openssl_version_flag(o: Offer) -> Option<&'static str> {
    match o {
        Offer::V12 => Some("-tls1_2"),
        Offer::V13 => Some("-tls1_3"),
        Offer::Both => None,
    }
}

/// rodbus TLS server (authority mode) probed with `openssl s_client`
fn openssl_client_cell(c: &Cell) -> CaseResult {
    use std::io::{Read, Write};
    use std::process::{Command, Stdio};
    let rt = rt(2);
    let (addr, calls, roles, handle, join) = rt.block_on(async {
        let cfg = TlsServerConfig::new(
            &path("ca1", "pem"),
            &path("server_ok", "pem"),
            &path("server_ok", "key"),
            None,
            min_tls(c.min),
            rodbus::client::CertificateMode::AuthorityBased,
        )
        .map_err(|e| format!("INFRA: {}", e))?;
        let listener = TcpListener::bind("127.0.0.1:0").await.map_err(|e| format!("INFRA: {}", e))?;
        let addr = listener.local_addr().unwrap();
        let calls = Arc::new(Mutex::new(0u32));
        let roles = Arc::new(Mutex::new(Vec::new()));
        let map = ServerHandlerMap::single(UnitId::new(1), Sentinel { calls: calls.clone() }.wrap());
        let (handle, task) = if c.authz {
            rodbus::server::create_tls_server_task_with_authz(
                4, listener, map, Arc::new(RoleRecorder { roles: roles.clone() }), cfg, AddressFilter::Any, DecodeLevel::nothing(),
            )
        } else {
            rodbus::server::create_tls_server_task(4, listener, map, cfg, AddressFilter::Any, DecodeLevel::nothing())
        };
        let join = tokio::spawn(task.run());
        Ok::<_, String>((addr, calls, roles, handle, join))
    })?;
    let mut cmd = Command::new("openssl");
    cmd.arg("s_client")
        .arg("-connect")
        .arg(format!("127.0.0.1:{}", addr.port()))
        .arg("-quiet")
        .arg("-no_ign_eof")
        .arg("-CAfile")
        .arg(path("ca1", "pem"));
    if !c.peer_cert.is_empty() {
        cmd.arg("-cert").arg(path(c.peer_cert, "pem")).arg("-key").arg(path(c.peer_cert, "key"));
    }
    if let Some(f) = openssl_version_flag(c.offer) {
        cmd.arg(f);
    }
    let mut child = cmd
        .stdin(Stdio::piped())
        .stdout(Stdio::piped())
        .stderr(Stdio::null())
        .spawn()
        .map_err(|e| format!("INFRA: cannot run openssl: {}", e))?;
    let mut stdin = child.stdin.take().unwrap();
    let mut stdout = child.stdout.take().unwrap();
    let req = mbap_frame(9, 1, &[3, 0, 0, 0, 1]);
    // give the handshake a moment, then send the request; keep stdin open while waiting
    std::thread::sleep(Duration::from_millis(150));
    let _ = stdin.write_all(&req);
    let _ = stdin.flush();
    let (tx, rx) = std::sync::mpsc::channel();
    std::thread::spawn(move || {
        let mut got = Vec::new();
        let mut buf = [0u8; 64];
        while got.len() < 11 {
            match stdout.read(&mut buf) {
                Ok(0) | Err(_) => break,
                Ok(n) => got.extend_from_slice(&buf[..n]),
            }
        }
        let _ = tx.send(got);
    });
    let got = rx.recv_timeout(Duration::from_millis(2500)).unwrap_or_default();
    drop(stdin);
    let _ = child.kill();
    let _ = child.wait();
    drop(handle);
    let _ = rt.block_on(async { tokio::time::timeout(Duration::from_secs(2), join).await });
    let served = got == mbap_frame(9, 1, &[3, 2, 0xBE, 0xEF]);
    let expect = c.expect_accept();
    if served != expect {
        return Err(format!(
            "openssl s_client against the rodbus TLS server, cell {}: peer was {} but must be {}",
            c.json(),
            if served { "served" } else { "refused" },
            if expect { "served" } else { "refused" }
        ));
    }
    if !served && (*calls.lock().unwrap() != 0 || !roles.lock().unwrap().is_empty()) {
        return Err(format!("openssl s_client cell {}: refused peer reached the application", c.json()));
    }
    if served && c.authz {
        let want = c.expect_role.unwrap_or("");
        if *roles.lock().unwrap() != vec![want.to_string()] {
            return Err(format!("openssl s_client cell {}: role seen {:?}, certificate says {:?}", c.json(), roles.lock().unwrap(), want));
        }
    }
    let mut ok = CaseOk::new();
    ok.nontrivial = c.faults() == 1;
    Ok(ok)
}

pub fn c09_openssl(ctx: &Ctx) -> SearchReport {
    let mut rep = SearchReport::empty(
        "c09_openssl_peer",
        "the authority-mode server cells of the grid (rodbus is the TLS server) probed with `openssl s_client` as an independent TLS implementation: quick = every 5th cell, thorough = all; same truth-table oracle",
    );
    if std::process::Command::new("openssl").arg("version").output().is_err() {
        rep.health_errors.push("INFRA: openssl CLI not available".to_string());
        return rep;
    }
    let cells: Vec<Cell> = grid()
        .into_iter()
        .filter(|c| c.role == "server" && c.mode == "authority")
        .collect();
    let step = if ctx.tier == Tier::Quick { 5 } else { 1 };
    for (i, c) in cells.iter().enumerate() {
        if i % step != 0 {
            continue;
        }
        let r = super::retry3(|_slow| openssl_client_cell(c));
        rep.stats.evaluations += 1;
        match r {
            Ok(ok) => {
                if ok.nontrivial {
                    rep.stats.nontrivial_total += 1;
                    rep.stats.distinct.insert(i as u64);
                    if rep.stats.samples.len() < 2 {
                        rep.stats.samples.push(c.json());
                    }
                }
            }
            Err(m) if m.contains("INFRA:") => {
                rep.health_errors.push(format!("c09_openssl_peer: {}", m));
                return rep;
            }
            Err(m) => {
                rep.failure = Some(Failure {
                    message: m,
                    case: json!({"openssl_cell_index": i, "cell": c.json()}),
                    hang: false,
                });
                return rep;
            }
        }
    }
    rep.exhaustive = step == 1;
    rep
}

pub fn c09_openssl_replay(v: &serde_json::Value) -> CaseResult {
    let i = v["openssl_cell_index"].as_u64().ok_or("openssl_cell_index")? as usize;
    let cells: Vec<Cell> = grid()
        .into_iter()
        .filter(|c| c.role == "server" && c.mode == "authority")
        .collect();
    openssl_client_cell(cells.get(i).ok_or("no such cell")?)
}

// ---------------------------------------------------------------------------------------------
// Sequences of peers against ONE server: what a peer gets must not depend on who came before

use proptest::prelude::*;
use serde::{Deserialize, Serialize};

/// (certificate name, valid without authorization, valid with authorization, role)
const SEQ_CERTS: [(&str, bool, bool, Option<&str>); 9] = [
    ("client_operator", true, true, Some("operator")),
    ("client_viewer", true, true, Some("viewer")),
    ("client_utf8role", true, true, Some("Bediener Ölförderung 操作员")),
    ("client_spacerole", true, true, Some("night shift operator")),
    ("client_norole", true, false, None),
    ("client_tworoles", true, false, None),
    ("client_expired", false, false, None),
    ("client_ca2", false, false, None),
    ("", false, false, None),
];

#[derive(Clone, Debug, PartialEq, Eq, Hash, Serialize, Deserialize)]
pub struct SeqCase {
    pub min: u8,
    pub authz: bool,
    /// (index into the certificate table, versions offered: 0 = 1.2 only, 1 = 1.3 only, 2 = both,
    /// the connection is kept open while the later peers connect)
    pub peers: Vec<(u8, u8, bool)>,
}

struct SeqHandler {
    calls: Arc<Mutex<u32>>,
    writes: Arc<Mutex<Vec<(u16, u16)>>>,
}
impl RequestHandler for SeqHandler {
    fn read_holding_register(&self, address: u16) -> Result<u16, ExceptionCode> {
        *self.calls.lock().unwrap() += 1;
        if address == 0 {
            Ok(0xBEEF)
        } else {
            Err(ExceptionCode::IllegalDataAddress)
        }
    }
    fn write_single_register(&mut self, value: rodbus::Indexed<u16>) -> Result<(), ExceptionCode> {
        *self.calls.lock().unwrap() += 1;
        self.writes.lock().unwrap().push((value.index, value.value));
        Ok(())
    }
}

/// reads are allowed to every role, writes to "operator" only; every question is recorded
struct SeqAuth {
    roles: Arc<Mutex<Vec<String>>>,
    write_roles: Arc<Mutex<Vec<String>>>,
}
impl AuthorizationHandler for SeqAuth {
    fn read_holding_registers(&self, _u: UnitId, _r: AddressRange, role: &str) -> Authorization {
        self.roles.lock().unwrap().push(role.to_string());
        Authorization::Allow
    }
    fn write_single_register(&self, _u: UnitId, _idx: u16, role: &str) -> Authorization {
        self.write_roles.lock().unwrap().push(role.to_string());
        if role == "operator" {
            Authorization::Allow
        } else {
            Authorization::Deny
        }
    }
}

pub fn arb_seq() -> BoxedStrategy<SeqCase> {
    (
        prop_oneof![Just(12u8), Just(13u8)],
        prop::bool::weighted(0.8),
        proptest::collection::vec(
            (
                prop_oneof![6 => 0u8..4, 3 => 4u8..6, 2 => 6u8..9],
                prop_oneof![1 => Just(0u8), 1 => Just(1u8), 3 => Just(2u8)],
                any::<bool>(),
            ),
            2..7,
        ),
    )
        .prop_map(|(min, authz, peers)| SeqCase { min, authz, peers })
        .boxed()
}

pub fn check_seq(case: &SeqCase) -> CaseResult {
    super::retry3(|slow| {
        let rt = rt(2);
        let case = case.clone();
        rt.block_on(async move { run_seq(&case, slow).await })
    })
}

async fn run_seq(case: &SeqCase, slow: u32) -> CaseResult {
    let wait = Duration::from_millis(1500 * slow as u64);
    let cfg = TlsServerConfig::new(
        &path("ca1", "pem"),
        &path("server_ok", "pem"),
        &path("server_ok", "key"),
        None,
        min_tls(case.min),
        rodbus::client::CertificateMode::AuthorityBased,
    )
    .map_err(|e| format!("INFRA: TlsServerConfig::new failed: {}", e))?;
    let listener = TcpListener::bind("127.0.0.1:0").await.map_err(|e| format!("INFRA: {}", e))?;
    let addr = listener.local_addr().unwrap();
    let calls = Arc::new(Mutex::new(0u32));
    let roles = Arc::new(Mutex::new(Vec::new()));
    let write_roles: Arc<Mutex<Vec<String>>> = Arc::new(Mutex::new(Vec::new()));
    let writes: Arc<Mutex<Vec<(u16, u16)>>> = Arc::new(Mutex::new(Vec::new()));
    let map = ServerHandlerMap::single(
        UnitId::new(1),
        SeqHandler {
            calls: calls.clone(),
            writes: writes.clone(),
        }
        .wrap(),
    );
    let (handle, task) = if case.authz {
        rodbus::server::create_tls_server_task_with_authz(
            16,
            listener,
            map,
            Arc::new(SeqAuth {
                roles: roles.clone(),
                write_roles: write_roles.clone(),
            }),
            cfg,
            AddressFilter::Any,
            DecodeLevel::nothing(),
        )
    } else {
        rodbus::server::create_tls_server_task(16, listener, map, cfg, AddressFilter::Any, DecodeLevel::nothing())
    };
    let join = tokio::spawn(task.run());
    let mut kept = Vec::new();
    let mut ok = CaseOk::new();
    let mut distinct_roles: Vec<&str> = Vec::new();
    let mut refused_after_served = false;
    let mut any_served = false;
    let mut denied_write = false;
    for (k, (ci, off, keep)) in case.peers.iter().enumerate() {
        let (cert, valid_plain, valid_authz, role) = SEQ_CERTS[*ci as usize % SEQ_CERTS.len()];
        let offer = match off {
            0 => Offer::V12,
            1 => Offer::V13,
            _ => Offer::Both,
        };
        let expect = (if case.authz { valid_authz } else { valid_plain }) && offer.max() >= case.min;
        let roles_before = roles.lock().unwrap().len();
        let calls_before = *calls.lock().unwrap();
        let connector = tokio_rustls::TlsConnector::from(peer_client_config(offer, if cert.is_empty() { None } else { Some(cert) }));
        let tcp = TcpStream::connect(addr).await.map_err(|e| format!("INFRA: connect {}", e))?;
        let name = ServerName::try_from("test.com").unwrap();
        let mut served = false;
        let mut version = None;
        if let Ok(Ok(mut tls)) = tokio::time::timeout(wait, connector.connect(name, tcp)).await {
            version = tls.get_ref().1.protocol_version().map(|v| match v {
                rustls::ProtocolVersion::TLSv1_2 => 12u8,
                rustls::ProtocolVersion::TLSv1_3 => 13u8,
                _ => 0,
            });
            let tx = 100 + k as u16;
            if tls.write_all(&mbap_frame(tx, 1, &[3, 0, 0, 0, 1])).await.is_ok() {
                let mut buf = [0u8; 64];
                let mut got = Vec::new();
                loop {
                    match tokio::time::timeout(wait, tls.read(&mut buf)).await {
                        Ok(Ok(0)) | Ok(Err(_)) | Err(_) => break,
                        Ok(Ok(n)) => {
                            got.extend_from_slice(&buf[..n]);
                            if got.len() >= 11 {
                                break;
                            }
                        }
                    }
                }
                if got == mbap_frame(tx, 1, &[3, 2, 0xBE, 0xEF]) {
                    served = true;
                } else if !got.is_empty() {
                    return Err(format!("peer {} ({:?}): unexpected bytes from the TLS server: {:?}", k, cert, got));
                }
            }
            if served {
                // a write: with authorization only the role "operator" may do that
                let wtx = 200 + k as u16;
                let value = 0x4000 + k as u16;
                let req = [6u8, 0, 5, (value >> 8) as u8, value as u8];
                let w_before = writes.lock().unwrap().len();
                let wr_before = write_roles.lock().unwrap().len();
                let mut got = Vec::new();
                if tls.write_all(&mbap_frame(wtx, 1, &req)).await.is_ok() {
                    let mut buf = [0u8; 64];
                    loop {
                        match tokio::time::timeout(wait, tls.read(&mut buf)).await {
                            Ok(Ok(0)) | Ok(Err(_)) | Err(_) => break,
                            Ok(Ok(n)) => {
                                got.extend_from_slice(&buf[..n]);
                                if got.len() >= 9 {
                                    break;
                                }
                            }
                        }
                    }
                }
                let may = !case.authz || role == Some("operator");
                let want = if may { mbap_frame(wtx, 1, &req) } else { mbap_frame(wtx, 1, &[0x86, 1]) };
                let done: Vec<(u16, u16)> = writes.lock().unwrap()[w_before..].to_vec();
                let asked: Vec<String> = write_roles.lock().unwrap()[wr_before..].to_vec();
                let who = format!(
                    "peer no. {} with certificate {:?} (role {:?}) on a server with authorization {}",
                    k + 1,
                    cert,
                    role,
                    if case.authz { "on (writes for \"operator\" only)" } else { "off" }
                );
                if got != want {
                    return Err(format!("{}: write single register answered {:02X?}, expected {:02X?}", who, got, want));
                }
                if may != (done == vec![(5, value)]) || (!may && !done.is_empty()) {
                    return Err(format!("{}: writes executed by the application: {:?}", who, done));
                }
                if case.authz && asked != vec![role.unwrap_or("").to_string()] {
                    return Err(format!("{}: the authorization handler was asked about the write with roles {:?}", who, asked));
                }
                if case.authz && !may {
                    denied_write = true;
                }
            }
            if *keep {
                kept.push(tls);
            }
        }
        let history: Vec<&str> = case.peers[..k].iter().map(|p| SEQ_CERTS[p.0 as usize % SEQ_CERTS.len()].0).collect();
        let describe = format!(
            "server (authority mode, min TLS 1.{}, authorization {}), peer no. {} with certificate {:?} offering {} after peers {:?}",
            case.min - 10,
            if case.authz { "on" } else { "off" },
            k + 1,
            cert,
            offer.name(),
            history
        );
        if served != expect {
            return Err(format!(
                "{}: was {} but must be {}",
                describe,
                if served { "served" } else { "refused" },
                if expect { "served" } else { "refused" }
            ));
        }
        let new_roles: Vec<String> = roles.lock().unwrap()[roles_before..].to_vec();
        if served {
            match version {
                Some(v) if v >= case.min => {}
                other => return Err(format!("{}: negotiated version {:?} is below the configured minimum", describe, other)),
            }
            if case.authz {
                let want = role.unwrap_or("");
                if new_roles != vec![want.to_string()] {
                    return Err(format!(
                        "{}: the authorization handler saw roles {:?}, the certificate's role extension is {:?}",
                        describe, new_roles, want
                    ));
                }
                if !distinct_roles.contains(&want) {
                    distinct_roles.push(want);
                }
            }
            any_served = true;
        } else {
            if *calls.lock().unwrap() != calls_before || !new_roles.is_empty() {
                return Err(format!(
                    "{}: the refused peer reached the application (roles {:?})",
                    describe, new_roles
                ));
            }
            if any_served {
                refused_after_served = true;
            }
        }
    }
    drop(kept);
    drop(handle);
    let _ = tokio::time::timeout(wait, join).await;
    if distinct_roles.len() >= 2 {
        ok.label("two_roles_on_one_server");
    }
    if refused_after_served {
        ok.label("refused_after_a_served_peer");
    }
    if denied_write {
        ok.label("write_denied_by_role");
    }
    ok.nontrivial = distinct_roles.len() >= 2 || refused_after_served;
    Ok(ok)
}
