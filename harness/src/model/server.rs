//! Reference Modbus server: dispatch rules (configured unit / broadcast / authorization) applied
//! to the application's point tables. Produces, per received frame, the set of allowed replies
//! and the expected application calls.

use std::collections::BTreeMap;

use crate::app::{Call, Policy, UnitState};
use crate::model::pdu::*;

#[derive(Copy, Clone, Debug, PartialEq, Eq)]
pub enum Framing {
    Mbap,
    Rtu,
}

#[derive(Clone, Debug)]
pub struct AuthModel {
    pub policy: Policy,
    pub role: String,
    pub calls: usize,
}

#[derive(Clone, Debug)]
pub struct ModelServer {
    pub framing: Framing,
    pub units: BTreeMap<u8, UnitState>,
    pub auth: Option<AuthModel>,
    /// unit ids answered by the handler instance of another unit: alias id -> owner id
    pub aliases: BTreeMap<u8, u8>,
}

/// One allowed behaviour for a frame
#[derive(Clone, Debug, PartialEq, Eq)]
pub struct Outcome {
    /// reply PDU, None = nothing is written
    pub reply: Option<Vec<u8>>,
    /// expected authorization call (always first)
    pub auth: Option<Call>,
    /// expected handler calls
    pub calls: ExpectCalls,
    /// application state after this outcome
    pub units_after: BTreeMap<u8, UnitState>,
    pub auth_calls_after: usize,
}

#[derive(Clone, Debug, PartialEq, Eq)]
pub enum ExpectCalls {
    /// no handler call at all
    None,
    /// exactly these calls; calls to different units may interleave in any order
    Exactly(Vec<Call>),
    /// only reads of `table` on `unit` with addresses in [start, start+count)
    ReadsWithin {
        unit: u8,
        table: Table,
        start: u16,
        count: u16,
    },
}

/// What the model says about one frame
#[derive(Clone, Debug)]
pub struct Verdict {
    pub class: ReqClass,
    /// the allowed behaviours (at least one)
    pub allowed: Vec<Outcome>,
    /// labels for statistics
    pub labels: Vec<&'static str>,
}

impl ModelServer {
    fn outcome_silent(&self) -> Outcome {
        Outcome {
            reply: None,
            auth: None,
            calls: ExpectCalls::None,
            units_after: self.units.clone(),
            auth_calls_after: self.auth.as_ref().map(|a| a.calls).unwrap_or(0),
        }
    }

    fn outcome_reply(&self, pdu: Vec<u8>) -> Outcome {
        Outcome {
            reply: Some(pdu),
            ..self.outcome_silent()
        }
    }

    /// Evaluate one frame against the current state without committing
    pub fn judge(&self, addr: u8, pdu: &[u8]) -> Verdict {
        let class = classify_request(pdu);
        let broadcast = self.framing == Framing::Rtu && addr == 0;
        let configured = !broadcast && (self.units.contains_key(&addr) || self.aliases.contains_key(&addr));
        let mut labels: Vec<&'static str> = Vec::new();
        if broadcast {
            labels.push("broadcast");
        } else if configured {
            labels.push("unit:configured");
        } else {
            labels.push("unit:unconfigured");
        }

        let allowed = match &class {
            ReqClass::Empty => {
                labels.push("class:empty");
                vec![self.outcome_silent()]
            }
            ReqClass::Unsupported(fc) => {
                labels.push("class:unsupported_fc");
                if configured {
                    vec![self.outcome_reply(exception_pdu(*fc, 1))]
                } else {
                    vec![self.outcome_silent()]
                }
            }
            ReqClass::Invalid(kind, why) => {
                labels.push("class:invalid");
                labels.push(match why {
                    Invalid::WrongLength => "invalid:wrong_length",
                    Invalid::ZeroCount => "invalid:zero_count",
                    Invalid::AddressOverflow => "invalid:address_overflow",
                    Invalid::OverLimit => "invalid:over_limit",
                    Invalid::BadCoilValue => "invalid:bad_coil_value",
                });
                if configured {
                    vec![self.outcome_reply(exception_pdu(kind.fc(), 3))]
                } else {
                    vec![self.outcome_silent()]
                }
            }
            ReqClass::ByteCountMismatch(kind) => {
                labels.push("class:dontcare_byte_count");
                // either rejected as invalid, or accepted with the data that is present
                let mut v = Vec::new();
                if configured {
                    v.push(self.outcome_reply(exception_pdu(kind.fc(), 3)));
                } else {
                    v.push(self.outcome_silent());
                }
                // accepted variant: rebuild the request with a consistent byte count
                let mut fixed = pdu.to_vec();
                fixed[5] = (pdu.len() - 6) as u8;
                if let ReqClass::Valid(req) = classify_request(&fixed) {
                    v.extend(self.dispatch_valid(addr, broadcast, configured, &req, &mut Vec::new()));
                }
                v
            }
            ReqClass::Valid(req) => {
                labels.push("class:valid");
                self.dispatch_valid(addr, broadcast, configured, req, &mut labels)
            }
        };
        Verdict {
            class,
            allowed,
            labels,
        }
    }

    fn dispatch_valid(
        &self,
        addr: u8,
        broadcast: bool,
        configured: bool,
        req: &ValidReq,
        labels: &mut Vec<&'static str>,
    ) -> Vec<Outcome> {
        let kind = req.kind();
        let fc = kind.fc();
        let mut auth_call = None;
        let mut auth_calls_after = self.auth.as_ref().map(|a| a.calls).unwrap_or(0);
        if let Some(auth) = &self.auth {
            let count = match req {
                ValidReq::WriteCoil { .. } | ValidReq::WriteReg { .. } => None,
                _ => Some(req.count()),
            };
            let allowed = auth
                .policy
                .decide(kind, addr, req.start(), count, &auth.role, auth.calls);
            auth_calls_after = auth.calls + 1;
            auth_call = Some(Call::Auth {
                kind,
                unit: addr,
                start: req.start(),
                count,
                role: auth.role.clone(),
                allowed,
            });
            if !allowed {
                labels.push("auth:deny");
                let denied = Outcome {
                    reply: if broadcast {
                        None
                    } else {
                        Some(exception_pdu(fc, 1))
                    },
                    auth: auth_call.clone(),
                    calls: ExpectCalls::None,
                    units_after: self.units.clone(),
                    auth_calls_after,
                };
                if configured || broadcast {
                    return vec![denied];
                }
                // denied request for an unconfigured unit: C08 demands exception 01, C17 silence;
                // C01 explicitly allows the veto to come first. Both are accepted.
                labels.push("dontcare:deny_unconfigured");
                let silent = Outcome {
                    reply: None,
                    ..denied.clone()
                };
                return vec![denied, silent];
            }
            labels.push("auth:allow");
        }

        let base = Outcome {
            reply: None,
            auth: auth_call,
            calls: ExpectCalls::None,
            units_after: self.units.clone(),
            auth_calls_after,
        };

        if broadcast {
            if kind.is_read() {
                labels.push("broadcast:read_ignored");
                return vec![base];
            }
            labels.push("broadcast:write");
            let mut units_after = self.units.clone();
            let mut calls = Vec::new();
            for (u, st) in units_after.iter_mut() {
                let (call, _res) = apply_write(*u, st, req);
                calls.push(call);
            }
            // once per configured unit id: a handler instance serving several ids sees it once
            // for each of them
            for owner in self.aliases.values() {
                let (call, _res) = apply_write(*owner, units_after.get_mut(owner).unwrap(), req);
                calls.push(call);
            }
            if !self.aliases.is_empty() {
                labels.push("broadcast:shared_handler");
            }
            return vec![Outcome {
                calls: ExpectCalls::Exactly(calls),
                units_after,
                ..base
            }];
        }

        if !configured {
            return vec![base];
        }

        // the handler (and its unit label in the call log) behind this unit id
        let addr = self.aliases.get(&addr).copied().unwrap_or(addr);
        if self.aliases.values().any(|o| *o == addr) {
            labels.push("unit:shared_handler");
        }
        let st = &self.units[&addr];
        match req {
            ValidReq::Read { kind, start, count } => {
                let table = kind.table();
                let calls = ExpectCalls::ReadsWithin {
                    unit: addr,
                    table,
                    start: *start,
                    count: *count,
                };
                let n = *count as usize;
                let mut exceptions: Vec<u8> = Vec::new();
                let reply_ok = match table {
                    Table::Coils | Table::Discrete => {
                        let mut vals = Vec::with_capacity(n);
                        for i in 0..n {
                            match st.read_bit(table, start.wrapping_add(i as u16)) {
                                Ok(v) => vals.push(v),
                                Err(e) => {
                                    if !exceptions.contains(&e.code) {
                                        exceptions.push(e.code)
                                    }
                                }
                            }
                        }
                        read_bits_reply(fc, &vals)
                    }
                    _ => {
                        let mut vals = Vec::with_capacity(n);
                        for i in 0..n {
                            match st.read_reg(table, start.wrapping_add(i as u16)) {
                                Ok(v) => vals.push(v),
                                Err(e) => {
                                    if !exceptions.contains(&e.code) {
                                        exceptions.push(e.code)
                                    }
                                }
                            }
                        }
                        read_regs_reply(fc, &vals)
                    }
                };
                if exceptions.is_empty() {
                    labels.push("read:ok");
                    vec![Outcome {
                        reply: Some(reply_ok),
                        calls,
                        ..base
                    }]
                } else {
                    labels.push("read:exception");
                    if exceptions.len() > 1 {
                        labels.push("read:several_exceptions");
                    }
                    // a reference server evaluates the points in address order: the exception of
                    // the lowest failing address is the one reported
                    let code = exceptions[0];
                    vec![Outcome {
                        reply: Some(exception_pdu(fc, code)),
                        calls,
                        ..base
                    }]
                }
            }
            _ => {
                let mut units_after = self.units.clone();
                let (call, res) = apply_write(addr, units_after.get_mut(&addr).unwrap(), req);
                let reply = match res {
                    Ok(()) => {
                        labels.push("write:ok");
                        write_reply(req)
                    }
                    Err(code) => {
                        labels.push("write:exception");
                        exception_pdu(fc, code)
                    }
                };
                vec![Outcome {
                    reply: Some(reply),
                    calls: ExpectCalls::Exactly(vec![call]),
                    units_after,
                    ..base
                }]
            }
        }
    }

    /// Commit the outcome that was observed
    pub fn commit(&mut self, outcome: &Outcome) {
        self.units = outcome.units_after.clone();
        if let Some(a) = &mut self.auth {
            a.calls = outcome.auth_calls_after;
        }
    }
}

/// Apply a write to one unit: the call the handler must see and the result it gives
fn apply_write(unit: u8, st: &mut UnitState, req: &ValidReq) -> (Call, Result<(), u8>) {
    match req {
        ValidReq::WriteCoil { addr, value } => (
            Call::WriteCoil {
                unit,
                addr: *addr,
                value: *value,
            },
            st.write_coils(&[(*addr, *value)]).map_err(|e| e.code),
        ),
        ValidReq::WriteReg { addr, value } => (
            Call::WriteReg {
                unit,
                addr: *addr,
                value: *value,
            },
            st.write_regs(&[(*addr, *value)]).map_err(|e| e.code),
        ),
        ValidReq::WriteCoils { start, values } => {
            let v: Vec<(u16, bool)> = values
                .iter()
                .enumerate()
                .map(|(i, b)| (start.wrapping_add(i as u16), *b))
                .collect();
            let res = st.write_coils(&v).map_err(|e| e.code);
            (
                Call::WriteCoils {
                    unit,
                    start: *start,
                    count: values.len() as u16,
                    len_hint: v.len(),
                    values: v,
                },
                res,
            )
        }
        ValidReq::WriteRegs { start, values } => {
            let v: Vec<(u16, u16)> = values
                .iter()
                .enumerate()
                .map(|(i, b)| (start.wrapping_add(i as u16), *b))
                .collect();
            let res = st.write_regs(&v).map_err(|e| e.code);
            (
                Call::WriteRegs {
                    unit,
                    start: *start,
                    count: values.len() as u16,
                    len_hint: v.len(),
                    values: v,
                },
                res,
            )
        }
        ValidReq::Read { .. } => unreachable!(),
    }
}

/// Check observed calls against the expectation. `observed` are the calls logged while the
/// frame was processed.
pub fn check_calls(outcome: &Outcome, observed: &[Call]) -> Result<(), String> {
    let mut rest = observed;
    match &outcome.auth {
        Some(a) => {
            match rest.first() {
                Some(first) if first == a => {}
                other => {
                    return Err(format!(
                        "expected authorization call {:?} before anything else, observed {:?}",
                        a, other
                    ))
                }
            }
            rest = &rest[1..];
        }
        None => {}
    }
    if let Some(x) = rest.iter().find(|c| c.is_auth()) {
        return Err(format!("unexpected authorization call {:?}", x));
    }
    match &outcome.calls {
        ExpectCalls::None => {
            if !rest.is_empty() {
                return Err(format!(
                    "no handler call expected, observed {:?}",
                    &rest[..rest.len().min(4)]
                ));
            }
        }
        ExpectCalls::Exactly(exp) => {
            // multiset equality, order within one unit preserved (one call per unit here)
            let mut a: Vec<String> = exp.iter().map(|c| format!("{:?}", c)).collect();
            let mut b: Vec<String> = rest.iter().map(|c| format!("{:?}", c)).collect();
            a.sort();
            b.sort();
            if a != b {
                return Err(format!(
                    "expected exactly the calls {:?}, observed {:?}",
                    exp,
                    &rest[..rest.len().min(6)]
                ));
            }
        }
        ExpectCalls::ReadsWithin {
            unit,
            table,
            start,
            count,
        } => {
            for c in rest {
                match c {
                    Call::Read {
                        unit: u,
                        table: t,
                        addr,
                    } if u == unit
                        && t == table
                        && (*addr as u32) >= *start as u32
                        && (*addr as u32) < *start as u32 + *count as u32 => {}
                    other => {
                        return Err(format!(
                            "read of {:?} {}+{} on unit {} must only query that range, observed {:?}",
                            table, start, count, unit, other
                        ))
                    }
                }
            }
        }
    }
    Ok(())
}
