//! C10 / C13 on the real TCP and TLS client: a peer that accepts the connection (and completes
//! the TLS handshake) and then never reads a byte. Every request gets a short timeout; the socket
//! buffers fill up with unanswered requests until the transport takes no more. From then on the
//! statement still applies: every request completes (none is left pending forever), disable
//! closes the connection, shutdown and dropping the handles end the task.

use std::sync::{Arc, Mutex};
use std::time::{Duration, Instant};

use proptest::prelude::*;
use rodbus::client::{ClientState, HostAddr, Listener, RequestParam, WriteMultiple};
use rodbus::{ClientOptions, MaybeAsync, RequestError, UnitId};
use serde::{Deserialize, Serialize};
use tokio::net::{TcpListener, TcpSocket};

use super::*;
use crate::runner::{CaseOk, CaseResult};

#[derive(Copy, Clone, Debug, PartialEq, Eq, Hash, Serialize, Deserialize)]
pub enum End {
    Shutdown,
    DropHandles,
    Disable,
}

#[derive(Clone, Debug, PartialEq, Eq, Hash, Serialize, Deserialize)]
pub struct NoReadCase {
    pub tls: bool,
    /// response timeout of every request in microseconds (0 = the request may not wait at all:
    /// the buffers fill within a second; 1000 = a millisecond each: tens of seconds)
    pub timeout_us: u32,
    /// registers per write-multiple request (frame of 13 + 2n bytes)
    pub regs: u8,
    /// SO_RCVBUF of the peer's sockets in KiB
    pub rcvbuf_kib: u8,
    pub end: End,
}

pub fn arb_noread() -> BoxedStrategy<NoReadCase> {
    (
        any::<bool>(),
        prop_oneof![7 => Just(0u32), 1 => Just(1000u32)],
        prop_oneof![3 => Just(123u8), 1 => 60u8..=123],
        1u8..=8,
        prop_oneof![Just(End::Shutdown), Just(End::DropHandles), Just(End::Disable)],
    )
        .prop_map(|(tls, timeout_us, regs, rcvbuf_kib, end)| NoReadCase {
            tls,
            timeout_us,
            regs,
            rcvbuf_kib,
            end,
        })
        .boxed()
}

struct Recorder {
    states: Arc<Mutex<Vec<ClientState>>>,
}

impl Listener<ClientState> for Recorder {
    fn update(&mut self, value: ClientState) -> MaybeAsync<()> {
        self.states.lock().unwrap().push(value);
        MaybeAsync::ready(())
    }
}

pub fn check_noread(case: &NoReadCase) -> CaseResult {
    retry3(|slow| run_once(case, slow))
}

const MAX_REQUESTS: usize = 100_000;

fn run_once(case: &NoReadCase, slow: u32) -> CaseResult {
    let rt = rt(2);
    let case = case.clone();
    let bound = Duration::from_millis(1500 * slow as u64);
    rt.block_on(async move {
        let lsock = TcpSocket::new_v4().map_err(|e| format!("INFRA: socket {}", e))?;
        let _ = lsock.set_recv_buffer_size(case.rcvbuf_kib as u32 * 1024);
        let _ = lsock.set_reuseaddr(true);
        lsock.bind("127.0.0.1:0".parse().unwrap()).map_err(|e| format!("INFRA: bind: {}", e))?;
        let listener: TcpListener = lsock.listen(16).map_err(|e| format!("INFRA: listen: {}", e))?;
        let addr = listener.local_addr().unwrap();
        let tls = case.tls;
        // the peer: accepts, shakes hands, and keeps every connection open without reading
        let peer = tokio::spawn(async move {
            let mut held: Vec<Link> = Vec::new();
            loop {
                let (tcp, _) = match listener.accept().await {
                    Ok(x) => x,
                    Err(_) => return,
                };
                if tls {
                    let acceptor = tokio_rustls::TlsAcceptor::from(super::c09::peer_server_config(super::c09::Offer::Both, "server_ok"));
                    if let Ok(t) = acceptor.accept(tcp).await {
                        held.push(Box::new(t));
                    }
                } else {
                    held.push(Box::new(tcp));
                }
            }
        });
        let states = Arc::new(Mutex::new(Vec::new()));
        let options = ClientOptions::default().max_queued_requests(4);
        let host = HostAddr::ip(addr.ip(), addr.port());
        // reconnects are far away: what is judged is the first connection
        let retry = || rodbus::doubling_retry_strategy(Duration::from_secs(600), Duration::from_secs(600));
        let (channel, task) = if case.tls {
            let tls_config = rodbus::client::TlsClientConfig::full_pki(
                Some("test.com".to_string()),
                &super::c09::path("ca1", "pem"),
                &super::c09::path("client_operator", "pem"),
                &super::c09::path("client_operator", "key"),
                None,
                super::c09::min_tls(12),
            )
            .map_err(|e| format!("INFRA: TlsClientConfig failed: {}", e))?;
            rodbus::client::create_tls_client_task_with_options(
                host,
                retry(),
                tls_config,
                Some(Box::new(Recorder { states: states.clone() })),
                options,
            )
        } else {
            rodbus::client::create_tcp_client_task_with_options(
                host,
                retry(),
                Some(Box::new(Recorder { states: states.clone() })),
                options,
            )
        };
        let mut join = tokio::spawn(task.run());
        channel.enable().await.map_err(|_| "enable() reported shutdown".to_string())?;
        let t0 = Instant::now();
        loop {
            if states.lock().unwrap().iter().any(|s| *s == ClientState::Connected) {
                break;
            }
            if t0.elapsed() > Duration::from_secs(5 * slow as u64) {
                return Err(format!("INFRA: no connection to the harness's own listener: {:?}", states.lock().unwrap()));
            }
            tokio::time::sleep(Duration::from_millis(2)).await;
        }

        let timeout = Duration::from_micros(case.timeout_us as u64);
        let frame_len = 13 + 2 * case.regs as usize;
        let mut ok = CaseOk::new();
        ok.label(if case.tls { "transport:tls" } else { "transport:tcp" });
        ok.label(if case.timeout_us == 0 { "timeout:zero" } else { "timeout:1ms" });
        let mut given_up_at: Option<usize> = None;
        let mut timeouts = 0usize;
        for i in 0..MAX_REQUESTS {
            let values = vec![0xA5A5u16; case.regs as usize];
            let req = channel.write_multiple_registers(
                RequestParam::new(UnitId::new(1), timeout),
                WriteMultiple::from(0, values).map_err(|e| format!("INFRA: WriteMultiple::from: {:?}", e))?,
            );
            let started = Instant::now();
            match tokio::time::timeout(timeout + bound, req).await {
                Err(_) => {
                    return Err(format!(
                        "request no. {} ({} bytes, response timeout {} us) was still pending {:?} after it had been submitted: the peer accepted the {} connection and never reads; {} requests before it ({} bytes) had timed out one by one",
                        i + 1,
                        frame_len,
                        case.timeout_us,
                        started.elapsed(),
                        if case.tls { "TLS" } else { "TCP" },
                        timeouts,
                        timeouts * frame_len
                    ));
                }
                Ok(Ok(_)) => return Err(format!("request no. {} was answered although the peer never writes", i + 1)),
                Ok(Err(RequestError::ResponseTimeout)) => {
                    timeouts += 1;
                    if timeouts % 500 == 0 && std::env::var("VERIF_DEBUG").is_ok() {
                        eprintln!("[c10w] {} timeouts after {:?}", timeouts, t0.elapsed());
                    }
                }
                Ok(Err(RequestError::Io(_))) => {
                    given_up_at = Some(i);
                    break;
                }
                Ok(Err(e)) => {
                    return Err(format!(
                        "request no. {} failed with {:?}: expected a response timeout, or an I/O error once the transport takes no more",
                        i + 1,
                        e
                    ))
                }
            }
        }
        match given_up_at {
            Some(_) => {
                ok.label("transport_took_no_more");
                ok.nontrivial = true;
                // the connection was given up with that I/O error: a wait state follows Connected
                let t0 = Instant::now();
                loop {
                    let st = states.lock().unwrap().clone();
                    if matches!(st.last(), Some(ClientState::WaitAfterDisconnect(_))) {
                        break;
                    }
                    if t0.elapsed() > bound {
                        return Err(format!(
                            "a request failed with an I/O error after {} timed-out requests, but the listener was not told of a lost connection: {:?}",
                            timeouts, st
                        ));
                    }
                    tokio::time::sleep(Duration::from_millis(2)).await;
                }
            }
            None => ok.label("buffers_never_filled"),
        }
        // the end of the channel
        let end_name = match case.end {
            End::Shutdown => "shutdown()",
            End::DropHandles => "dropping the handle",
            End::Disable => "disable()",
        };
        match case.end {
            End::Shutdown => {
                match tokio::time::timeout(bound, channel.shutdown()).await {
                    Ok(_) => {}
                    Err(_) => return Err("shutdown() did not return".to_string()),
                }
                drop(channel);
            }
            End::DropHandles => drop(channel),
            End::Disable => {
                match tokio::time::timeout(bound, channel.disable()).await {
                    Ok(Ok(())) => {}
                    Ok(Err(_)) => return Err("disable() reported shutdown although the task was not ended".to_string()),
                    Err(_) => return Err("disable() did not return".to_string()),
                }
                let t0 = Instant::now();
                loop {
                    let st = states.lock().unwrap().clone();
                    if matches!(st.last(), Some(ClientState::Disabled)) && st.len() > 1 {
                        break;
                    }
                    if t0.elapsed() > bound {
                        return Err(format!("no Disabled notification within {:?} of disable(): {:?}", bound, st));
                    }
                    tokio::time::sleep(Duration::from_millis(2)).await;
                }
                drop(channel);
            }
        }
        match tokio::time::timeout(bound, &mut join).await {
            Ok(_) => {}
            Err(_) => {
                join.abort();
                peer.abort();
                return Err(format!(
                    "the client task was still running {:?} after {} (peer never reads, {} requests timed out): {:?}",
                    bound,
                    end_name,
                    timeouts,
                    states.lock().unwrap()
                ));
            }
        }
        peer.abort();
        let st = states.lock().unwrap().clone();
        if st.last() != Some(&ClientState::Shutdown) || st.iter().filter(|s| **s == ClientState::Shutdown).count() != 1 {
            return Err(format!("Shutdown is not reported exactly once and last: {:?}", st));
        }
        ok.label(match case.end {
            End::Shutdown => "end:shutdown",
            End::DropHandles => "end:drop",
            End::Disable => "end:disable",
        });
        ok.label(match timeouts {
            0..=99 => "timeouts_before:<100",
            100..=999 => "timeouts_before:100..999",
            _ => "timeouts_before:>=1000",
        });
        Ok(ok)
    })
}
