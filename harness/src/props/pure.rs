//! Pure (no session) checks: AddressRange grid (C03), retry strategy (C14), wildcard parser (C16).

use serde_json::{json, Value};

use crate::runner::*;

fn lattice_u16() -> Vec<u16> {
    let mut v: Vec<u32> = Vec::new();
    for b in [0u32, 1, 2, 7, 8, 9, 123, 124, 125, 126, 255, 256, 257, 1968, 1969, 2000, 2001, 32767, 32768, 32769, 65533, 65534, 65535] {
        v.push(b);
    }
    for k in 0..16 {
        let p = 1u32 << k;
        v.push(p);
        v.push(p.saturating_sub(1));
        v.push(p + 1);
        v.push(65536 - p);
        v.push(65535 - p);
    }
    let mut v: Vec<u16> = v.into_iter().filter(|x| *x < 65536).map(|x| x as u16).collect();
    v.sort();
    v.dedup();
    v
}

fn range_case(start: u16, count: u16) -> Result<bool, String> {
    let model_ok = count >= 1 && start as u32 + count as u32 <= 65536;
    match rodbus::AddressRange::try_from(start, count) {
        Ok(r) => {
            if !model_ok {
                return Err(format!(
                    "AddressRange::try_from({}, {}) accepted an empty or address-overflowing range",
                    start, count
                ));
            }
            if r.start != start || r.count != count {
                return Err(format!(
                    "AddressRange::try_from({}, {}) returned {:?}",
                    start, count, r
                ));
            }
            let std = r.to_std_range();
            if std.start != start as usize || std.end != start as usize + count as usize {
                return Err(format!("to_std_range of ({}, {}) is {:?}", start, count, std));
            }
        }
        Err(e) => {
            if model_ok {
                return Err(format!(
                    "AddressRange::try_from({}, {}) rejected a valid range: {:?}",
                    start, count, e
                ));
            }
        }
    }
    // non-trivial: within 2 of the accept/reject boundary
    let s = start as i64 + count as i64;
    Ok(count <= 2 || (s - 65536).abs() <= 2)
}

pub fn c03_grid_replay(v: &Value) -> CaseResult {
    let start = v["start"].as_u64().ok_or("start")? as u16;
    let count = v["count"].as_u64().ok_or("count")? as u16;
    range_case(start, count).map(|nt| {
        let mut ok = CaseOk::new();
        ok.nontrivial = nt;
        ok
    })
}

pub fn c03_grid(ctx: &Ctx) -> SearchReport {
    let mut rep = SearchReport::empty(
        "c03_range_grid",
        "AddressRange::try_from over u16 x u16: boundary lattice (quick) or all 2^32 pairs (thorough); oracle: accepted iff count >= 1 and start + count <= 65536, fields preserved; non-trivial = pair within 2 of the accept/reject boundary (every pair is distinct by construction)",
    );
    match ctx.tier {
        Tier::Quick => {
            let l = lattice_u16();
            for s in &l {
                for c in &l {
                    rep.stats.evaluations += 1;
                    match range_case(*s, *c) {
                        Ok(nt) => {
                            if nt {
                                rep.stats.nontrivial_total += 1;
                                rep.stats.distinct.insert(((*s as u64) << 16) | *c as u64);
                                if rep.stats.samples.len() < 2 {
                                    rep.stats.samples.push(json!({"start": s, "count": c}));
                                }
                            }
                        }
                        Err(m) => {
                            rep.failure = Some(Failure {
                                message: m,
                                case: json!({"start": s, "count": c}),
                                hang: false,
                            });
                            return rep;
                        }
                    }
                }
            }
            *rep.stats.labels.entry("lattice_points_per_axis".to_string()).or_insert(0) = l.len() as u64;
        }
        Tier::Thorough => {
            let threads = ctx.threads.max(1);
            let mut handles = Vec::new();
            for t in 0..threads {
                handles.push(std::thread::spawn(move || {
                    let mut evals = 0u64;
                    let mut nts = 0u64;
                    let mut fail = None;
                    let mut s = t as u32;
                    'outer: while s < 65536 {
                        for c in 0..=65535u16 {
                            evals += 1;
                            match range_case(s as u16, c) {
                                Ok(nt) => {
                                    if nt {
                                        nts += 1
                                    }
                                }
                                Err(m) => {
                                    fail = Some((m, s as u16, c));
                                    break 'outer;
                                }
                            }
                        }
                        s += threads as u32;
                    }
                    (evals, nts, fail)
                }));
            }
            let mut nts_total = 0u64;
            for h in handles {
                let (e, n, f) = h.join().unwrap();
                rep.stats.evaluations += e;
                nts_total += n;
                if let Some((m, s, c)) = f {
                    if rep.failure.is_none() {
                        rep.failure = Some(Failure {
                            message: m,
                            case: json!({"start": s, "count": c}),
                            hang: false,
                        });
                    }
                }
            }
            rep.stats.nontrivial_total = nts_total;
            // all pairs are distinct: record the count through synthetic keys (capped to keep memory flat)
            for i in 0..nts_total.min(2_000_000) {
                rep.stats.distinct.insert(i);
            }
            rep.stats.samples.push(json!({"start": 65535, "count": 1}));
            rep.stats.samples.push(json!({"start": 65535, "count": 2}));
            rep.exhaustive = rep.failure.is_none();
        }
    }
    rep
}
