//! C13 (client connection life-cycle) and C14-b (announced reconnect delays are the delays
//! waited) on the real TcpChannelTask. The connection-state listener is an asynchronous gate:
//! each notification parks the task until the harness has injected the next operations.

use std::sync::atomic::{AtomicUsize, Ordering};
use std::sync::Arc;
use std::time::{Duration, Instant};

use proptest::collection::vec;
use proptest::prelude::*;
use rodbus::client::{Channel, ClientState, HostAddr, Listener, RequestParam};
use rodbus::{AddressRange, ClientOptions, MaybeAsync, RequestError, UnitId};
use serde::{Deserialize, Serialize};
use tokio::io::{AsyncReadExt, AsyncWriteExt};
use tokio::net::TcpListener;
use tokio::sync::{mpsc, oneshot};

use super::*;
use crate::model::framing::{deframe_mbap, mbap_frame};
use crate::runner::CaseResult;

#[derive(Copy, Clone, Debug, PartialEq, Eq, Hash, Serialize, Deserialize)]
pub enum Env {
    Refused,
    AcceptClose,
    AcceptGarbage,
    AcceptSilent,
    Served,
    /// TLS client only: the TCP connection is accepted but the server presents a certificate of
    /// another authority, so the handshake fails: a failed connect. Plain TCP: same as Refused.
    BadCert,
    /// TLS client only: the TCP connection is accepted and then nothing is ever sent, so the TLS
    /// handshake never completes; the channel is "connecting" for as long as the peer likes, and
    /// is not connected. Plain TCP: same as AcceptSilent.
    HandshakeStall,
}

#[derive(Copy, Clone, Debug, PartialEq, Eq, Hash, Serialize, Deserialize)]
pub enum Act {
    Enable,
    Disable,
    Submit,
    Shutdown,
    DropHandles,
}

#[derive(Clone, Debug, PartialEq, Eq, Hash, Serialize, Deserialize)]
pub struct C13Case {
    pub min_ms: u16,
    pub max_ms: u16,
    pub max_timeouts: Option<u8>,
    /// environment of the k-th connection attempt (the last one repeats)
    pub envs: Vec<Env>,
    /// operations injected at the k-th listener notification
    pub gates: Vec<Vec<Act>>,
    /// operations injected when no notification arrives for a while
    pub idle: Vec<Act>,
    /// how the task is finally ended
    pub end_by_drop: bool,
    /// the channel is a TLS client (create_tls_client_task_with_options) and the peer completes
    /// a TLS handshake before it behaves as the environment says
    #[serde(default)]
    pub tls: bool,
    /// the host is given by name ("localhost", resolved at every attempt) instead of by address
    #[serde(default)]
    pub by_name: bool,
}

pub fn arb_c13() -> BoxedStrategy<C13Case> {
    let act = prop_oneof![
        4 => Just(Act::Enable),
        3 => Just(Act::Disable),
        4 => Just(Act::Submit),
    ];
    let gate = prop_oneof![
        5 => Just(Vec::new()),
        5 => act.clone().prop_map(|a| vec![a]),
        2 => vec(act.clone(), 2..4),
    ];
    let env = prop_oneof![
        3 => Just(Env::Refused),
        2 => Just(Env::AcceptClose),
        1 => Just(Env::AcceptGarbage),
        2 => Just(Env::AcceptSilent),
        3 => Just(Env::Served),
        1 => Just(Env::BadCert),
        1 => Just(Env::HandshakeStall),
    ];
    (
        prop::bool::weighted(0.35),
        prop::bool::weighted(0.2),
        // mostly short reconnect delays; now and then seconds, which a task that honours its
        // handles during a wait never actually spends
        // ... and a delay of zero: the wait state is still announced, and left at once
        prop_oneof![8 => 20u16..40, 1 => Just(3000u16), 1 => Just(0u16)],
        1u16..=4,
        proptest::option::weighted(0.5, 1u8..3),
        vec(env, 1..6),
        vec(gate, 2..14),
        vec(prop_oneof![3 => Just(Act::Enable), 2 => Just(Act::Disable), 2 => Just(Act::Submit)], 0..4),
        any::<bool>(),
        proptest::option::weighted(0.5, (0usize..14, any::<bool>())),
    )
        .prop_map(|(tls, by_name, min_ms, mult, max_timeouts, envs, mut gates, idle, end_by_drop, early_end)| {
            // the first gate (initial Disabled) usually enables the channel
            if !gates[0].contains(&Act::Enable) && gates[0].len() < 3 {
                gates[0].push(Act::Enable);
            }
            // optionally end the task from the middle of the script: from whatever state that is
            if let Some((pos, drop)) = early_end {
                let pos = pos % gates.len();
                gates[pos].push(if drop { Act::DropHandles } else { Act::Shutdown });
                gates.truncate(pos + 1);
            }
            C13Case {
                min_ms,
                max_ms: min_ms * mult,
                max_timeouts,
                envs,
                gates,
                idle,
                end_by_drop,
                tls,
                by_name,
            }
        })
        .boxed()
}

struct Gate {
    tx: mpsc::UnboundedSender<(ClientState, oneshot::Sender<()>)>,
}

impl Listener<ClientState> for Gate {
    fn update(&mut self, value: ClientState) -> MaybeAsync<()> {
        let (rtx, rrx) = oneshot::channel();
        let sent = self.tx.send((value, rtx)).is_ok();
        MaybeAsync::asynchronous(async move {
            if sent {
                let _ = rrx.await;
            }
        })
    }
}

fn state_name(s: &ClientState) -> &'static str {
    match s {
        ClientState::Disabled => "Disabled",
        ClientState::Connecting => "Connecting",
        ClientState::Connected => "Connected",
        ClientState::WaitAfterFailedConnect(_) => "WaitAfterFailedConnect",
        ClientState::WaitAfterDisconnect(_) => "WaitAfterDisconnect",
        ClientState::Shutdown => "Shutdown",
    }
}

pub fn check_c13(case: &C13Case) -> CaseResult {
    retry3(|slow| run_once(case, slow, Facet::Lifecycle))
}

pub fn check_c14b(case: &C13Case) -> CaseResult {
    retry3(|slow| run_once(case, slow, Facet::Delays))
}

#[derive(Copy, Clone, PartialEq, Eq)]
enum Facet {
    Lifecycle,
    Delays,
}

struct Submitted {
    at_gate: Option<&'static str>,
    /// must be NoConnection quickly
    expect_fast_no_connection: bool,
    submitted: Instant,
    rx: oneshot::Receiver<(Result<(), RequestError>, Instant)>,
}

fn run_once(case: &C13Case, slow: u32, facet: Facet) -> CaseResult {
    let rt = rt(2);
    let gate_wait = Duration::from_millis(350 * slow as u64);
    let bound = Duration::from_millis(2000 * slow as u64);
    rt.block_on(async move {
        // a port we control: bound or not depending on the environment of the next attempt
        let probe = TcpListener::bind("127.0.0.1:0").await.map_err(|e| format!("INFRA: bind {}", e))?;
        let addr = probe.local_addr().unwrap();
        drop(probe);
        let accepts = Arc::new(AtomicUsize::new(0));
        // connections the peer has seen end (EOF / reset from the client, or closed by the peer itself)
        let closed = Arc::new(AtomicUsize::new(0));
        let mut acceptor: Option<tokio::task::JoinHandle<()>> = None;

        let mut labels_tls = false;
        let (gtx, mut grx) = mpsc::unbounded_channel();
        let min = Duration::from_millis(case.min_ms as u64);
        let max = Duration::from_millis(case.max_ms as u64);
        let options = ClientOptions::default()
            .max_queued_requests(16)
            .max_response_timeouts(case.max_timeouts.and_then(|n| std::num::NonZeroUsize::new(n as usize)));
        // only where the name resolves to the loopback address the harness listens on
        let name_ok = {
            use std::net::ToSocketAddrs;
            ("localhost", addr.port())
                .to_socket_addrs()
                .map(|mut it| it.any(|a| a.ip() == addr.ip()))
                .unwrap_or(false)
        };
        let host = if case.by_name && name_ok {
            HostAddr::dns("localhost".to_string(), addr.port())
        } else {
            HostAddr::ip(addr.ip(), addr.port())
        };
        let (channel, task) = if case.tls {
            let tls_config = rodbus::client::TlsClientConfig::full_pki(
                Some("test.com".to_string()),
                &super::c09::path("ca1", "pem"),
                &super::c09::path("client_operator", "pem"),
                &super::c09::path("client_operator", "key"),
                None,
                super::c09::min_tls(12),
            )
            .map_err(|e| format!("INFRA: TlsClientConfig failed: {}", e))?;
            rodbus::client::create_tls_client_task_with_options(
                host.clone(),
                rodbus::doubling_retry_strategy(min, max),
                tls_config,
                Some(Box::new(Gate { tx: gtx })),
                options,
            )
        } else {
            rodbus::client::create_tcp_client_task_with_options(
                host.clone(),
                rodbus::doubling_retry_strategy(min, max),
                Some(Box::new(Gate { tx: gtx })),
                options,
            )
        };
        let tls = case.tls;
        if tls {
            labels_tls = true;
        }
        let mut join = Some(tokio::spawn(task.run()));
        let mut channel: Option<Channel> = Some(channel);

        // model of the settings sent so far: true = enable, false = disable
        let mut settings: Vec<bool> = Vec::new();
        let mut processed_min: usize = 0; // smallest feasible count of processed settings
        let enabled_after = |settings: &[bool], j: usize| -> bool {
            // initial state: disabled
            if j == 0 {
                false
            } else {
                settings[j - 1]
            }
        };
        let mut end_requested = false; // shutdown sent or handles dropped
        let mut states: Vec<(ClientState, Instant)> = Vec::new();
        let mut attempt = 0usize; // connection attempts announced so far
        let mut submitted: Vec<Submitted> = Vec::new();
        let mut failed_in_a_row: u32 = 0;
        let mut last_env: Option<Env> = None;
        let mut wait_released: Option<(Duration, Instant)> = None;
        let mut gate_idx = 0usize;
        let mut idle_idx = 0usize;
        let mut labels: Vec<&'static str> = Vec::new();
        let mut seen_shutdown = false;
        let mut ended_from: Option<&'static str> = None;
        let mut delays_checked = 0;

        macro_rules! do_act {
            ($act:expr, $at_gate:expr) => {{
                match $act {
                    Act::Enable => {
                        if let Some(ch) = channel.as_ref() {
                            if !end_requested {
                                match tokio::time::timeout(bound, ch.enable()).await {
                                    Ok(Ok(())) => settings.push(true),
                                    Ok(Err(_)) => return Err("enable() reported shutdown although the task was not ended".to_string()),
                                    Err(_) => return Err("enable() did not return".to_string()),
                                }
                            }
                        }
                    }
                    Act::Disable => {
                        if let Some(ch) = channel.as_ref() {
                            if !end_requested {
                                match tokio::time::timeout(bound, ch.disable()).await {
                                    Ok(Ok(())) => settings.push(false),
                                    Ok(Err(_)) => return Err("disable() reported shutdown although the task was not ended".to_string()),
                                    Err(_) => return Err("disable() did not return".to_string()),
                                }
                            }
                        }
                    }
                    Act::Submit => {
                        if let Some(ch) = channel.as_ref() {
                            if !end_requested {
                                let gate: Option<&'static str> = $at_gate;
                                // fast NoConnection is demanded where the task's next step is to
                                // drain the queue: Disabled and Wait gates, request ahead of any
                                // enable sent at this gate
                                let pending_enable = (processed_min..settings.len()).any(|j| settings[j]);
                                // ... and while a TLS handshake is pending (the harness injects
                                // operations there only after nothing has happened for a while)
                                let in_stalled_handshake = gate.is_none()
                                    && tls
                                    && last_env == Some(Env::HandshakeStall)
                                    && states.last().map(|s| state_name(&s.0)) == Some("Connecting");
                                let fast = (matches!(gate, Some("Disabled") | Some("WaitAfterFailedConnect") | Some("WaitAfterDisconnect"))
                                    || in_stalled_handshake)
                                    && !pending_enable;
                                if in_stalled_handshake {
                                    labels.push("request_during_stalled_handshake");
                                }
                                // a long response timeout only where the request must fail at once
                                // with NoConnection; a shutdown queues behind an outstanding
                                // request, so everything else uses a short one
                                let timeout = if fast { Duration::from_secs(30) } else { Duration::from_millis(60) };
                                let ch2 = ch.clone();
                                let (tx, rx) = oneshot::channel();
                                let t0 = Instant::now();
                                tokio::spawn(async move {
                                    let r = ch2
                                        .read_holding_registers(
                                            RequestParam::new(UnitId::new(1), timeout),
                                            AddressRange::try_from(0, 1).unwrap(),
                                        )
                                        .await;
                                    let _ = tx.send((r.map(|_| ()), Instant::now()));
                                });
                                // make sure the request is in the queue before anything else is sent
                                tokio::task::yield_now().await;
                                tokio::time::sleep(Duration::from_millis(2)).await;
                                submitted.push(Submitted {
                                    at_gate: gate,
                                    expect_fast_no_connection: fast,
                                    submitted: t0,
                                    rx,
                                });
                            }
                        }
                    }
                    Act::Shutdown => {
                        if let Some(ch) = channel.as_ref() {
                            if !end_requested {
                                let _ = tokio::time::timeout(bound, ch.shutdown()).await;
                                end_requested = true;
                                ended_from = states.last().map(|s| state_name(&s.0));
                            }
                        }
                    }
                    Act::DropHandles => {
                        if !end_requested {
                            channel = None;
                            end_requested = true;
                            ended_from = states.last().map(|s| state_name(&s.0));
                        }
                    }
                }
            }};
        }

        let started = Instant::now();
        loop {
            if started.elapsed() > Duration::from_secs(20 * slow as u64) {
                return Err("INFRA: case ran for more than 20 s".to_string());
            }
            let next = tokio::time::timeout(gate_wait, grx.recv()).await;
            match next {
                Ok(Some((state, release))) => {
                    let now = Instant::now();
                    let name = state_name(&state);
                    let prev = states.last().map(|s| s.0);
                    // ---- legality of the transition
                    if states.is_empty() && state != ClientState::Disabled {
                        return Err(format!("first state is {:?}, must be Disabled", state));
                    }
                    if seen_shutdown {
                        return Err(format!("state {:?} reported after Shutdown", state));
                    }
                    if let Some(p) = prev {
                        let legal = match (state_name(&p), name) {
                            ("Disabled", "Connecting") | ("Disabled", "Shutdown") => true,
                            ("Connecting", "Connected")
                            | ("Connecting", "WaitAfterFailedConnect")
                            | ("Connecting", "Disabled")
                            | ("Connecting", "Shutdown") => true,
                            ("Connected", "WaitAfterDisconnect") | ("Connected", "Disabled") | ("Connected", "Shutdown") => true,
                            ("WaitAfterFailedConnect", "Connecting")
                            | ("WaitAfterFailedConnect", "Disabled")
                            | ("WaitAfterFailedConnect", "Shutdown") => true,
                            ("WaitAfterDisconnect", "Connecting")
                            | ("WaitAfterDisconnect", "Disabled")
                            | ("WaitAfterDisconnect", "Shutdown") => true,
                            _ => false,
                        };
                        if !legal {
                            return Err(format!(
                                "illegal state path: {} directly after {} (path so far {:?})",
                                name,
                                state_name(&p),
                                states.iter().map(|s| state_name(&s.0)).collect::<Vec<_>>()
                            ));
                        }
                    }
                    // ---- enabled / disabled consistency with the settings sent so far
                    match name {
                        "Shutdown" => {
                            if !end_requested {
                                return Err("Shutdown reported although neither shutdown was requested nor the handles dropped".to_string());
                            }
                            seen_shutdown = true;
                        }
                        "Disabled" if states.is_empty() => {}
                        _ => {
                            let want = name != "Disabled";
                            // a Disabled after the first one needs a disable to have been processed
                            let lo = if name == "Disabled" { processed_min.max(1) } else { processed_min };
                            let feasible = (lo..=settings.len()).find(|j| enabled_after(&settings, *j) == want && (name != "Disabled" || *j >= 1));
                            match feasible {
                                Some(j) => processed_min = j,
                                None => {
                                    return Err(format!(
                                        "state {} is not consistent with the settings sent so far {:?} (at least {} already processed): {}",
                                        name,
                                        settings,
                                        processed_min,
                                        if want { "the channel was not enabled" } else { "no disable was pending" }
                                    ))
                                }
                            }
                        }
                    }
                    // ---- environment-specific expectations
                    let disable_possible = (processed_min..settings.len()).any(|j| !settings[j]) || name == "Disabled";
                    if let (Some(p), Some(env)) = (prev, last_env) {
                        match (state_name(&p), env) {
                            ("Connecting", Env::HandshakeStall) if tls => {
                                if name == "Connected" {
                                    return Err("Connected reported although the TLS handshake never completed".to_string());
                                }
                                labels.push("left_a_stalled_handshake");
                            }
                            ("Connecting", Env::Refused) | ("Connecting", Env::BadCert) => {
                                if !(name == "WaitAfterFailedConnect" || (name == "Disabled" && disable_possible) || name == "Shutdown") {
                                    return Err(format!("connection refused, but the next state is {} instead of a wait", name));
                                }
                            }
                            ("Connecting", _) => {
                                if !(name == "Connected" || (name == "Disabled" && disable_possible) || name == "Shutdown") {
                                    return Err(format!("connection accepted, but the next state is {}", name));
                                }
                            }
                            _ => {}
                        }
                    }
                    // ---- a disable closes the open connection
                    if name == "Disabled" && prev.map(|p| state_name(&p)) == Some("Connected") {
                        let t0 = Instant::now();
                        let limit = Duration::from_millis(1000 * slow as u64);
                        while closed.load(Ordering::SeqCst) < accepts.load(Ordering::SeqCst) && t0.elapsed() < limit {
                            tokio::time::sleep(Duration::from_millis(5)).await;
                        }
                        if closed.load(Ordering::SeqCst) < accepts.load(Ordering::SeqCst) {
                            return Err(format!(
                                "Disabled reported after Connected, but the peer still has an open connection {:?} later ({} accepted, {} ended)",
                                limit,
                                accepts.load(Ordering::SeqCst),
                                closed.load(Ordering::SeqCst)
                            ));
                        }
                        labels.push("disable_closed_the_connection");
                    }
                    // ---- C14-b: announced delays follow the strategy, and are really waited
                    match state {
                        ClientState::Connected => failed_in_a_row = 0,
                        ClientState::WaitAfterFailedConnect(d) => {
                            failed_in_a_row += 1;
                            let expect = std::cmp::min(min * 2u32.pow(failed_in_a_row.min(16) - 1), max);
                            if facet == Facet::Delays && d != expect {
                                return Err(format!(
                                    "failed connect no. {} in a row: announced wait {:?}, the strategy (min {:?}, max {:?}) says {:?}",
                                    failed_in_a_row, d, min, max, expect
                                ));
                            }
                            delays_checked += 1;
                        }
                        ClientState::WaitAfterDisconnect(d) => {
                            if facet == Facet::Delays && d != min {
                                return Err(format!("lost connection: announced wait {:?}, expected min {:?}", d, min));
                            }
                            delays_checked += 1;
                        }
                        ClientState::Connecting => {
                            if let Some((d, released)) = wait_released.take() {
                                let gap = now.duration_since(released);
                                if facet == Facet::Delays && gap + Duration::from_millis(1) < d {
                                    return Err(format!(
                                        "next connection attempt started {:?} after the wait of {:?} was announced",
                                        gap, d
                                    ));
                                }
                            }
                        }
                        _ => {}
                    }
                    if name != "Connecting" {
                        wait_released = None;
                    }
                    // ---- stray connection attempts (while disabled / without a Connecting notification)
                    if accepts.load(Ordering::SeqCst) > attempt {
                        return Err(format!(
                            "{} connections reached the listener but only {} attempts were announced with Connecting (state now {})",
                            accepts.load(Ordering::SeqCst),
                            attempt,
                            name
                        ));
                    }
                    states.push((state, now));
                    // ---- set up the environment for the attempt that follows a Connecting gate
                    if name == "Connecting" {
                        let env = *case.envs.get(attempt).unwrap_or(case.envs.last().unwrap());
                        attempt += 1;
                        last_env = Some(env);
                        if let Some(a) = acceptor.take() {
                            a.abort();
                            let _ = a.await;
                        }
                        if env != Env::Refused && (tls || env != Env::BadCert) {
                            let l = match TcpListener::bind(addr).await {
                                Ok(l) => l,
                                Err(e) => return Err(format!("INFRA: rebind {}", e)),
                            };
                            let acc = accepts.clone();
                            let closed_outer = closed.clone();
                            acceptor = Some(tokio::spawn(async move {
                                loop {
                                    let (tcp, _) = match l.accept().await {
                                        Ok(x) => x,
                                        Err(_) => return,
                                    };
                                    acc.fetch_add(1, Ordering::SeqCst);
                                    let closed = closed_outer.clone();
                                    tokio::spawn(async move {
                                        // whatever way this task ends, the connection is over
                                        struct Over(Arc<AtomicUsize>);
                                        impl Drop for Over {
                                            fn drop(&mut self) {
                                                self.0.fetch_add(1, Ordering::SeqCst);
                                            }
                                        }
                                        let _over = Over(closed);
                                        if tls && env == Env::HandshakeStall {
                                            // hold the connection open without a single byte
                                            let mut tcp = tcp;
                                            let mut b = [0u8; 64];
                                            loop {
                                                match tcp.read(&mut b).await {
                                                    Ok(0) | Err(_) => return,
                                                    Ok(_) => {}
                                                }
                                            }
                                        }
                                        let mut s: Link = if tls {
                                            let cert = if env == Env::BadCert { "server_ca2" } else { "server_ok" };
                                            let acceptor = tokio_rustls::TlsAcceptor::from(super::c09::peer_server_config(super::c09::Offer::Both, cert));
                                            match acceptor.accept(tcp).await {
                                                Ok(t) => Box::new(t),
                                                Err(_) => return,
                                            }
                                        } else {
                                            Box::new(tcp)
                                        };
                                        match env {
                                            Env::AcceptClose => {
                                                tokio::time::sleep(Duration::from_millis(5)).await;
                                                drop(s)
                                            }
                                            Env::AcceptGarbage => {
                                                tokio::time::sleep(Duration::from_millis(5)).await;
                                                let _ = s.write_all(&[0, 0, 0x77, 0x77, 0, 2, 1, 3]).await;
                                                tokio::time::sleep(Duration::from_millis(300)).await;
                                            }
                                            Env::AcceptSilent | Env::HandshakeStall => {
                                                let mut b = [0u8; 256];
                                                while let Ok(n) = s.read(&mut b).await {
                                                    if n == 0 {
                                                        break;
                                                    }
                                                }
                                            }
                                            Env::Served | Env::Refused | Env::BadCert => {
                                                let mut b = [0u8; 512];
                                                let mut acc: Vec<u8> = Vec::new();
                                                loop {
                                                    let n = match s.read(&mut b).await {
                                                        Ok(0) | Err(_) => break,
                                                        Ok(n) => n,
                                                    };
                                                    acc.extend_from_slice(&b[..n]);
                                                    let (frames, _) = deframe_mbap(&acc);
                                                    let mut used = 0;
                                                    for f in frames {
                                                        used += 7 + f.pdu.len();
                                                        let reply = mbap_frame(f.tx, f.unit, &[3, 2, 0x12, 0x34]);
                                                        if s.write_all(&reply).await.is_err() {
                                                            return;
                                                        }
                                                    }
                                                    acc.drain(..used);
                                                }
                                            }
                                        }
                                    });
                                }
                            }));
                        }
                    }
                    // ---- inject the operations of this gate
                    let acts = match case.gates.get(gate_idx) {
                        Some(a) => a.clone(),
                        None => {
                            // the script is over but the task keeps cycling: continue with the
                            // idle operations, then end the task from wherever it is
                            if let Some(a) = case.idle.get(idle_idx).copied() {
                                idle_idx += 1;
                                vec![a]
                            } else if case.end_by_drop {
                                vec![Act::DropHandles]
                            } else {
                                vec![Act::Shutdown]
                            }
                        }
                    };
                    gate_idx += 1;
                    for a in acts {
                        do_act!(a, Some(name));
                    }
                    if let ClientState::WaitAfterFailedConnect(d) | ClientState::WaitAfterDisconnect(d) = state {
                        wait_released = Some((d, Instant::now()));
                    }
                    let _ = release.send(());
                    if seen_shutdown {
                        break;
                    }
                }
                Ok(None) => break, // listener dropped: task is gone
                Err(_) => {
                    // nothing has happened for a while: if the last thing the task was told is
                    // "disable", it must have said Disabled by now
                    if !end_requested && settings.last() == Some(&false) {
                        let last = states.last().map(|s| state_name(&s.0));
                        if last.is_some() && last != Some("Disabled") {
                            return Err(format!(
                                "disable() was the last setting sent and nothing else is pending, but {:?} after it the listener has not been told Disabled (last state {})",
                                gate_wait,
                                last.unwrap_or("?")
                            ));
                        }
                    }
                    // nothing happens: inject an idle operation, or end the script
                    if end_requested {
                        return Err(format!(
                            "task did not report Shutdown within {:?} after shutdown / dropping all handles (last state {:?})",
                            gate_wait,
                            states.last().map(|s| s.0)
                        ));
                    }
                    if let Some(a) = case.idle.get(idle_idx).copied() {
                        idle_idx += 1;
                        do_act!(a, None::<&'static str>);
                    } else if case.end_by_drop {
                        do_act!(Act::DropHandles, None::<&'static str>);
                    } else {
                        do_act!(Act::Shutdown, None::<&'static str>);
                    }
                }
            }
        }
        // ---- after the end
        if !seen_shutdown {
            return Err("the listener never saw Shutdown".to_string());
        }
        if let Some(j) = join.take() {
            if tokio::time::timeout(bound, j).await.is_err() {
                return Err("the task's JoinHandle did not resolve after Shutdown was reported".to_string());
            }
        }
        if let Some(ch) = channel.as_ref() {
            match tokio::time::timeout(bound, ch.enable()).await {
                Ok(Err(_)) => {}
                other => return Err(format!("enable() on a handle after shutdown gave {:?}, expected the shutdown error", other.map(|r| r.is_ok()))),
            }
            let r = tokio::time::timeout(
                bound,
                ch.read_holding_registers(
                    RequestParam::new(UnitId::new(1), Duration::from_secs(30)),
                    AddressRange::try_from(0, 1).unwrap(),
                ),
            )
            .await;
            match r {
                Ok(Err(RequestError::Shutdown)) => {}
                other => return Err(format!("request on a handle after shutdown gave {:?}, expected Shutdown", other)),
            }
        }
        // ---- every submitted request completed; fast NoConnection where demanded
        for (i, s) in submitted.into_iter().enumerate() {
            match tokio::time::timeout(bound, s.rx).await {
                Ok(Ok((res, at))) => {
                    if s.expect_fast_no_connection {
                        labels.push("fast_no_connection_checked");
                        let took = at.duration_since(s.submitted);
                        match res {
                            Err(RequestError::NoConnection) => {
                                if took > bound {
                                    return Err(format!(
                                        "request {} submitted while not connected (gate {:?}) failed only after {:?}",
                                        i, s.at_gate, took
                                    ));
                                }
                            }
                            Err(RequestError::Shutdown) if end_requested => {}
                            other => {
                                return Err(format!(
                                    "request {} submitted while not connected (gate {:?}) must fail with NoConnection, got {:?} after {:?}",
                                    i, s.at_gate, other, took
                                ))
                            }
                        }
                    }
                }
                _ => return Err(format!("request {} (submitted at gate {:?}) never completed", i, s.at_gate)),
            }
        }
        if let Some(a) = acceptor.take() {
            a.abort();
        }
        let mut ok = CaseOk::new();
        let mut distinct: Vec<&'static str> = states.iter().map(|s| state_name(&s.0)).collect();
        distinct.sort();
        distinct.dedup();
        for l in labels {
            ok.label(l);
        }
        match ended_from {
            Some("Disabled") => ok.label("end_from:Disabled"),
            Some("Connecting") => ok.label("end_from:Connecting"),
            Some("Connected") => ok.label("end_from:Connected"),
            Some("WaitAfterFailedConnect") => ok.label("end_from:WaitAfterFailedConnect"),
            Some("WaitAfterDisconnect") => ok.label("end_from:WaitAfterDisconnect"),
            _ => {}
        }
        if delays_checked >= 2 {
            ok.label("delays>=2");
        }
        if labels_tls {
            ok.label("tls_client");
        }
        if case.by_name && name_ok {
            ok.label("host_by_name");
        }
        if failed_in_a_row >= 2 || states.iter().filter(|s| matches!(s.0, ClientState::WaitAfterFailedConnect(_))).count() >= 2 {
            ok.label("doubling_observed");
        }
        ok.nontrivial = match facet {
            Facet::Lifecycle => distinct.len() >= 4 && ended_from != Some("Disabled"),
            Facet::Delays => delays_checked >= 2,
        };
        Ok(ok)
    })
}

/// Scripts for C14-b: mostly failing / short-lived connections, few interfering operations, so
/// that several announced delays are observed per script
pub fn arb_c14b() -> BoxedStrategy<C13Case> {
    let env = prop_oneof![
        5 => Just(Env::Refused),
        3 => Just(Env::AcceptClose),
        1 => Just(Env::AcceptGarbage),
        2 => Just(Env::BadCert),
    ];
    let gate = prop_oneof![
        12 => Just(Vec::new()),
        1 => Just(vec![Act::Submit]),
        1 => Just(vec![Act::Disable, Act::Enable]),
    ];
    (prop::bool::weighted(0.35), 20u16..35, 1u16..=4, vec(env, 3..8), vec(gate, 6..16), any::<bool>())
        .prop_map(|(tls, min_ms, mult, envs, mut gates, end_by_drop)| {
            gates[0] = vec![Act::Enable];
            C13Case {
                min_ms,
                max_ms: min_ms * mult,
                max_timeouts: None,
                envs,
                gates,
                idle: vec![],
                end_by_drop,
                tls,
                by_name: false,
            }
        })
        .boxed()
}
