//! Reference model of the client's request/response matching: one request outstanding,
//! transaction ids counting up from 0, replies matched by transaction id (MBAP) or by position
//! (RTU), per-request deadlines, consecutive-timeout limit.

use std::time::Duration;

use super::pdu::{classify_reply, ReplyClass, ValidReq};

#[derive(Clone, Debug)]
pub struct ModelRequest {
    pub req: ValidReq,
    pub timeout: Duration,
    /// when the request entered the queue
    pub submitted: Duration,
}

/// A complete frame the peer put on the stream, in stream order
#[derive(Clone, Debug)]
pub struct StreamFrame {
    /// instant at which its last byte becomes readable
    pub arrival: Duration,
    pub tx: Option<u16>,
    pub pdu: Vec<u8>,
}

#[derive(Clone, Debug, PartialEq, Eq)]
pub enum Expect {
    /// judged by the reply classifier
    Reply(ReplyClass),
    Timeout,
    /// the session had ended (consecutive-timeout limit) before the request was taken
    NoConnection,
}

#[derive(Clone, Debug)]
pub struct Predicted {
    /// when the request is transmitted (None if never)
    pub written: Option<Duration>,
    pub tx: Option<u16>,
    pub completed: Duration,
    pub expect: Expect,
}

#[derive(Clone, Debug)]
pub struct Prediction {
    pub per_request: Vec<Predicted>,
    /// Some(time) if the consecutive-timeout limit ends the session
    pub session_end: Option<Duration>,
    /// an ordering the statement leaves open was hit (two events at the same instant): not judged
    pub tie: bool,
}

/// `mbap`: replies are matched by transaction id; otherwise the next complete frame is the reply.
/// `write_times`: the instants at which the implementation transmitted the requests (the peer
/// schedules its frames relative to those, so the stream is given in absolute time).
pub fn predict(
    mbap: bool,
    requests: &[ModelRequest],
    stream: &[StreamFrame],
    max_timeouts: Option<usize>,
) -> Prediction {
    let mut out = Vec::new();
    let mut t = Duration::ZERO;
    let mut next_frame = 0usize;
    let mut counter = 0usize;
    let mut tie = false;
    let mut session_end = None;
    for (k, r) in requests.iter().enumerate() {
        if let Some(end) = session_end {
            out.push(Predicted {
                written: None,
                tx: None,
                completed: std::cmp::max(end, r.submitted),
                expect: Expect::NoConnection,
            });
            continue;
        }
        let w = std::cmp::max(t, r.submitted);
        let tx = (k % 65536) as u16;
        let deadline = w + r.timeout;
        // frames that arrived before the request was written were dropped while idle (or
        // skipped while an earlier request was outstanding)
        while next_frame < stream.len() && stream[next_frame].arrival < w {
            next_frame += 1;
        }
        let mut result = None;
        while next_frame < stream.len() {
            let f = &stream[next_frame];
            if f.arrival == w || f.arrival == deadline {
                tie = true;
            }
            if f.arrival >= deadline {
                break;
            }
            next_frame += 1;
            if mbap && f.tx != Some(tx) {
                continue;
            }
            result = Some((f.arrival, classify_reply(&r.req, &f.pdu)));
            break;
        }
        match result {
            Some((at, class)) => {
                counter = 0;
                t = at;
                out.push(Predicted {
                    written: Some(w),
                    tx: Some(tx),
                    completed: at,
                    expect: Expect::Reply(class),
                });
            }
            None => {
                t = deadline;
                counter += 1;
                out.push(Predicted {
                    written: Some(w),
                    tx: Some(tx),
                    completed: deadline,
                    expect: Expect::Timeout,
                });
                if let Some(n) = max_timeouts {
                    if counter >= n {
                        session_end = Some(deadline);
                    }
                }
            }
        }
    }
    Prediction {
        per_request: out,
        session_end,
        tie,
    }
}
