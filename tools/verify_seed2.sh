#!/bin/sh
# tools/verify_seed2.sh <ID-with-suffix> <demo dir relative to worktree> <cargo package> [features]
ID=$1; DEMODIR=$2; PKG=$3; FEAT=$4
WT=/tmp/wt/$ID; OUT=/tmp/seed_out/$ID
cd $WT || exit 2
git checkout -q -- . ; rm -rf $DEMODIR/seed_demo.rs
mkdir -p $DEMODIR; cp $OUT/seed_demo.rs $DEMODIR/seed_demo.rs
echo "== demo WITHOUT patch"; cargo test -p $PKG $FEAT --test seed_demo --offline 2>&1 | grep -E "^test result" | tail -2
git apply $OUT/patch.diff || { echo "patch does not apply"; exit 1; }
echo "== demo WITH patch"; cargo test -p $PKG $FEAT --test seed_demo --offline 2>&1 | grep -E "^test result" | tail -2
rm -f $DEMODIR/seed_demo.rs; rmdir $DEMODIR 2>/dev/null
echo "== baseline suite WITH patch"; cargo test --workspace --offline 2>&1 | grep -E "^test result" | awk '{p+=$4; f+=$6} END {print "passed",p,"failed",f}'
git checkout -q -- . ; git status --short
