pub mod cli;
pub mod decode;
pub mod framing;
pub mod once;
pub mod pure;
pub mod robust;
pub mod srv;

use crate::runner::*;

const SIM_ASSUMPTIONS_SRV: &[&str] = &[
    "the production SessionTask / FrameWriter / FramedReader are constructed by rodbus::verif::server_session exactly as tcp/server.rs and server/mod.rs do; the in-memory transport replaces the socket only",
    "requests are delivered one frame per read and the session is allowed to go idle between frames (chunked and coalesced delivery is decided by C05/C06)",
    "the reference server (harness/src/model) is written from the Modbus Application Protocol v1.1b3 and shares no code with rodbus; the application (point tables, exception maps) is harness code used by both sides",
    "FC15/16 requests whose total length matches the quantity but whose byte-count field differs are a don't-care class on MBAP (counted, either outcome accepted)",
];

pub fn property(id: &str) -> Option<Property> {
    Some(match id {
        "C01" => Property {
            id: "C01",
            level: "exploration",
            rule: "proptest-generated sessions: config (framing MBAP/RTU, 0..4 units with sparse tables and per-address exception maps, any decode level) x 1..12 requests from the structure-aware PDU generator (valid, single-field mutations, all 256 function codes with random bodies, empty), arbitrary tx/unit ids; oracle = byte-exact reply stream of the reference server. Non-trivial = a session containing an exception-raising read, a malformed/over-limit/unsupported request, a successful write followed by a read of the same point, and two distinct unit ids; distinct by SipHash of the whole case.",
            assumptions: SIM_ASSUMPTIONS_SRV,
            searches: vec![Box::new(Search {
                name: "c01_sessions",
                rule: "see property rule",
                quick: 120_000,
                thorough: 3_000_000,
                strategy: srv::arb_srv_case,
                check: srv::check_c01,
                floors: &[
                    ("framing:rtu", 0.30),
                    ("fc:01", 0.05),
                    ("fc:02", 0.05),
                    ("fc:03", 0.05),
                    ("fc:04", 0.05),
                    ("fc:05", 0.05),
                    ("fc:06", 0.05),
                    ("fc:15", 0.05),
                    ("fc:16", 0.05),
                    ("invalid:wrong_length", 0.02),
                    ("invalid:zero_count", 0.02),
                    ("invalid:address_overflow", 0.02),
                    ("invalid:over_limit", 0.02),
                    ("invalid:bad_coil_value", 0.02),
                    ("class:unsupported_fc", 0.02),
                    ("range:ends_at_65535", 0.02),
                    ("read:exception", 0.05),
                ],
                known: &[],
                hang_secs: 60,
                max_threads: 64,
            })],
            hang: HangPolicy::Inconclusive,
        },
        "C02" => Property {
            id: "C02",
            level: "exploration",
            rule: "same generated sessions as C01 (own seed stream), oracle = ordered log of RequestHandler calls kept by an instrumented handler vs. the reference server's expected calls (exact for writes incl. collected iterator contents and len(), containment for reads), zero calls for every rejected input, and final application state equal to the reference's. Non-trivial = session with an accepted multi-point write (>=9 coils or >=2 registers) and at least one rejected request; distinct by hash of the case.",
            assumptions: SIM_ASSUMPTIONS_SRV,
            searches: vec![
                Box::new(Search {
                    name: "c02_sessions",
                    rule: "see property rule",
                    quick: 120_000,
                    thorough: 3_000_000,
                    strategy: srv::arb_srv_case,
                    check: srv::check_c02,
                    floors: &[("write:ok", 0.10), ("class:invalid", 0.10), ("nt:multi_write_accepted", 0.03)],
                    known: &[],
                    hang_secs: 60,
                    max_threads: 64,
                }),
                Box::new(Search {
                    name: "c02_sessions_auth",
                    rule: "sessions with an authorization policy (C08 generator): denied requests cause no handler call and no state change",
                    quick: 40_000,
                    thorough: 1_000_000,
                    strategy: srv::arb_auth_case,
                    check: srv::check_c02,
                    floors: &[("auth:deny", 0.10)],
                    known: &[],
                    hang_secs: 60,
                    max_threads: 64,
                }),
            ],
            hang: HangPolicy::Inconclusive,
        },
        "C05" => Property {
            id: "C05",
            level: "exploration",
            rule: "proptest: MBAP byte streams (1..24 request frames up to the 253-byte PDU maximum, distinct transaction ids, optionally a malformed header [protocol id != 0, length 0, length > 254] followed by frames that must never be interpreted) x 6..8 partitions per stream (whole, byte-per-byte, fixed sizes around 260/520, random cuts, cuts placed inside headers and bodies, first read filling the buffer exactly), server role; and client role: 1..6 queued requests whose reply streams (stale-id frames, genuine/exception reply or malformed header) are cut by 4..6 partitions. Oracle: metamorphic (every partition gives the same reply bytes, handler calls, state, results, completion instants and end reason) plus the reference: the one-frame-per-read run is judged by the reference server (C01/C02 oracles), the session ends with a framing error exactly at a malformed header. Non-trivial = stream of >=3 frames and >260 bytes with a partition cutting inside a header and inside a body (server) / >=2 requests with stale frames under a non-trivial partition (client).",
            assumptions: SIM_ASSUMPTIONS_SRV,
            searches: vec![
                Box::new(Search {
                    name: "c05_server_streams",
                    rule: "see property rule (server role)",
                    quick: 12_000,
                    thorough: 300_000,
                    strategy: framing::arb_c05_srv,
                    check: framing::check_c05_srv,
                    floors: &[("bad_header", 0.25), ("cut:inside_header", 0.60), ("cut:inside_body", 0.60), ("read:at_buffer_capacity", 0.30), ("stream:over_260", 0.40)],
                    known: &[],
                    hang_secs: 120,
                    max_threads: 64,
                }),
                Box::new(Search {
                    name: "c05_client_streams",
                    rule: "see property rule (client role)",
                    quick: 12_000,
                    thorough: 300_000,
                    strategy: c05_cli_strategy,
                    check: framing::check_chunk_cli,
                    floors: &[("stale_frames", 0.40), ("bad_header", 0.10)],
                    known: &[],
                    hang_secs: 120,
                    max_threads: 64,
                }),
            ],
            hang: HangPolicy::Inconclusive,
        },
        "C06" => Property {
            id: "C06",
            level: "fault_enumeration",
            rule: "(a) emission: every frame written by generated RTU server sessions and RTU client requests must be one frame for the reference deframer, <=256 bytes, trailer = bitwise CRC-16/MODBUS low byte first. (b) acceptance: a valid request (server) / reply (client) frame delivered alone with one corruption: EVERY single-bit flip of the frame, every 2-bit pair for frames <=16 bytes, sampled 2..4-bit flips, bursts of 2..16 bits (first and last bit set) at sampled positions, swapped CRC bytes, one wrong CRC byte. Oracle: differential against the reference RTU deframer with an independent CRC: unless the reference finds a frame whose CRC verifies, no handler call, no byte written, no Ok/exception result. (c) chunking: RTU request streams under 5..7 partitions give identical replies/calls/state. Non-trivial = a frame whose uncorrupted form is acted on and has length-preserving corruptions.",
            assumptions: SIM_ASSUMPTIONS_SRV,
            searches: vec![
                Box::new(Search {
                    name: "c06_emit_server",
                    rule: "emission, server role",
                    quick: 40_000,
                    thorough: 1_000_000,
                    strategy: srv::arb_srv_case_rtu,
                    check: framing::check_c06_emit_srv,
                    floors: &[],
                    known: &[],
                    hang_secs: 120,
                    max_threads: 64,
                }),
                Box::new(Search {
                    name: "c06_corrupt_server",
                    rule: "acceptance under corruption, server role (each case = one frame x all single-bit flips + pairs/bursts)",
                    quick: 1_500,
                    thorough: 40_000,
                    strategy: framing::arb_c06_srv,
                    check: framing::check_c06_srv,
                    floors: &[("baseline:acts", 0.50), ("pairs:exhaustive", 0.30)],
                    known: &[],
                    hang_secs: 300,
                    max_threads: 64,
                }),
                Box::new(Search {
                    name: "c06_corrupt_client",
                    rule: "emission of requests + acceptance of corrupted replies, client role",
                    quick: 1_500,
                    thorough: 40_000,
                    strategy: framing::arb_c06_cli,
                    check: framing::check_c06_cli,
                    floors: &[("single_bit:exhaustive", 0.40)],
                    known: &[],
                    hang_secs: 300,
                    max_threads: 64,
                }),
                Box::new(Search {
                    name: "c06_chunking_server",
                    rule: "RTU request streams under several partitions",
                    quick: 8_000,
                    thorough: 200_000,
                    strategy: framing::arb_c06_chunk,
                    check: framing::check_c06_chunk,
                    floors: &[],
                    known: &[],
                    hang_secs: 120,
                    max_threads: 64,
                }),
                Box::new(Search {
                    name: "c06_chunking_client",
                    rule: "RTU reply streams (incl. corrupted replies) under several partitions",
                    quick: 8_000,
                    thorough: 200_000,
                    strategy: c06_cli_strategy,
                    check: framing::check_chunk_cli,
                    floors: &[],
                    known: &[],
                    hang_secs: 120,
                    max_threads: 64,
                }),
            ],
            hang: HangPolicy::Inconclusive,
        },
        "C07" => Property {
            id: "C07",
            level: "exploration",
            rule: "proptest: {server, client} x {MBAP, RTU} x all 36 decode levels (formatting subscriber installed so Display/Loggable re-parsing runs) x byte streams built by grammar-aware mutation of valid traffic (bit flips, overwrites, truncation, duplication, insertion, deletion, 0xFF/0x00 runs) or raw random bytes, random chunking, read errors / EOF / parked endings, failing writes; client with 0..5 requests in flight or idle. Built with overflow checks and debug assertions. Oracle: no panic (catch_unwind), poll budget 64 x (input bytes + operations) + 4096 on the session/task future (deterministic stand-in for 'spins without progress'), a wall-clock watchdog for in-poll loops (confirmed by re-run), session ended with an error or parked and then ends on shutdown, handle keeps answering, every client request completes exactly once, task ends when handles are dropped. Non-trivial = a frame passed framing and reached PDU handling with a decode level other than nothing.",
            assumptions: SIM_ASSUMPTIONS_SRV,
            searches: vec![
                Box::new(Search {
                    name: "c07_server_streams",
                    rule: "server role",
                    quick: 200_000,
                    thorough: 5_000_000,
                    strategy: robust::arb_c07_srv,
                    check: robust::check_c07_srv,
                    floors: &[("reached_pdu", 0.40), ("decode:on", 0.80), ("end:parked", 0.10), ("framing:rtu", 0.30)],
                    known: &[],
                    hang_secs: 30,
                    max_threads: 64,
                }),
                Box::new(Search {
                    name: "c07_client_streams",
                    rule: "client role",
                    quick: 150_000,
                    thorough: 4_000_000,
                    strategy: robust::arb_c07_cli,
                    check: robust::check_c07_cli,
                    floors: &[("reached_pdu", 0.30), ("decode:on", 0.80), ("framing:rtu", 0.30)],
                    known: &[],
                    hang_secs: 30,
                    max_threads: 64,
                }),
            ],
            hang: HangPolicy::Violation,
        },
        "C08" => Property {
            id: "C08",
            level: "exploration",
            rule: "proptest-generated MBAP sessions on a server built with an authorization handler: generated policy (hash table, structured rules, per-call sequences, the built-in read-only handler) x any Unicode role x 1..10 requests (+ repeats of the same request). Oracle = interleaved log of authorization and handler calls and reply bytes vs. the reference 'authorize-then-dispatch' model, plus a differential re-run of the allowed sub-history without authorization. Non-trivial = session with at least one allowed and one denied well-formed request; distinct by hash.",
            assumptions: SIM_ASSUMPTIONS_SRV,
            searches: vec![Box::new(Search {
                name: "c08_sessions",
                rule: "see property rule",
                quick: 80_000,
                thorough: 2_000_000,
                strategy: srv::arb_auth_case,
                check: srv::check_c08,
                floors: &[("auth:deny", 0.15), ("auth:allow", 0.15), ("nt:allow_deny_allow", 0.01)],
                known: &[],
                hang_secs: 60,
                max_threads: 64,
            })],
            hang: HangPolicy::Inconclusive,
        },
        "C15" => Property {
            id: "C15",
            level: "exploration",
            rule: "proptest histories of 3..24 operations over {connect, client close, request on connection i, malformed header on connection i, request sent in two pieces, set decode level, shutdown, drop handle} against the real TCP server task (create_tcp_server_task on a loopback listener) with max_sessions in 0..4. After every operation every connection ever made is probed: connections the FIFO-eviction model says are live must answer a sentinel request, all others must reach EOF/reset; after shutdown/drop everything must be closed and the task must end. Real time: a failing history is re-run twice with 2x and 4x settling times and only reported if it fails three times. Non-trivial = history with >=2 evictions and a malformed header sent while >=2 sessions were live.",
            assumptions: NET_ASSUMPTIONS,
            searches: vec![Box::new(Search {
                name: "c15_histories",
                rule: "see property rule",
                quick: 400,
                thorough: 6_000,
                strategy: crate::net::c15::arb_c15,
                check: crate::net::c15::check_c15,
                floors: &[("eviction", 0.40), ("evictions>=2", 0.20), ("garbage_with_2_live", 0.15), ("ended_by_shutdown_or_drop", 0.30)],
                known: &[],
                hang_secs: 120,
                max_threads: 8,
            })],
            hang: HangPolicy::Inconclusive,
        },
        "C17" => Property {
            id: "C17",
            level: "exploration",
            rule: "proptest-generated sessions with the unit dimension opened up: unit id of every request over 0..255 (biased to configured ids, their neighbours and 0), handler maps of 0..4 units, requests valid / failing in the handler / malformed / over-limit, RTU (75%) and MBAP. Oracle = reference multi-drop rules: nothing written for unconfigured addresses whatever the content; RTU address 0 + write => exactly one call on every configured unit and nothing written; address 0 + read or malformed => nothing. Non-trivial = session with a broadcast write reaching >=2 units or a malformed/unsupported request to an unconfigured unit.",
            assumptions: SIM_ASSUMPTIONS_SRV,
            searches: vec![Box::new(Search {
                name: "c17_sessions",
                rule: "see property rule",
                quick: 120_000,
                thorough: 3_000_000,
                strategy: srv::arb_multidrop_case,
                check: srv::check_c17,
                floors: &[("broadcast", 0.10), ("unit:unconfigured", 0.20), ("broadcast:write", 0.03), ("nt:malformed_to_unconfigured", 0.05)],
                known: &[],
                hang_secs: 60,
                max_threads: 64,
            })],
            hang: HangPolicy::Inconclusive,
        },
        "C03" => Property {
            id: "C03",
            level: "exploration",
            rule: "proptest-generated client sessions (MBAP and RTU): 1..6 requests of all eight kinds, arguments built only through the public constructors, (start,count) from a lattice around every protocol limit and around 65535/65536 plus random, value vectors up to 70000 elements, three submission styles (future, CallbackSession, FfiChannel), all unit ids; the peer answers genuinely. Oracle = reference encoder: accepted iff count>=1, start+count<=65536, count<=2000/125/1968/123; accept => exactly one frame equal to the reference encoding (<=260/256 bytes), reject => an error and zero bytes on the wire. Plus the AddressRange constructor grid. Non-trivial = request with count within 2 of its limit or range ending at 65535/65536; distinct by hash.",
            assumptions: SIM_ASSUMPTIONS_CLI,
            searches: vec![
                Box::new(Search {
                    name: "c03_requests",
                    rule: "see property rule",
                    quick: 60_000,
                    thorough: 1_500_000,
                    strategy: cli::arb_c03,
                    check: cli::check_c03,
                    floors: &[("near_limit", 0.30), ("model:reject", 0.20), ("model:accept", 0.50), ("framing:rtu", 0.30)],
                    known: &[],
                    hang_secs: 120,
                    max_threads: 64,
                }),
                Box::new(Enumeration {
                    name: "c03_range_grid",
                    run: pure::c03_grid,
                    replay: pure::c03_grid_replay,
                }),
            ],
            hang: HangPolicy::Inconclusive,
        },
        "C04" => Property {
            id: "C04",
            level: "exploration",
            rule: "proptest: one outstanding request (eight kinds, lattice ranges, three submission styles, MBAP/RTU) x one reply PDU: the genuine reply or a mutation (function code replaced incl. fc|0x80 and other|0x80, truncated/extended by 1..3 bytes, one bit of any body byte flipped, byte-count field altered, coil echo outside {0,FF00}, exception with 0/1/2 code bytes and any code, empty, 0..253 random bytes), delivered with the right transaction id / CRC. Oracle = reply classifier (Ok with exactly the encoded values / exactly that exception / any non-exception error). Non-trivial = reply with the genuine length that is not genuine, or right function code with length off by <=3.",
            assumptions: SIM_ASSUMPTIONS_CLI,
            searches: vec![Box::new(Search {
                name: "c04_replies",
                rule: "see property rule",
                quick: 150_000,
                thorough: 4_000_000,
                strategy: cli::arb_c04,
                check: cli::check_c04,
                floors: &[("one_field_off", 0.15), ("class:ok", 0.10), ("class:exception", 0.05), ("class:other_error", 0.30), ("framing:rtu", 0.30)],
                known: &[],
                hang_secs: 120,
                max_threads: 64,
            })],
            hang: HangPolicy::Inconclusive,
        },
        "C10" => Property {
            id: "C10",
            level: "exploration",
            rule: "proptest histories of 1..40 operations over {submit (future-, CallbackSession- or FfiChannel-style, any of 4 handles, valid and invalid requests), advance virtual time, enable, disable, set-decode, shutdown, clone handle, drop handle, drop the caller's future, abort the task, peer garbage, peer EOF, peer read error} x 0..3 scripted connections (genuine / exception / wrong-id / wrong-function replies, partial replies, garbage, EOF, read errors, failing writes) x queue capacity 1..16 x consecutive-timeout limit, on the production ClientLoop driven by an outer loop of the same shape as the channel tasks (wait-for-enable, connect, run, fail-requests-for-delay). Oracle: completion ledger - exactly one completion per request the handle accepted (at most one for requests refused at the handle or cancelled by the caller), and every error is justified by the history: Shutdown only after a shutdown request / last handle drop / abort / task end, NoConnection never inside a connected session, ResponseTimeout exactly at transmission + timeout, Io(kind) only for an injected kind, values/exceptions only for transmitted requests, BadRequest/Internal never for valid requests; the task ends once all handles are gone. Non-trivial = a shutdown/disable/abort/EOF/error/handle-drop lands while one request is in flight and at least one more is pending.",
            assumptions: SIM_ASSUMPTIONS_CLI,
            searches: vec![Box::new(Search {
                name: "c10_histories",
                rule: "see property rule",
                quick: 150_000,
                thorough: 4_000_000,
                strategy: once::arb_c10,
                check: once::check_c10,
                floors: &[("disruption_with_inflight_and_queued", 0.10), ("res:no_connection", 0.30), ("res:ok", 0.15), ("res:timeout", 0.10), ("res:shutdown", 0.10), ("refused_at_handle", 0.05)],
                known: &[],
                hang_secs: 120,
                max_threads: 64,
            })],
            hang: HangPolicy::Inconclusive,
        },
        "C11" => Property {
            id: "C11",
            level: "exploration",
            rule: "proptest: MBAP client with 1..8 queued requests; the scripted peer answers each transmitted frame with 0..3 frames (genuine, stale/future by 1, 2, 255, 256, 32768, 65535, duplicates, split frames) at delays just before / just after the deadline, plus frames sent while idle. Oracle = stream model: transaction ids 0,1,2,.. in submission order, next request never transmitted before the previous completed, each result is the one derived from the first frame carrying its id before its deadline, else timeout at the deadline. Plus one 70 000-request run across the 16-bit wrap. Non-trivial = a well-formed frame with a wrong id and the right function code arrived while a request was outstanding.",
            assumptions: SIM_ASSUMPTIONS_CLI,
            searches: vec![
                Box::new(Search {
                    name: "c11_streams",
                    rule: "see property rule",
                    quick: 60_000,
                    thorough: 1_500_000,
                    strategy: cli::arb_c11,
                    check: cli::check_c11,
                    floors: &[("wrong_tx_right_fc_while_outstanding", 0.30)],
                    known: &[],
                    hang_secs: 120,
                    max_threads: 64,
                }),
                Box::new(Enumeration {
                    name: "c11_wrap",
                    run: c11_wrap,
                    replay: c11_wrap_replay,
                }),
            ],
            hang: HangPolicy::Inconclusive,
        },
        "C12" => Property {
            id: "C12",
            level: "exploration",
            rule: "proptest on the paused clock (ms resolution): 1..12 requests with per-request timeouts in [1 ms, 60 s], replies completing at T-1, T+1 or random offsets, replies split so that the last byte lands after the deadline, outcome classes {nothing, success, exception, bad reply}, consecutive-timeout limit N in {none, 1..5}, MBAP and RTU. Oracle = deadline arithmetic on virtual time (completion instant equality) and the consecutive-timeout counter model (connection dropped exactly at the N-th timeout in a row). Replies completing exactly at the deadline are not judged. Non-trivial = >=2 timeouts separated by another outcome with N>=2.",
            assumptions: SIM_ASSUMPTIONS_CLI,
            searches: vec![Box::new(Search {
                name: "c12_deadlines",
                rule: "see property rule",
                quick: 60_000,
                thorough: 1_500_000,
                strategy: cli::arb_c12,
                check: cli::check_c12,
                floors: &[("has_timeout", 0.40), ("limit:reached", 0.10), ("timeouts_separated_by_other_outcome", 0.05), ("framing:rtu", 0.30)],
                known: &[],
                hang_secs: 120,
                max_threads: 64,
            })],
            hang: HangPolicy::Inconclusive,
        },
        "C20" => Property {
            id: "C20",
            level: "exploration",
            rule: "proptest: cases drawn from the C01/C08 (server) and C11/C12 (client) generators, each executed at decode level nothing, at the highest level, at a generated level, and with a level change injected at a generated position of the script (server: ServerHandle::set_decode_level, also between two reads of one frame; client: Channel::set_decode_level queued between requests), with the formatting subscriber installed. Oracle (metamorphic): byte-identical wire transcripts (with virtual timestamps where the scripts are identical), identical results and completion instants, identical handler/authorization logs, state and end reasons. Non-trivial = the change lands while a frame is half received (server) / while requests are queued or outstanding (client).",
            assumptions: SIM_ASSUMPTIONS_SRV,
            searches: vec![
                Box::new(Search {
                    name: "c20_server",
                    rule: "server role",
                    quick: 25_000,
                    thorough: 600_000,
                    strategy: decode::arb_c20_srv,
                    check: decode::check_c20_srv,
                    floors: &[("change:mid_frame", 0.10), ("has_replies", 0.50)],
                    known: &[],
                    hang_secs: 120,
                    max_threads: 64,
                }),
                Box::new(Search {
                    name: "c20_client",
                    rule: "client role",
                    quick: 25_000,
                    thorough: 600_000,
                    strategy: decode::arb_c20_cli,
                    check: decode::check_c20_cli,
                    floors: &[("change:while_requests_queued", 0.30)],
                    known: &[],
                    hang_secs: 120,
                    max_threads: 64,
                }),
            ],
            hang: HangPolicy::Inconclusive,
        },
        _ => return None,
    })
}

fn c05_cli_strategy() -> proptest::strategy::BoxedStrategy<framing::ChunkCli> {
    framing::arb_chunk_cli(crate::simsrv::Fr::Mbap)
}

fn c06_cli_strategy() -> proptest::strategy::BoxedStrategy<framing::ChunkCli> {
    framing::arb_chunk_cli(crate::simsrv::Fr::Rtu)
}

fn c11_wrap(ctx: &Ctx) -> SearchReport {
    let mut rep = SearchReport::empty(
        "c11_wrap",
        "one sequential run of 70 000 (quick) / 140 000 (thorough) requests against a peer echoing the transaction id: ids must be i mod 65536 and every request must succeed",
    );
    let n = match ctx.tier {
        Tier::Quick => 70_000,
        Tier::Thorough => 140_000,
    };
    rep.stats.evaluations = 1;
    match cli::c11_wrap_run(n) {
        Ok(_) => {
            rep.stats.nontrivial_total = 1;
            rep.stats.distinct.insert(n as u64);
            rep.stats.samples.push(serde_json::json!({"requests": n}));
        }
        Err(m) => {
            rep.failure = Some(Failure {
                message: m,
                case: serde_json::json!({"requests": n}),
                hang: false,
            })
        }
    }
    rep
}

fn c11_wrap_replay(v: &serde_json::Value) -> CaseResult {
    cli::c11_wrap_run(v["requests"].as_u64().unwrap_or(70_000) as usize)
}

const NET_ASSUMPTIONS: &[&str] = &[
    "black box: only the public spawn_*/create_* API, real loopback sockets, real time (multi-thread tokio runtime); no hook is used",
    "absence of a reply is never inferred from silence alone: dead connections must reach EOF/reset, live ones must answer a sentinel",
    "the OS scheduler is not under the harness's control: after an operation the harness waits a settling time (15 ms, doubled on re-runs) for the server to observe it; a history that fails is re-run twice and reported only if it fails all three times; disturbances that do not reproduce are counted in the evidence (labels flaky:*)",
];

const SIM_ASSUMPTIONS_CLI: &[&str] = &[
    "the production ClientLoop / FrameWriter / FramedReader are constructed by rodbus::verif::client_session exactly as tcp/client.rs and serial/client.rs do; the in-memory transport replaces the socket only",
    "request arguments are built only through the public constructors (AddressRange::try_from, WriteMultiple::from, Indexed::new); struct-literal AddressRange values are outside the property's domain",
    "virtual time: current-thread tokio runtime with the clock paused; tokio select! tie-breaks pinned by a generated seed; events that coincide to the millisecond with a deadline or a transmission are not judged (counted as don't-care)",
    "the byte-count field of read replies is not part of the statement's acceptance conditions: accepted-with-the-encoded-values and rejected are both allowed (counted)",
];

pub const ALL: &[&str] = &["C01", "C02", "C03", "C04", "C05", "C06", "C07", "C08", "C10", "C11", "C12", "C15", "C17", "C20"];
