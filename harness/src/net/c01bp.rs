//! C01 over real sockets under back-pressure: a peer pipelines tens of thousands of requests on
//! one TCP or TLS connection and does not read for a while, so that the server's writes block and
//! complete in pieces. The reply stream must still be the reference server's, byte for byte.
//! (The simulated transport of the other C01 search goes through the hook's own I/O arm; this
//! search exercises the TCP and TLS arms of the library's physical layer.)

use std::time::Duration;

use proptest::prelude::*;
use rodbus::server::{AddressFilter, RequestHandler, ServerHandlerMap, TlsServerConfig};
use rodbus::{DecodeLevel, ExceptionCode, Indexed, UnitId};
use serde::{Deserialize, Serialize};
use tokio::io::{AsyncReadExt, AsyncWriteExt};
use tokio::net::{TcpListener, TcpSocket};
use tokio_rustls::rustls::pki_types::ServerName;

use super::c09::{path, peer_client_config, Offer};
use super::*;
use crate::model::framing::mbap_frame;
use crate::runner::CaseResult;

#[derive(Clone, Debug, PartialEq, Eq, Hash, Serialize, Deserialize)]
pub struct FloodCase {
    pub tls: bool,
    /// number of pipelined requests
    pub n: u32,
    /// how long the peer waits before it starts reading (ms)
    pub stall_ms: u16,
    /// read buffer size used by the peer while draining
    pub read_chunk: u16,
    /// pause between the first reads (ms), so that the server keeps running into a full pipe
    pub slow_reads: u8,
    pub mix_seed: u64,
    /// the peer pauses 1 ms after every this many KiB read (0 = never): a peer slower than the
    /// server keeps the server's socket full up to its very last reply
    #[serde(default)]
    pub pace_kib: u16,
    /// SO_SNDBUF of the server's sockets in KiB (0 = kernel default with auto-tuning)
    #[serde(default)]
    pub server_sndbuf_kib: u16,
    /// the peer closes its sending direction right after the last request (and still expects
    /// every reply)
    #[serde(default)]
    pub half_close: bool,
}

pub fn arb_flood() -> BoxedStrategy<FloodCase> {
    (
        any::<bool>(),
        20_000u32..36_000,
        20u16..120,
        prop::sample::select(vec![1u16, 7, 255, 4096, 65535]),
        0u8..30,
        any::<u64>(),
        prop::sample::select(vec![0u16, 4, 16, 64]),
        prop::sample::select(vec![0u16, 8, 16, 64]),
        prop::bool::weighted(0.4),
    )
        .prop_map(|(tls, n, stall_ms, read_chunk, slow_reads, mix_seed, pace_kib, server_sndbuf_kib, half_close)| FloodCase {
            tls,
            stall_ms,
            read_chunk,
            slow_reads,
            mix_seed,
            pace_kib,
            server_sndbuf_kib,
            half_close,
            // small buffers need far fewer requests to block the server
            n: if server_sndbuf_kib > 0 { 2000 + n % 6000 } else { n },
        })
        .boxed()
}

fn reg(addr: u16) -> u16 {
    addr.wrapping_mul(7).wrapping_add(1)
}
fn coil(addr: u16) -> bool {
    addr % 3 == 0
}

struct Fixed;
impl RequestHandler for Fixed {
    fn read_coil(&self, address: u16) -> Result<bool, ExceptionCode> {
        Ok(coil(address))
    }
    fn read_holding_register(&self, address: u16) -> Result<u16, ExceptionCode> {
        if address == 4444 {
            Err(ExceptionCode::ServerDeviceFailure)
        } else {
            Ok(reg(address))
        }
    }
    fn write_single_register(&mut self, _value: Indexed<u16>) -> Result<(), ExceptionCode> {
        Ok(())
    }
}

/// (request pdu, reference reply pdu) for the i-th request
fn exchange(seed: u64, i: u32) -> (Vec<u8>, Vec<u8>) {
    let mut x = seed ^ ((i as u64) << 17) ^ 0x9E37_79B9_7F4A_7C15;
    x ^= x << 13;
    x ^= x >> 7;
    x ^= x << 17;
    let start = (x >> 8) as u16 % 3000;
    match x % 8 {
        0 | 1 | 2 => {
            // long register read: 255-byte reply
            let count = 125u16;
            let mut rep = vec![3, (2 * count) as u8];
            for k in 0..count {
                rep.extend_from_slice(&reg(start + k).to_be_bytes());
            }
            (vec![3, (start >> 8) as u8, start as u8, 0, count as u8], rep)
        }
        3 => {
            let count = 1 + ((x >> 24) as u16 % 30);
            let mut rep = vec![3, (2 * count) as u8];
            for k in 0..count {
                rep.extend_from_slice(&reg(start + k).to_be_bytes());
            }
            (vec![3, (start >> 8) as u8, start as u8, 0, count as u8], rep)
        }
        4 | 5 => {
            // long coil read: 255-byte reply
            let count = 2000u16;
            let nbytes = 250usize;
            let mut rep = vec![1, nbytes as u8];
            let mut bytes = vec![0u8; nbytes];
            for k in 0..count {
                if coil(start + k) {
                    bytes[(k / 8) as usize] |= 1 << (k % 8);
                }
            }
            rep.extend_from_slice(&bytes);
            (vec![1, (start >> 8) as u8, start as u8, (count >> 8) as u8, count as u8], rep)
        }
        6 => {
            // echo
            let v = (x >> 32) as u16;
            let pdu = vec![6, (start >> 8) as u8, start as u8, (v >> 8) as u8, v as u8];
            (pdu.clone(), pdu)
        }
        _ => {
            // a read that raises an exception in the handler
            (vec![3, (4444u16 >> 8) as u8, 4444u16 as u8, 0, 1], vec![0x83, 4])
        }
    }
}

pub fn check_flood(case: &FloodCase) -> CaseResult {
    retry3(|slow| run_once(case, slow))
}

fn run_once(case: &FloodCase, slow: u32) -> CaseResult {
    let rt = rt(3);
    let limit = Duration::from_secs(40 * slow as u64);
    let case = case.clone();
    rt.block_on(async move {
        // the listening socket is ours: a fixed, small send buffer (inherited by the accepted
        // sockets) in part of the cases, the kernel's auto-tuned megabytes in the others
        let lsock = TcpSocket::new_v4().map_err(|e| format!("INFRA: socket {}", e))?;
        if case.server_sndbuf_kib > 0 {
            let _ = lsock.set_send_buffer_size(case.server_sndbuf_kib as u32 * 1024);
        }
        let _ = lsock.set_reuseaddr(true);
        lsock.bind("127.0.0.1:0".parse().unwrap()).map_err(|e| format!("INFRA: bind: {}", e))?;
        let listener: TcpListener = lsock.listen(16).map_err(|e| format!("INFRA: listen: {}", e))?;
        let addr = listener.local_addr().unwrap();
        let map = ServerHandlerMap::single(UnitId::new(9), Fixed.wrap());
        let (handle, task) = if case.tls {
            let cfg = TlsServerConfig::new(
                &path("ca1", "pem"),
                &path("server_ok", "pem"),
                &path("server_ok", "key"),
                None,
                super::c09::min_tls(12),
                rodbus::client::CertificateMode::AuthorityBased,
            )
            .map_err(|e| format!("INFRA: tls config {}", e))?;
            rodbus::server::create_tls_server_task(2, listener, map, cfg, AddressFilter::Any, DecodeLevel::nothing())
        } else {
            rodbus::server::create_tcp_server_task(2, listener, map, AddressFilter::Any, DecodeLevel::nothing())
        };
        let join = tokio::spawn(task.run());

        // a small receive buffer on our side, so that the pipe fills quickly
        let socket = TcpSocket::new_v4().map_err(|e| format!("INFRA: socket {}", e))?;
        let _ = socket.set_recv_buffer_size(8192);
        let tcp = tokio::time::timeout(limit, socket.connect(addr))
            .await
            .map_err(|_| "INFRA: connect timed out".to_string())?
            .map_err(|e| format!("INFRA: connect {}", e))?;
        let _ = tcp.set_nodelay(true);
        let link: Link = if case.tls {
            let connector = tokio_rustls::TlsConnector::from(peer_client_config(Offer::Both, Some("client_operator")));
            let name = ServerName::try_from("test.com").unwrap();
            match tokio::time::timeout(limit, connector.connect(name, tcp)).await {
                Ok(Ok(t)) => Box::new(t),
                _ => return Err("INFRA: TLS handshake with the server failed".to_string()),
            }
        } else {
            Box::new(tcp)
        };
        let (mut rd, mut wr) = tokio::io::split(link);
        let n = case.n;
        let seed = case.mix_seed;
        // reader and writer run in ONE task (select! below): the two halves of a TLS stream
        // share the socket's write-readiness waker, and polling them from two tasks loses wake-ups
        let wrote_all = std::sync::Arc::new(std::sync::atomic::AtomicBool::new(false));
        let wrote_all2 = wrote_all.clone();
        let half_close = case.half_close;
        let writer_fut = async move {
            let mut buf: Vec<u8> = Vec::with_capacity(64 * 1024);
            for i in 0..n {
                let (req, _) = exchange(seed, i);
                buf.extend_from_slice(&mbap_frame(i as u16, 9, &req));
                if buf.len() >= 32 * 1024 {
                    if wr.write_all(&buf).await.is_err() {
                        break;
                    }
                    buf.clear();
                }
            }
            let _ = wr.write_all(&buf).await;
            let _ = wr.flush().await;
            if half_close {
                let _ = wr.shutdown().await;
            }
            wrote_all2.store(true, std::sync::atomic::Ordering::SeqCst);
            // keep the write half open until the reader is done
            std::future::pending::<()>().await
        };
        let stall_ms = case.stall_ms;
        let read_chunk = case.read_chunk;
        let slow_reads = case.slow_reads;
        let pace = case.pace_kib as usize * 1024;
        let reader_fut = async move {
        // do not read for a while: replies pile up until the server's writes block
        tokio::time::sleep(Duration::from_millis(stall_ms as u64 * slow as u64)).await;
        let writer_blocked = !wrote_all.load(std::sync::atomic::Ordering::SeqCst);

        let mut chunk = vec![0u8; read_chunk.max(1) as usize];
        let mut pending: Vec<u8> = Vec::new();
        let mut next: u32 = 0;
        let mut reads = 0u32;
        let mut total = 0usize;
        let deadline = tokio::time::Instant::now() + limit;
        let mut failure: Option<String> = None;
        'outer: while next < n {
            // the requests were all written long ago: a reply that exists is delivered promptly
            let quiet = Duration::from_secs(3 * slow as u64);
            let got = match tokio::time::timeout_at(deadline.min(tokio::time::Instant::now() + quiet), rd.read(&mut chunk)).await {
                Err(_) => {
                    failure = Some(format!(
                        "the reply stream stopped after {} complete replies of {} ({} bytes read): no further bytes for {:?} although the peer is reading and all requests were sent",
                        next, n, total, quiet
                    ));
                    break;
                }
                Ok(Ok(0)) | Ok(Err(_)) => {
                    failure = Some(format!(
                        "the connection ended after {} complete replies of {}{}",
                        next,
                        n,
                        if half_close { " (the peer had closed its sending direction after the last request; every request was sent before that)" } else { "" }
                    ));
                    break;
                }
                Ok(Ok(k)) => k,
            };
            if pace > 0 && (total + got) / pace != total / pace {
                tokio::time::sleep(Duration::from_millis(1)).await;
            }
            total += got;
            reads += 1;
            if reads <= slow_reads as u32 {
                tokio::time::sleep(Duration::from_millis(3)).await;
            }
            pending.extend_from_slice(&chunk[..got]);
            // after the slow phase, read with a large buffer so that the case ends in time
            if reads == slow_reads as u32 + 200 && chunk.len() < 65535 {
                chunk = vec![0u8; if pace > 0 { pace.min(65535) } else { 65535 }];
            }
            let mut pos = 0usize;
            loop {
                if next >= n {
                    break;
                }
                let (_, rep) = exchange(seed, next);
                let want = mbap_frame(next as u16, 9, &rep);
                if pending.len() - pos < want.len() {
                    // partial: what is there must be a prefix
                    if !want.starts_with(&pending[pos..]) {
                        let k = pending[pos..].iter().zip(want.iter()).take_while(|(a, b)| a == b).count();
                        failure = Some(format!(
                            "reply {} of {} differs from the reference at byte {} of {}: the stream has {:02X?}, the reference {:02X?}",
                            next,
                            n,
                            k,
                            want.len(),
                            &pending[pos + k..(pos + k + 8).min(pending.len())],
                            &want[k..(k + 8).min(want.len())]
                        ));
                        break 'outer;
                    }
                    break;
                }
                if pending[pos..pos + want.len()] != want[..] {
                    let k = pending[pos..pos + want.len()].iter().zip(want.iter()).take_while(|(a, b)| a == b).count();
                    failure = Some(format!(
                        "reply {} of {} differs from the reference at byte {} of {}: the stream has {:02X?}, the reference {:02X?}",
                        next,
                        n,
                        k,
                        want.len(),
                        &pending[pos + k..(pos + k + 8).min(pending.len())],
                        &want[k..(k + 8).min(want.len())]
                    ));
                    break 'outer;
                }
                pos += want.len();
                next += 1;
            }
            pending.drain(..pos);
        }
        (failure, pending, total, writer_blocked)
        };
        let (failure, pending, total, writer_blocked) = tokio::select! {
            r = reader_fut => r,
            _ = writer_fut => unreachable!(),
        };
        drop(handle);
        let _ = tokio::time::timeout(Duration::from_secs(5), join).await;
        if let Some(f) = failure {
            return Err(format!(
                "{} pipelined requests on one {} connection, peer starts reading after {} ms: {}",
                n,
                if case.tls { "TLS" } else { "TCP" },
                case.stall_ms,
                f
            ));
        }
        if !pending.is_empty() {
            return Err(format!("{} bytes after the last reply", pending.len()));
        }
        let mut ok = CaseOk::new();
        ok.label(if case.tls { "transport:tls" } else { "transport:tcp" });
        if writer_blocked {
            ok.label("request_direction_blocked_too");
        }
        if case.server_sndbuf_kib > 0 {
            ok.label("small_server_send_buffer");
        }
        if case.half_close {
            ok.label("peer_half_closed");
        }
        // far more reply bytes than the sockets can hold
        ok.nontrivial = total > 4_000_000 || (case.server_sndbuf_kib > 0 && total > 400_000);
        Ok(ok)
    })
}

// ---------------------------------------------------------------------------------------------
// C05 over a real TCP socket: requests arrive in pieces of a few bytes while the server handle
// keeps sending commands (decode level set to its current value). Reads of a few bytes that are
// interrupted by a command are where a transport read that is not cancellation-safe loses bytes.

#[derive(Clone, Debug, PartialEq, Eq, Hash, Serialize, Deserialize)]
pub struct FragCase {
    pub tls: bool,
    pub requests: u16,
    /// piece sizes, cycled
    pub pieces: Vec<u8>,
    /// after which pieces (index mod len) a command is sent, and how (0 = not, 1 = awaited right
    /// after the write, 2 = awaited after yielding once)
    pub commands: Vec<u8>,
    /// pause after each piece in hundreds of microseconds (0 = none)
    pub pauses: Vec<u8>,
    pub mix_seed: u64,
}

pub fn arb_frag() -> BoxedStrategy<FragCase> {
    (
        prop::bool::weighted(0.3),
        8u16..60,
        proptest::collection::vec(1u8..=8, 1..8),
        proptest::collection::vec(0u8..3, 1..8),
        proptest::collection::vec(prop_oneof![3 => Just(0u8), 1 => 1u8..40], 1..6),
        any::<u64>(),
    )
        .prop_map(|(tls, requests, pieces, commands, pauses, mix_seed)| FragCase {
            tls,
            requests,
            pieces,
            commands,
            pauses,
            mix_seed,
        })
        .boxed()
}

pub fn check_frag(case: &FragCase) -> CaseResult {
    retry3(|slow| run_frag(case, slow))
}

fn run_frag(case: &FragCase, slow: u32) -> CaseResult {
    let rt = rt(3);
    let case = case.clone();
    rt.block_on(async move {
        let listener = TcpListener::bind("127.0.0.1:0").await.map_err(|e| format!("INFRA: bind: {}", e))?;
        let addr = listener.local_addr().unwrap();
        let map = ServerHandlerMap::single(UnitId::new(9), Fixed.wrap());
        let (mut handle, task) = if case.tls {
            let cfg = TlsServerConfig::new(
                &path("ca1", "pem"),
                &path("server_ok", "pem"),
                &path("server_ok", "key"),
                None,
                super::c09::min_tls(12),
                rodbus::client::CertificateMode::AuthorityBased,
            )
            .map_err(|e| format!("INFRA: tls config {}", e))?;
            rodbus::server::create_tls_server_task(2, listener, map, cfg, AddressFilter::Any, DecodeLevel::nothing())
        } else {
            rodbus::server::create_tcp_server_task(2, listener, map, AddressFilter::Any, DecodeLevel::nothing())
        };
        let join = tokio::spawn(task.run());
        let tcp = tokio::net::TcpStream::connect(addr).await.map_err(|e| format!("INFRA: connect {}", e))?;
        let _ = tcp.set_nodelay(true);
        let mut link: Link = if case.tls {
            let connector = tokio_rustls::TlsConnector::from(peer_client_config(Offer::Both, Some("client_operator")));
            let name = ServerName::try_from("test.com").unwrap();
            match tokio::time::timeout(Duration::from_secs(5), connector.connect(name, tcp)).await {
                Ok(Ok(t)) => Box::new(t),
                _ => return Err("INFRA: TLS handshake with the server failed".to_string()),
            }
        } else {
            Box::new(tcp)
        };
        let wait = Duration::from_millis(2000 * slow as u64);
        let mut piece_no = 0usize;
        let mut commands_sent = 0u32;
        let mut small_pieces = 0u32;
        for i in 0..case.requests as u32 {
            let (req, rep) = exchange(case.mix_seed, i);
            let frame = mbap_frame(i as u16, 9, &req);
            let want = mbap_frame(i as u16, 9, &rep);
            let mut at = 0usize;
            while at < frame.len() {
                let n = (case.pieces[piece_no % case.pieces.len()] as usize).min(frame.len() - at);
                if n < 7 {
                    small_pieces += 1;
                }
                link.write_all(&frame[at..at + n]).await.map_err(|e| format!("INFRA: write {}", e))?;
                let _ = link.flush().await;
                at += n;
                match case.commands[piece_no % case.commands.len()] {
                    0 => {}
                    how => {
                        if how == 2 {
                            tokio::task::yield_now().await;
                        }
                        if handle.set_decode_level(DecodeLevel::nothing()).await.is_err() {
                            return Err("set_decode_level failed on a running server".to_string());
                        }
                        commands_sent += 1;
                    }
                }
                let p = case.pauses[piece_no % case.pauses.len()];
                if p > 0 {
                    tokio::time::sleep(Duration::from_micros(100 * p as u64)).await;
                }
                piece_no += 1;
            }
            // the reply to this request
            let mut got = vec![0u8; want.len()];
            match tokio::time::timeout(wait, link.read_exact(&mut got)).await {
                Ok(Ok(_)) if got == want => {}
                Ok(Ok(_)) => {
                    return Err(format!(
                        "request {} of {} sent in pieces of {:?} bytes with commands after some of them: the reply differs from the reference ({:02X?}.. vs {:02X?}..)",
                        i,
                        case.requests,
                        case.pieces,
                        &got[..got.len().min(12)],
                        &want[..want.len().min(12)]
                    ))
                }
                _ => {
                    return Err(format!(
                        "request {} of {} on one {} connection sent in pieces of {:?} bytes with {} server commands in between so far: no (complete) reply within {:?} - bytes of the request were lost",
                        i,
                        case.requests,
                        if case.tls { "TLS" } else { "TCP" },
                        case.pieces,
                        commands_sent,
                        wait
                    ))
                }
            }
        }
        drop(link);
        drop(handle);
        let _ = tokio::time::timeout(Duration::from_secs(5), join).await;
        let mut ok = CaseOk::new();
        ok.label(if case.tls { "transport:tls" } else { "transport:tcp" });
        if commands_sent >= 10 {
            ok.label("commands>=10");
        }
        ok.nontrivial = commands_sent >= 10 && small_pieces >= 20;
        Ok(ok)
    })
}
