#!/bin/sh
# tools/multiseed.sh <seed>... : quick tier of every check under other PRNG seeds, fresh process
# per check, evidence redirected so the committed evidence stays that of seed 1
cd "$(dirname "$0")/.."
export VERIF_EVIDENCE_DIR=${VERIF_EVIDENCE_DIR:-/tmp/verif-multiseed-evidence}
mkdir -p $VERIF_EVIDENCE_DIR
for seed in "$@"; do
  for i in 01 02 03 04 05 06 07 08 09 10 11 12 13 14 15 16 17 18 19 20; do
    out=$(./check C$i --tier quick --seed $seed 2>&1); code=$?
    [ $code -ne 0 ] && printf "seed=%s C%s exit=%s %s\n" $seed $i $code "$(echo "$out" | grep -E '^VIOLATION|^INCONCLUSIVE|violation' | head -2)"
  done
  echo "seed=$seed done"
done
