#!/usr/bin/env python3
"""Builds certs/client_nulrole.pem: client_operator's certificate with the role "operator"
patched to "oper\\0tor" (a NUL inside the UTF8String) and re-signed by ca1. The openssl CLI cannot
put a NUL into a string value itself."""
import base64, subprocess, os, shutil
D = os.path.join(os.path.dirname(os.path.dirname(os.path.abspath(__file__))), 'certs')

def pem_to_der(path):
    b = open(path).read()
    body = ''.join(l for l in b.splitlines() if not l.startswith('-----'))
    return base64.b64decode(body)

def rd(buf, pos):
    tag = buf[pos]; l = buf[pos+1]; hl = 2
    if l & 0x80:
        n = l & 0x7F; l = int.from_bytes(buf[pos+2:pos+2+n], 'big'); hl = 2 + n
    return tag, hl, l

def enc(tag, content):
    n = len(content)
    if n < 0x80: return bytes([tag, n]) + content
    b = n.to_bytes((n.bit_length()+7)//8, 'big')
    return bytes([tag, 0x80 | len(b)]) + b + content

der = pem_to_der(os.path.join(D, 'client_operator.pem'))
t, h, l = rd(der, 0)
tt, th, tl = rd(der, h)                    # TBSCertificate
tbs = der[h: h+th+tl]
old = b'\x0c\x08operator'
assert tbs.count(old) == 1
tbs = tbs.replace(old, b'\x0c\x08oper\x00tor')
rest = der[h+th+tl:]
at, ah, al = rd(rest, 0)                   # signatureAlgorithm
alg = rest[:ah+al]
open('/tmp/nul_role_tbs.der', 'wb').write(tbs)
sig = subprocess.check_output(['openssl', 'dgst', '-sha256', '-sign', os.path.join(D, 'ca1.key'), '/tmp/nul_role_tbs.der'])
cert = enc(0x30, tbs + alg + enc(0x03, b'\x00' + sig))
pem = '-----BEGIN CERTIFICATE-----\n' + '\n'.join(base64.encodebytes(cert).decode().split()) + '\n-----END CERTIFICATE-----\n'
open(os.path.join(D, 'client_nulrole.pem'), 'w').write(pem)
shutil.copy(os.path.join(D, 'client_operator.key'), os.path.join(D, 'client_nulrole.key'))
os.remove('/tmp/nul_role_tbs.der')
print('client_nulrole.pem written')
