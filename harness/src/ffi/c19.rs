//! C19: the C-ABI point database is a per-type map with atomic transactions.

use std::collections::BTreeMap;
use std::io::{Read, Write};
use std::net::TcpStream;
use std::os::raw::c_void;
use std::sync::atomic::{AtomicBool, AtomicU64, Ordering};
use std::sync::{Arc, Mutex};
use std::time::{Duration, Instant};

use proptest::collection::vec;
use proptest::prelude::*;
use rodbus_ffi::ffi;
use serde::{Deserialize, Serialize};
use serde_json::json;

use super::*;
use crate::model::framing::{deframe_mbap, mbap_frame};
use crate::runner::*;

#[derive(Copy, Clone, Debug, PartialEq, Eq, Hash, Serialize, Deserialize)]
pub enum T {
    Coil,
    Discrete,
    Holding,
    Input,
}

#[derive(Clone, Debug, PartialEq, Eq, Hash, Serialize, Deserialize)]
pub enum DbOp {
    Add(T, u16, u16),
    Update(T, u16, u16),
    Delete(T, u16),
    Get(T, u16),
}

#[derive(Clone, Debug, PartialEq, Eq, Hash, Serialize, Deserialize)]
pub enum Step {
    /// one server_update_database call executing these operations
    Transaction(Vec<DbOp>),
    /// a client read of `count` points of the type starting at `start`
    ClientRead(T, u16, u16),
}

#[derive(Clone, Debug, PartialEq, Eq, Hash, Serialize, Deserialize)]
pub struct DbCase {
    /// executed inside the configure callback of device_map_add_endpoint
    pub configure: Vec<DbOp>,
    pub steps: Vec<Step>,
}

fn arb_index() -> BoxedStrategy<u16> {
    prop_oneof![
        8 => prop::sample::select(vec![0u16, 1, 2, 3, 7, 65535, 65534]),
        1 => any::<u16>(),
    ]
    .boxed()
}

fn arb_t() -> BoxedStrategy<T> {
    prop::sample::select(vec![T::Coil, T::Discrete, T::Holding, T::Input]).boxed()
}

fn arb_dbop() -> BoxedStrategy<DbOp> {
    prop_oneof![
        4 => (arb_t(), arb_index(), any::<u16>()).prop_map(|(t, i, v)| DbOp::Add(t, i, v)),
        3 => (arb_t(), arb_index(), any::<u16>()).prop_map(|(t, i, v)| DbOp::Update(t, i, v)),
        2 => (arb_t(), arb_index()).prop_map(|(t, i)| DbOp::Delete(t, i)),
        2 => (arb_t(), arb_index()).prop_map(|(t, i)| DbOp::Get(t, i)),
    ]
    .boxed()
}

pub fn arb_db_case() -> BoxedStrategy<DbCase> {
    let step = prop_oneof![
        3 => vec(arb_dbop(), 1..8).prop_map(Step::Transaction),
        3 => (arb_t(), prop_oneof![4 => 0u16..4, 2 => 65530u16..=65535, 1 => any::<u16>()], prop_oneof![4 => 1u16..6, 1 => 6u16..20, 1 => prop::sample::select(vec![8u16, 9, 16, 17, 24])]).prop_map(|(t, s, c)| Step::ClientRead(t, s, c)),
    ];
    (vec(arb_dbop(), 0..12), vec(step, 1..14), prop::bool::weighted(0.4), any::<u16>())
        .prop_map(|(mut configure, steps, prefill, v)| {
            // in 40% of the cases the points at both ends of the address space exist from the
            // start, so that reads of several points find all of them present
            if prefill {
                let mut pre = Vec::new();
                for t in [T::Coil, T::Discrete, T::Holding, T::Input] {
                    // (0..=24 without 5 and 13: long reads from 0 meet a hole inside a full byte)
                    for i in (0u16..=24).filter(|i| *i != 5 && *i != 13).chain([65532u16, 65533, 65534, 65535]) {
                        pre.push(DbOp::Add(t, i, v.wrapping_mul(i | 1).wrapping_add(i)));
                    }
                }
                pre.extend(configure);
                configure = pre;
            }
            DbCase { configure, steps }
        })
        .boxed()
}

#[derive(Default, Clone, Debug, PartialEq)]
struct Model {
    coils: BTreeMap<u16, bool>,
    discrete: BTreeMap<u16, bool>,
    holding: BTreeMap<u16, u16>,
    input: BTreeMap<u16, u16>,
}

/// result of one database operation: Bool for add/update/delete, Val / Missing for get
#[derive(Clone, Debug, PartialEq, Eq)]
enum R {
    Bool(bool),
    Val(u16),
    Missing(String),
}

impl Model {
    fn apply(&mut self, op: &DbOp) -> R {
        macro_rules! on {
            ($t:expr, $bits:expr, $regs:expr) => {
                match $t {
                    T::Coil => $bits(&mut self.coils),
                    T::Discrete => $bits(&mut self.discrete),
                    T::Holding => $regs(&mut self.holding),
                    T::Input => $regs(&mut self.input),
                }
            };
        }
        match op {
            DbOp::Add(t, i, v) => on!(
                t,
                |m: &mut BTreeMap<u16, bool>| {
                    if m.contains_key(i) {
                        R::Bool(false)
                    } else {
                        m.insert(*i, v % 2 == 1);
                        R::Bool(true)
                    }
                },
                |m: &mut BTreeMap<u16, u16>| {
                    if m.contains_key(i) {
                        R::Bool(false)
                    } else {
                        m.insert(*i, *v);
                        R::Bool(true)
                    }
                }
            ),
            DbOp::Update(t, i, v) => on!(
                t,
                |m: &mut BTreeMap<u16, bool>| {
                    if m.contains_key(i) {
                        m.insert(*i, v % 2 == 1);
                        R::Bool(true)
                    } else {
                        R::Bool(false)
                    }
                },
                |m: &mut BTreeMap<u16, u16>| {
                    if m.contains_key(i) {
                        m.insert(*i, *v);
                        R::Bool(true)
                    } else {
                        R::Bool(false)
                    }
                }
            ),
            DbOp::Delete(t, i) => on!(
                t,
                |m: &mut BTreeMap<u16, bool>| R::Bool(m.remove(i).is_some()),
                |m: &mut BTreeMap<u16, u16>| R::Bool(m.remove(i).is_some())
            ),
            DbOp::Get(t, i) => on!(
                t,
                |m: &mut BTreeMap<u16, bool>| match m.get(i) {
                    Some(v) => R::Val(*v as u16),
                    None => R::Missing("InvalidIndex".to_string()),
                },
                |m: &mut BTreeMap<u16, u16>| match m.get(i) {
                    Some(v) => R::Val(*v),
                    None => R::Missing("InvalidIndex".to_string()),
                }
            ),
        }
    }
}

struct TxCtx {
    ops: Vec<DbOp>,
    results: Vec<R>,
    ran: u32,
}

unsafe fn exec(db: *mut rodbus_ffi::Database, op: &DbOp) -> R {
    match op {
        DbOp::Add(T::Coil, i, v) => R::Bool(ffi::rodbus_database_add_coil(db, *i, v % 2 == 1)),
        DbOp::Add(T::Discrete, i, v) => R::Bool(ffi::rodbus_database_add_discrete_input(db, *i, v % 2 == 1)),
        DbOp::Add(T::Holding, i, v) => R::Bool(ffi::rodbus_database_add_holding_register(db, *i, *v)),
        DbOp::Add(T::Input, i, v) => R::Bool(ffi::rodbus_database_add_input_register(db, *i, *v)),
        DbOp::Update(T::Coil, i, v) => R::Bool(ffi::rodbus_database_update_coil(db, *i, v % 2 == 1)),
        DbOp::Update(T::Discrete, i, v) => R::Bool(ffi::rodbus_database_update_discrete_input(db, *i, v % 2 == 1)),
        DbOp::Update(T::Holding, i, v) => R::Bool(ffi::rodbus_database_update_holding_register(db, *i, *v)),
        DbOp::Update(T::Input, i, v) => R::Bool(ffi::rodbus_database_update_input_register(db, *i, *v)),
        DbOp::Delete(T::Coil, i) => R::Bool(ffi::rodbus_database_delete_coil(db, *i)),
        DbOp::Delete(T::Discrete, i) => R::Bool(ffi::rodbus_database_delete_discrete_input(db, *i)),
        DbOp::Delete(T::Holding, i) => R::Bool(ffi::rodbus_database_delete_holding_register(db, *i)),
        DbOp::Delete(T::Input, i) => R::Bool(ffi::rodbus_database_delete_input_register(db, *i)),
        DbOp::Get(t, i) => {
            let mut b = false;
            let mut r = 0u16;
            let rc = match t {
                T::Coil => ffi::rodbus_database_get_coil(db, *i, &mut b),
                T::Discrete => ffi::rodbus_database_get_discrete_input(db, *i, &mut b),
                T::Holding => ffi::rodbus_database_get_holding_register(db, *i, &mut r),
                T::Input => ffi::rodbus_database_get_input_register(db, *i, &mut r),
            };
            if rc == 0 {
                match t {
                    T::Coil | T::Discrete => R::Val(b as u16),
                    _ => R::Val(r),
                }
            } else {
                R::Missing(format!("{:?}", ffi::ParamError::from(rc)))
            }
        }
    }
}

extern "C" fn tx_callback(db: *mut rodbus_ffi::Database, ctx: *mut c_void) {
    unsafe {
        let c = &*(ctx as *const Mutex<TxCtx>);
        let mut g = c.lock().unwrap();
        g.ran += 1;
        let ops = g.ops.clone();
        for op in &ops {
            let r = exec(db, op);
            g.results.push(r);
        }
    }
}

extern "C" fn noop_destroy(_ctx: *mut c_void) {}

extern "C" fn w_coil(_i: u16, _v: bool, _db: *mut rodbus_ffi::Database, _ctx: *mut c_void) -> ffi::WriteResult {
    ffi::WriteResultFields { success: false, exception: ffi::ModbusException::IllegalFunction, raw_exception: 0 }.into()
}
extern "C" fn w_reg(_i: u16, _v: u16, _db: *mut rodbus_ffi::Database, _ctx: *mut c_void) -> ffi::WriteResult {
    ffi::WriteResultFields { success: false, exception: ffi::ModbusException::IllegalFunction, raw_exception: 0 }.into()
}

fn tx_struct(ctx: &Arc<Mutex<TxCtx>>) -> ffi::DatabaseCallback {
    ffi::DatabaseCallback {
        callback: Some(tx_callback),
        on_destroy: Some(noop_destroy),
        ctx: Arc::as_ptr(ctx) as *mut c_void,
    }
}

struct Srv {
    server: *mut rodbus_ffi::Server,
    port: u16,
    _rt: FfiRuntime,
}

impl Drop for Srv {
    fn drop(&mut self) {
        unsafe { ffi::rodbus_server_destroy(self.server) }
    }
}

fn start_server(configure: &Arc<Mutex<TxCtx>>) -> Result<Srv, String> {
    for _attempt in 0..8 {
        let rt = FfiRuntime::new(1)?;
        unsafe {
            let map = ffi::rodbus_device_map_create();
            let handler = ffi::WriteHandler {
                write_single_coil: Some(w_coil),
                write_single_register: Some(w_reg),
                write_multiple_coils: None,
                write_multiple_registers: None,
                on_destroy: Some(noop_destroy),
                ctx: std::ptr::null_mut(),
            };
            if !ffi::rodbus_device_map_add_endpoint(map, 1, handler, tx_struct(configure)) {
                return Err("device_map_add_endpoint returned false".to_string());
            }
            let filter = ffi::rodbus_address_filter_any();
            let port = free_port();
            let mut out: *mut rodbus_ffi::Server = std::ptr::null_mut();
            let ip = cstr("127.0.0.1");
            let rc = ffi::rodbus_server_create_tcp(rt.0, ip.as_ptr(), port, filter, 8, map, decode_level(0, 0, 0), &mut out);
            ffi::rodbus_address_filter_destroy(filter);
            ffi::rodbus_device_map_destroy(map);
            if rc == 0 && !out.is_null() {
                return Ok(Srv {
                    server: out,
                    port,
                    _rt: rt,
                });
            }
            // the port was taken by somebody else between probing and binding: the configure
            // callback has run; reset its record and try again
            let mut g = configure.lock().unwrap();
            g.results.clear();
            g.ran = 0;
        }
    }
    Err("INFRA: could not bind a server port".to_string())
}

fn request(s: &mut TcpStream, tx: u16, pdu: &[u8]) -> Result<Vec<u8>, String> {
    s.write_all(&mbap_frame(tx, 1, pdu)).map_err(|e| format!("INFRA: write {}", e))?;
    let mut acc = Vec::new();
    let mut buf = [0u8; 512];
    s.set_read_timeout(Some(Duration::from_secs(3))).ok();
    loop {
        let n = s.read(&mut buf).map_err(|e| format!("no reply: {}", e))?;
        if n == 0 {
            return Err("connection closed by the server".to_string());
        }
        acc.extend_from_slice(&buf[..n]);
        let (frames, _) = deframe_mbap(&acc);
        if let Some(f) = frames.first() {
            return Ok(f.pdu.clone());
        }
    }
}

pub fn check_db(case: &DbCase) -> CaseResult {
    let mut ok = CaseOk::new();
    let mut model = Model::default();
    let cfg = Arc::new(Mutex::new(TxCtx {
        ops: case.configure.clone(),
        results: Vec::new(),
        ran: 0,
    }));
    let srv = start_server(&cfg)?;
    {
        let g = cfg.lock().unwrap();
        if g.ran != 1 {
            return Err(format!("configure callback ran {} times", g.ran));
        }
        for (i, op) in case.configure.iter().enumerate() {
            let want = model.apply(op);
            if g.results.get(i) != Some(&want) {
                return Err(format!(
                    "configure op {} {:?}: returned {:?}, the map model says {:?}",
                    i,
                    op,
                    g.results.get(i),
                    want
                ));
            }
        }
    }
    let mut stream = TcpStream::connect(("127.0.0.1", srv.port)).map_err(|e| format!("INFRA: connect {}", e))?;
    stream.set_nodelay(true).ok();
    let mut tx = 0u16;
    let mut seen_delete_then_add = false;
    let mut deleted: Vec<(T, u16)> = Vec::new();
    let mut update_absent = false;
    let mut read_absent = false;
    let mut read_top = false;
    let mut read_top_present = false;
    for (si, step) in case.steps.iter().enumerate() {
        match step {
            Step::Transaction(ops) => {
                let ctx = Arc::new(Mutex::new(TxCtx {
                    ops: ops.clone(),
                    results: Vec::new(),
                    ran: 0,
                }));
                let rc = unsafe { ffi::rodbus_server_update_database(srv.server, 1, tx_struct(&ctx)) };
                if rc != 0 {
                    return Err(format!("step {}: server_update_database returned {:?}", si, ffi::ParamError::from(rc)));
                }
                let g = ctx.lock().unwrap();
                if g.ran != 1 {
                    return Err(format!("step {}: transaction callback ran {} times", si, g.ran));
                }
                for (i, op) in ops.iter().enumerate() {
                    let before = model.clone();
                    let want = model.apply(op);
                    match op {
                        DbOp::Delete(t, idx) if want == R::Bool(true) => deleted.push((*t, *idx)),
                        DbOp::Add(t, idx, _) if want == R::Bool(true) && deleted.contains(&(*t, *idx)) => {
                            seen_delete_then_add = true
                        }
                        DbOp::Update(..) if want == R::Bool(false) => update_absent = true,
                        _ => {}
                    }
                    if g.results.get(i) != Some(&want) {
                        let _ = before;
                        return Err(format!(
                            "step {} op {} {:?}: returned {:?}, the map model says {:?}",
                            si,
                            i,
                            op,
                            g.results.get(i),
                            want
                        ));
                    }
                }
            }
            Step::ClientRead(t, start, count) => {
                tx = tx.wrapping_add(1);
                let fc = match t {
                    T::Coil => 1u8,
                    T::Discrete => 2,
                    T::Holding => 3,
                    T::Input => 4,
                };
                if *start as u32 + *count as u32 > 65536 {
                    continue;
                }
                let pdu = [fc, (start >> 8) as u8, *start as u8, (count >> 8) as u8, *count as u8];
                let reply = request(&mut stream, tx, &pdu)?;
                let mut expect: Option<Vec<u8>> = None;
                let mut absent = false;
                match t {
                    T::Coil | T::Discrete => {
                        let m = if *t == T::Coil { &model.coils } else { &model.discrete };
                        let mut bits = Vec::new();
                        for i in 0..*count {
                            match m.get(&(start.wrapping_add(i))) {
                                Some(b) => bits.push(*b),
                                None => absent = true,
                            }
                        }
                        if !absent {
                            expect = Some(crate::model::pdu::read_bits_reply(fc, &bits));
                        }
                    }
                    _ => {
                        let m = if *t == T::Holding { &model.holding } else { &model.input };
                        let mut regs = Vec::new();
                        for i in 0..*count {
                            match m.get(&(start.wrapping_add(i))) {
                                Some(r) => regs.push(*r),
                                None => absent = true,
                            }
                        }
                        if !absent {
                            expect = Some(crate::model::pdu::read_regs_reply(fc, &regs));
                        }
                    }
                }
                let expect = expect.unwrap_or_else(|| vec![fc | 0x80, 2]);
                if absent {
                    read_absent = true;
                }
                if *start as u32 + *count as u32 == 65536 {
                    read_top = true;
                    if !absent {
                        read_top_present = true;
                    }
                }
                if reply != expect {
                    return Err(format!(
                        "step {}: client read {:?} {}+{} answered {:02X?}, the map model says {:02X?}",
                        si, t, start, count, reply, expect
                    ));
                }
            }
        }
    }
    if seen_delete_then_add {
        ok.label("delete_then_add");
    }
    if update_absent {
        ok.label("update_of_absent");
    }
    if read_absent {
        ok.label("read_touching_absent_point");
    }
    if read_top {
        ok.label("read_ending_at_65535");
    }
    if read_top_present {
        ok.label("read_ending_at_65535_all_present");
    }
    ok.nontrivial = seen_delete_then_add && update_absent;
    drop(stream);
    drop(srv);
    Ok(ok)
}

// ---------------------------------------------------------------------------------------------
// atomicity under stress

struct WidenCtx {
    n: u16,
    value: AtomicU64,
    pause_at: AtomicU64,
    open: AtomicBool,
}

extern "C" fn widen_tx(db: *mut rodbus_ffi::Database, ctx: *mut c_void) {
    unsafe {
        let c = &*(ctx as *const WidenCtx);
        let v = c.value.load(Ordering::SeqCst) as u16;
        let pause = c.pause_at.load(Ordering::SeqCst) as u16;
        c.open.store(true, Ordering::SeqCst);
        for i in 0..c.n {
            if i == pause {
                // widen the window on purpose: a reply assembled outside the lock would now see
                // a half-applied transaction
                std::thread::sleep(Duration::from_micros(700));
            }
            ffi::rodbus_database_update_holding_register(db, i, v);
        }
        c.open.store(false, Ordering::SeqCst);
    }
}

extern "C" fn init_regs(db: *mut rodbus_ffi::Database, ctx: *mut c_void) {
    unsafe {
        let n = *(ctx as *const u16);
        for i in 0..n {
            ffi::rodbus_database_add_holding_register(db, i, 0);
        }
    }
}

pub fn c19_atomicity(ctx: &Ctx) -> SearchReport {
    let mut rep = SearchReport::empty(
        "c19_atomicity",
        "stress sampling with an amplified window: N in {2, 16, 125} holding registers; a writer thread commits transactions through rodbus_server_update_database that set all N to v, v+1, .. and sleeps 0.7 ms between two of the updates (position varies); 3 reader connections read all N registers in one request as fast as they can. Oracle: every reply is all-equal and values never go backwards per connection. Non-trivial = replies obtained while a transaction was open (overlap observed by the callback flag), distinct by (N, value).",
    );
    let rounds: u64 = match ctx.tier {
        Tier::Quick => 250,
        Tier::Thorough => 4000,
    };
    for n in [2u16, 16, 125] {
        let nbox = Box::leak(Box::new(n));
        let rt = match FfiRuntime::new(2) {
            Ok(r) => r,
            Err(e) => {
                rep.health_errors.push(e);
                return rep;
            }
        };
        let (server, port) = unsafe {
            let map = ffi::rodbus_device_map_create();
            let handler = ffi::WriteHandler {
                write_single_coil: Some(w_coil),
                write_single_register: Some(w_reg),
                write_multiple_coils: None,
                write_multiple_registers: None,
                on_destroy: Some(noop_destroy),
                ctx: std::ptr::null_mut(),
            };
            let cfg = ffi::DatabaseCallback {
                callback: Some(init_regs),
                on_destroy: Some(noop_destroy),
                ctx: nbox as *mut u16 as *mut c_void,
            };
            ffi::rodbus_device_map_add_endpoint(map, 1, handler, cfg);
            let filter = ffi::rodbus_address_filter_any();
            let mut out: *mut rodbus_ffi::Server = std::ptr::null_mut();
            let mut port = 0;
            for _ in 0..8 {
                port = free_port();
                let ip = cstr("127.0.0.1");
                let rc = ffi::rodbus_server_create_tcp(rt.0, ip.as_ptr(), port, filter, 8, map, decode_level(0, 0, 0), &mut out);
                if rc == 0 && !out.is_null() {
                    break;
                }
            }
            ffi::rodbus_address_filter_destroy(filter);
            ffi::rodbus_device_map_destroy(map);
            (out, port)
        };
        if server.is_null() {
            rep.health_errors.push("INFRA: could not create the server".to_string());
            return rep;
        }
        let wctx = Arc::new(WidenCtx {
            n,
            value: AtomicU64::new(0),
            pause_at: AtomicU64::new(1),
            open: AtomicBool::new(false),
        });
        let stop = Arc::new(AtomicBool::new(false));
        let violation: Arc<Mutex<Option<(String, serde_json::Value)>>> = Default::default();
        let overlapped = Arc::new(AtomicU64::new(0));
        let replies = Arc::new(AtomicU64::new(0));
        let mut readers = Vec::new();
        for r in 0..3 {
            let stop = stop.clone();
            let violation = violation.clone();
            let wctx = wctx.clone();
            let overlapped = overlapped.clone();
            let replies = replies.clone();
            readers.push(std::thread::spawn(move || {
                let mut s = match TcpStream::connect(("127.0.0.1", port)) {
                    Ok(s) => s,
                    Err(_) => return,
                };
                s.set_nodelay(true).ok();
                let mut tx = 0u16;
                let mut last: u16 = 0;
                while !stop.load(Ordering::SeqCst) {
                    tx = tx.wrapping_add(1);
                    let open_before = wctx.open.load(Ordering::SeqCst);
                    let reply = match request(&mut s, tx, &[3, 0, 0, (n >> 8) as u8, n as u8]) {
                        Ok(r) => r,
                        Err(e) => {
                            *violation.lock().unwrap() = Some((format!("reader {}: {}", r, e), json!({"n": n})));
                            return;
                        }
                    };
                    let open_after = wctx.open.load(Ordering::SeqCst);
                    replies.fetch_add(1, Ordering::Relaxed);
                    if open_before || open_after {
                        overlapped.fetch_add(1, Ordering::Relaxed);
                    }
                    if reply.len() != 2 + 2 * n as usize || reply[0] != 3 {
                        *violation.lock().unwrap() = Some((format!("reader {}: unexpected reply {:02X?}", r, &reply[..reply.len().min(8)]), json!({"n": n})));
                        return;
                    }
                    let vals: Vec<u16> = (0..n as usize).map(|i| ((reply[2 + 2 * i] as u16) << 8) | reply[3 + 2 * i] as u16).collect();
                    if vals.iter().any(|v| *v != vals[0]) {
                        let first_diff = vals.iter().position(|v| *v != vals[0]).unwrap();
                        *violation.lock().unwrap() = Some((
                            format!(
                                "a single read of {} registers observed part of a transaction: register 0 = {}, register {} = {}",
                                n, vals[0], first_diff, vals[first_diff]
                            ),
                            json!({"n": n, "values_head": &vals[..vals.len().min(6)], "first_different_index": first_diff}),
                        ));
                        return;
                    }
                    if vals[0] < last {
                        *violation.lock().unwrap() = Some((format!("values went backwards on one connection: {} after {}", vals[0], last), json!({"n": n})));
                        return;
                    }
                    last = vals[0];
                }
            }));
        }
        let t0 = Instant::now();
        let mut v = 0u64;
        loop {
            v += 1;
            // fixed work, extended (up to 10x) until enough replies overlapped a transaction
            let enough = overlapped.load(Ordering::Relaxed) >= 50;
            if (v > rounds && enough) || v > rounds * 10 {
                break;
            }
            if violation.lock().unwrap().is_some() || t0.elapsed() > Duration::from_secs(120) {
                break;
            }
            wctx.value.store(v, Ordering::SeqCst);
            wctx.pause_at.store(1 + (v % (n as u64 - 1).max(1)), Ordering::SeqCst);
            let cb = ffi::DatabaseCallback {
                callback: Some(widen_tx),
                on_destroy: Some(noop_destroy),
                ctx: Arc::as_ptr(&wctx) as *mut c_void,
            };
            let rc = unsafe { ffi::rodbus_server_update_database(server, 1, cb) };
            if rc != 0 {
                *violation.lock().unwrap() = Some((format!("server_update_database returned {}", rc), json!({"n": n})));
                break;
            }
            rep.stats.evaluations += 1;
            // leave room for the readers: the handler mutex is not fair
            std::thread::sleep(Duration::from_micros(400));
        }
        stop.store(true, Ordering::SeqCst);
        for r in readers {
            let _ = r.join();
        }
        unsafe { ffi::rodbus_server_destroy(server) };
        drop(rt);
        let ov = overlapped.load(Ordering::Relaxed);
        rep.stats.evaluations += replies.load(Ordering::Relaxed);
        rep.stats.nontrivial_total += ov;
        for i in 0..ov.min(100_000) {
            rep.stats.distinct.insert(((n as u64) << 32) | i);
        }
        rep.stats.labels.insert(format!("replies_n{}", n), replies.load(Ordering::Relaxed));
        rep.stats.labels.insert(format!("replies_overlapping_a_transaction_n{}", n), ov);
        if let Some((m, c)) = violation.lock().unwrap().take() {
            rep.failure = Some(Failure {
                message: m,
                case: c,
                hang: false,
            });
            return rep;
        }
        if ov < 20 {
            rep.health_errors.push(format!(
                "c19_atomicity: only {} replies overlapped an open transaction for N={} (generator health)",
                ov, n
            ));
        }
    }
    rep.stats.samples.push(json!({"n": 16, "writer": "update all registers to v with a 0.7 ms pause after register k", "readers": 3}));
    rep
}

pub fn c19_atomicity_replay(_v: &serde_json::Value) -> CaseResult {
    let ctx = Ctx {
        tier: Tier::Quick,
        seed: 1,
        scale: 1.0,
        threads: 4,
        verif_dir: std::path::PathBuf::from("/verif"),
    };
    match c19_atomicity(&ctx).failure {
        Some(f) => Err(f.message),
        None => Ok(CaseOk::new()),
    }
}

// ---------------------------------------------------------------------------------------------
// isolation: one map, whoever writes to it. A client write acknowledged while a transaction is
// running must not be lost when the transaction ends; two transactions from two threads must
// not lose each other's work.

extern "C" fn apply_reg(i: u16, v: u16, db: *mut rodbus_ffi::Database, _ctx: *mut c_void) -> ffi::WriteResult {
    unsafe {
        if ffi::rodbus_database_update_holding_register(db, i, v) {
            ffi::WriteResultFields { success: true, exception: ffi::ModbusException::IllegalFunction, raw_exception: 0 }.into()
        } else {
            ffi::WriteResultFields { success: false, exception: ffi::ModbusException::IllegalDataAddress, raw_exception: 0 }.into()
        }
    }
}

struct SlowTx {
    value: AtomicU64,
    inside: AtomicBool,
    client_done: AtomicBool,
}

extern "C" fn slow_tx(db: *mut rodbus_ffi::Database, ctx: *mut c_void) {
    unsafe {
        let c = &*(ctx as *const SlowTx);
        let v = c.value.load(Ordering::SeqCst) as u16;
        ffi::rodbus_database_update_holding_register(db, 0, v);
        c.inside.store(true, Ordering::SeqCst);
        // give a concurrent client write the chance to be acknowledged while this transaction is
        // still running (an implementation that serialises them simply makes it wait)
        let t0 = Instant::now();
        while !c.client_done.load(Ordering::SeqCst) && t0.elapsed() < Duration::from_millis(25) {
            std::thread::sleep(Duration::from_micros(200));
        }
        ffi::rodbus_database_update_holding_register(db, 2, v);
        c.inside.store(false, Ordering::SeqCst);
    }
}

extern "C" fn incr_tx(db: *mut rodbus_ffi::Database, _ctx: *mut c_void) {
    unsafe {
        let mut r = 0u16;
        if ffi::rodbus_database_get_holding_register(db, 3, &mut r) == 0 {
            // widen the window between read and write a little
            std::thread::yield_now();
            ffi::rodbus_database_update_holding_register(db, 3, r.wrapping_add(1));
        }
    }
}

pub fn c19_isolation(ctx: &Ctx) -> SearchReport {
    let mut rep = SearchReport::empty(
        "c19_isolation",
        "one map, whoever writes: (a) rounds in which a transaction (holding 0 and 2 := k) is kept open for up to 25 ms while a client writes holding 1 := k through the write handler (which updates the database); after both have finished a read of 0..3 must return [k, k, k] - an acknowledged client write is never lost; (b) two threads run N increment transactions each (get + update of holding 3): the final value is 2N. Non-trivial (a) = rounds in which the client write was submitted while the transaction was open.",
    );
    let rounds: u64 = match ctx.tier {
        Tier::Quick => 40,
        Tier::Thorough => 600,
    };
    let n4 = Box::leak(Box::new(4u16));
    let rt = match FfiRuntime::new(2) {
        Ok(r) => r,
        Err(e) => {
            rep.health_errors.push(e);
            return rep;
        }
    };
    let (server, port) = unsafe {
        let map = ffi::rodbus_device_map_create();
        let handler = ffi::WriteHandler {
            write_single_coil: Some(w_coil),
            write_single_register: Some(apply_reg),
            write_multiple_coils: None,
            write_multiple_registers: None,
            on_destroy: Some(noop_destroy),
            ctx: std::ptr::null_mut(),
        };
        let cfg = ffi::DatabaseCallback {
            callback: Some(init_regs),
            on_destroy: Some(noop_destroy),
            ctx: n4 as *mut u16 as *mut c_void,
        };
        ffi::rodbus_device_map_add_endpoint(map, 1, handler, cfg);
        let filter = ffi::rodbus_address_filter_any();
        let mut out: *mut rodbus_ffi::Server = std::ptr::null_mut();
        let mut port = 0;
        for _ in 0..8 {
            port = free_port();
            let ip = cstr("127.0.0.1");
            let rc = ffi::rodbus_server_create_tcp(rt.0, ip.as_ptr(), port, filter, 8, map, decode_level(0, 0, 0), &mut out);
            if rc == 0 && !out.is_null() {
                break;
            }
        }
        ffi::rodbus_address_filter_destroy(filter);
        ffi::rodbus_device_map_destroy(map);
        (out, port)
    };
    if server.is_null() {
        rep.health_errors.push("INFRA: could not create the server".to_string());
        return rep;
    }
    struct ServerPtr(*mut rodbus_ffi::Server);
    unsafe impl Send for ServerPtr {}
    unsafe impl Sync for ServerPtr {}
    let sp = Arc::new(ServerPtr(server));
    let fail = |rep: &mut SearchReport, m: String, c: serde_json::Value| {
        rep.failure = Some(Failure {
            message: m,
            case: c,
            hang: false,
        });
    };
    // ---- (a)
    let mut s = match TcpStream::connect(("127.0.0.1", port)) {
        Ok(s) => s,
        Err(e) => {
            rep.health_errors.push(format!("INFRA: connect {}", e));
            unsafe { ffi::rodbus_server_destroy(server) };
            return rep;
        }
    };
    s.set_nodelay(true).ok();
    let mut during = 0u64;
    for k in 1..=rounds {
        let st = Arc::new(SlowTx {
            value: AtomicU64::new(k),
            inside: AtomicBool::new(false),
            client_done: AtomicBool::new(false),
        });
        let st2 = st.clone();
        let sp2 = sp.clone();
        let txn = std::thread::spawn(move || {
            let cb = ffi::DatabaseCallback {
                callback: Some(slow_tx),
                on_destroy: Some(noop_destroy),
                ctx: Arc::as_ptr(&st2) as *mut c_void,
            };
            unsafe { ffi::rodbus_server_update_database(sp2.0, 1, cb) }
        });
        // wait until the transaction is open, then write
        let t0 = Instant::now();
        while !st.inside.load(Ordering::SeqCst) && t0.elapsed() < Duration::from_millis(500) {
            std::thread::sleep(Duration::from_micros(100));
        }
        let was_open = st.inside.load(Ordering::SeqCst);
        let ack = request(&mut s, k as u16, &[6, 0, 1, (k >> 8) as u8, k as u8]);
        st.client_done.store(true, Ordering::SeqCst);
        let rc = txn.join().unwrap_or(-1);
        rep.stats.evaluations += 1;
        let case = json!({"scenario": "client write during an open transaction", "round": k});
        if rc != 0 {
            fail(&mut rep, format!("server_update_database returned {}", rc), case);
            break;
        }
        match ack {
            Ok(p) if p == vec![6, 0, 1, (k >> 8) as u8, k as u8] => {}
            other => {
                fail(&mut rep, format!("round {}: write single register was answered {:02X?}", k, other), case);
                break;
            }
        }
        if was_open {
            during += 1;
        }
        let kk = k as u16;
        match request(&mut s, 0x8000 | kk, &[3, 0, 0, 0, 3]) {
            Ok(p) => {
                let want = vec![3, 6, (kk >> 8) as u8, kk as u8, (kk >> 8) as u8, kk as u8, (kk >> 8) as u8, kk as u8];
                if p != want {
                    let vals: Vec<u16> = p.get(2..).unwrap_or(&[]).chunks(2).filter(|c| c.len() == 2).map(|c| ((c[0] as u16) << 8) | c[1] as u16).collect();
                    fail(
                        &mut rep,
                        format!(
                            "round {}: the transaction set registers 0 and 2 to {}, a client write of register 1 := {} was acknowledged while the transaction was running; afterwards the registers read {:?}",
                            k, k, k, vals
                        ),
                        case,
                    );
                    break;
                }
            }
            Err(e) => {
                fail(&mut rep, format!("round {}: read failed: {}", k, e), case);
                break;
            }
        }
        rep.stats.nontrivial_total += was_open as u64;
        rep.stats.distinct.insert(k);
    }
    rep.stats.labels.insert("client_write_submitted_while_transaction_open".to_string(), during);
    // ---- (b)
    if rep.failure.is_none() {
        let n = rounds * 5;
        let mut threads = Vec::new();
        for _ in 0..2 {
            let sp2 = sp.clone();
            threads.push(std::thread::spawn(move || {
                for _ in 0..n {
                    let cb = ffi::DatabaseCallback {
                        callback: Some(incr_tx),
                        on_destroy: Some(noop_destroy),
                        ctx: std::ptr::null_mut(),
                    };
                    unsafe { ffi::rodbus_server_update_database(sp2.0, 1, cb) };
                }
            }));
        }
        for t in threads {
            let _ = t.join();
        }
        rep.stats.evaluations += 2 * n;
        match request(&mut s, 7, &[3, 0, 3, 0, 1]) {
            Ok(p) if p.len() == 4 => {
                let v = ((p[2] as u16) << 8) | p[3] as u16;
                if v as u64 != (2 * n) % 65536 {
                    fail(
                        &mut rep,
                        format!("two threads ran {} increment transactions each on register 3: it reads {}, expected {}", n, v, 2 * n),
                        json!({"scenario": "concurrent increment transactions", "per_thread": n}),
                    );
                }
            }
            other => fail(&mut rep, format!("read of register 3 answered {:02X?}", other), json!({"scenario": "concurrent increment transactions"})),
        }
        rep.stats.labels.insert("increment_transactions".to_string(), 2 * n);
    }
    drop(s);
    unsafe { ffi::rodbus_server_destroy(server) };
    drop(rt);
    if rep.failure.is_none() && during < rounds / 2 {
        rep.health_errors.push(format!("c19_isolation: only {} of {} client writes were submitted while the transaction was open (generator health)", during, rounds));
    }
    rep.stats.samples.push(json!({"scenario": "client write during an open transaction", "registers": [0, 1, 2]}));
    rep
}

pub fn c19_isolation_replay(_v: &serde_json::Value) -> CaseResult {
    let ctx = Ctx {
        tier: Tier::Quick,
        seed: 1,
        scale: 1.0,
        threads: 4,
        verif_dir: std::path::PathBuf::from("/verif"),
    };
    match c19_isolation(&ctx).failure {
        Some(f) => Err(f.message),
        None => Ok(CaseOk::new()),
    }
}
