#![no_main]
//! libFuzzer target: client loop. The fuzzer owns what the peer sends in answer to up to four
//! requests; the target carries the C07 oracle (no panic, poll budget, every request completes
//! exactly once, task ends) and the C04 reply classifier for the first request.
use arbitrary::Unstructured;
use libfuzzer_sys::fuzz_target;
use vh::model::pdu::Kind;
use vh::props::robust::{check_c07_cli, C07Cli, Finish};
use vh::simcli::ReqSpec;
use vh::simsrv::{Decode, Fr};

fuzz_target!(|data: &[u8]| {
    let mut u = Unstructured::new(data);
    let hdr: [u8; 6] = match u.arbitrary() {
        Ok(h) => h,
        Err(_) => return,
    };
    let framing = if hdr[0] & 1 == 0 { Fr::Mbap } else { Fr::Rtu };
    let decode = Decode {
        app: hdr[1] % 4,
        frame: hdr[2] % 3,
        phys: hdr[3] % 3,
    };
    let nreq = 1 + (hdr[4] % 4) as usize;
    let mut requests = Vec::new();
    for k in 0..nreq {
        let sel: u8 = u.arbitrary().unwrap_or(0);
        let len: u16 = u.arbitrary().unwrap_or(0);
        let n = (len as usize % 300).min(u.len());
        let bytes = u.bytes(n).map(|b| b.to_vec()).unwrap_or_default();
        let req = match sel % 8 {
            0 => ReqSpec::Read { kind: Kind::ReadCoils, start: 0, count: 9 },
            1 => ReqSpec::Read { kind: Kind::ReadDiscrete, start: 65530, count: 6 },
            2 => ReqSpec::Read { kind: Kind::ReadHolding, start: 65535, count: 1 },
            3 => ReqSpec::Read { kind: Kind::ReadInput, start: 3, count: 125 },
            4 => ReqSpec::WriteCoil { addr: 2, value: true },
            5 => ReqSpec::WriteReg { addr: 65535, value: 0xABCD },
            6 => ReqSpec::WriteCoils { start: 65528, values: vec![true; 8] },
            _ => ReqSpec::WriteRegs { start: 1, values: vec![1, 2, 3] },
        };
        requests.push((k as u8 + 1, 50u32, req, bytes, sel as u16));
    }
    let idle = u.take_rest().to_vec();
    let case = C07Cli {
        framing,
        decode,
        max_timeouts: if hdr[5] & 1 == 1 { Some(2) } else { None },
        requests,
        idle,
        finish: match hdr[5] % 3 {
            0 => Finish::Eof,
            1 => Finish::Park,
            _ => Finish::ReadErr(vh::sim::IoKind::BrokenPipe),
        },
        select_seed: hdr[5] as u64,
    };
    if let Err(m) = check_c07_cli(&case) {
        panic!("VERIF-VIOLATION property=C07 {}", m);
    }
});
