//! CRC-16/MODBUS, bit by bit (reflected polynomial 0xA001, initial value 0xFFFF, no final xor).
//! Deliberately not table driven and not the `crc` crate.

pub fn crc16(data: &[u8]) -> u16 {
    let mut crc: u16 = 0xFFFF;
    for b in data {
        crc ^= *b as u16;
        for _ in 0..8 {
            if crc & 1 != 0 {
                crc = (crc >> 1) ^ 0xA001;
            } else {
                crc >>= 1;
            }
        }
    }
    crc
}

/// address + pdu + crc (low byte first)
pub fn rtu_frame(addr: u8, pdu: &[u8]) -> Vec<u8> {
    let mut out = Vec::with_capacity(pdu.len() + 3);
    out.push(addr);
    out.extend_from_slice(pdu);
    let c = crc16(&out);
    out.push((c & 0xFF) as u8);
    out.push((c >> 8) as u8);
    out
}

#[cfg(test)]
mod tests {
    #[test]
    fn check_value() {
        // standard check value for CRC-16/MODBUS
        assert_eq!(super::crc16(b"123456789"), 0x4B37);
    }
}
