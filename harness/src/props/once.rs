//! C10: every client request completes exactly once, under every interleaving; the error tells
//! what happened.

use std::time::Duration;

use proptest::collection::vec;
use proptest::prelude::*;

use crate::gen::*;
use crate::model::pdu::*;
use crate::props::cli::{arb_req_spec, arb_valid_req};
use crate::runner::{CaseOk, CaseResult};
use crate::sim::IoKind;
use crate::simcli::*;
use crate::simsrv::Fr;

fn arb_peer_acts() -> BoxedStrategy<Vec<PeerAct>> {
    let one = prop_oneof![
        6 => (prop::sample::select(vec![1u32, 2, 5, 20, 60]), any::<u64>(), proptest::option::weighted(0.2, (1u16..10, 1u32..30))).prop_map(|(d, s, split)| PeerAct::Frame { delay_ms: d, tx: TxSel::Echo, pdu: PduSel::Genuine(s), split }),
        2 => (1u32..30, any::<u8>()).prop_map(|(d, c)| PeerAct::Frame { delay_ms: d, tx: TxSel::Echo, pdu: PduSel::Exception(c), split: None }),
        1 => (1u32..30, any::<u64>()).prop_map(|(d, s)| PeerAct::Frame { delay_ms: d, tx: TxSel::Offset(65535), pdu: PduSel::Genuine(s), split: None }),
        1 => (1u32..30).prop_map(|d| PeerAct::Frame { delay_ms: d, tx: TxSel::Echo, pdu: PduSel::OtherFunction, split: None }),
        1 => (1u32..30, vec(any::<u8>(), 1..12)).prop_map(|(d, b)| PeerAct::Raw { delay_ms: d, bytes: b }),
        1 => (1u32..30).prop_map(|d| PeerAct::Eof { delay_ms: d }),
        1 => (1u32..30, prop::sample::select(IoKind::ALL.to_vec())).prop_map(|(d, k)| PeerAct::Err { delay_ms: d, kind: k }),
    ];
    prop_oneof![
        2 => Just(Vec::new()),
        8 => one.clone().prop_map(|a| vec![a]),
        1 => vec(one, 2..3),
    ]
    .boxed()
}

fn arb_conn() -> BoxedStrategy<ConnPlan> {
    (
        vec(arb_peer_acts(), 0..4),
        prop_oneof![
            4 => (prop::sample::select(vec![1u32, 2, 5]), any::<u64>()).prop_map(|(d, s)| vec![PeerAct::Frame { delay_ms: d, tx: TxSel::Echo, pdu: PduSel::Genuine(s), split: None }]),
            1 => arb_peer_acts(),
        ],
        proptest::option::weighted(0.15, (0usize..4, prop::sample::select(IoKind::ALL.to_vec()))),
        // back-pressure: the transport stops accepting bytes for a while after some bytes
        // (u32::MAX ms = longer than the whole run: a peer that stopped reading for good)
        proptest::option::weighted(0.2, (0u32..60, prop::sample::select(vec![1u32, 3, 10, 40, 200, u32::MAX, u32::MAX]))),
    )
        .prop_map(|(per_request, default, fail_write_at, write_stall)| ConnPlan {
            peer: PeerPlan {
                per_request,
                default,
            },
            fail_write_at,
            write_stall,
            unsolicited: vec![],
        })
        .boxed()
}

fn arb_op() -> BoxedStrategy<COp> {
    prop_oneof![
        10 => (prop_oneof![3 => Just(Style::Future), 2 => Just(Style::Callback), 2 => Just(Style::Ffi)], 0usize..4, any::<u8>(), prop::sample::select(vec![0u32, 3, 10, 50, 500]), prop_oneof![9 => arb_valid_req(), 1 => arb_req_spec()])
            .prop_map(|(style, handle, unit, timeout_ms, req)| COp::Submit { id: 0, style, handle, unit, timeout_ms, req }),
        6 => prop::sample::select(vec![1u32, 2, 3, 5, 10, 50, 600]).prop_map(COp::Advance),
        2 => Just(COp::Yield),
        2 => (0usize..4).prop_map(COp::Enable),
        2 => (0usize..4).prop_map(COp::Disable),
        1 => ((0usize..4), arb_decode_any()).prop_map(|(h, d)| COp::SetDecode(h, d)),
        1 => (0usize..4).prop_map(COp::Shutdown),
        1 => (0usize..4).prop_map(COp::CloneHandle),
        1 => (0usize..4).prop_map(COp::DropHandle),
        1 => (0usize..40).prop_map(COp::DropFuture),
        1 => vec(any::<u8>(), 1..20).prop_map(COp::PeerBytes),
        1 => Just(COp::PeerEof),
        1 => prop::sample::select(IoKind::ALL.to_vec()).prop_map(COp::PeerErr),
    ]
    .boxed()
}

pub fn arb_c10() -> BoxedStrategy<CliCase> {
    (
        prop_oneof![2 => Just(Fr::Mbap), 1 => Just(Fr::Rtu)],
        arb_decode(),
        proptest::option::weighted(0.3, 1u16..4),
        1usize..=16,
        prop::sample::select(vec![5u32, 20, 100]),
        prop_oneof![1 => vec(arb_conn(), 0..1), 9 => vec(arb_conn(), 1..4)],
        vec(arb_op(), 1..40),
        any::<u64>(),
        prop::bool::weighted(0.8),
        prop::bool::weighted(0.05),
    )
        .prop_map(|(framing, decode, max_timeouts, queue, retry_ms, conns, mut ops, select_seed, pre_enable, abort)| {
            // number the submissions
            let mut next = 0usize;
            for op in ops.iter_mut() {
                if let COp::Submit { id, .. } = op {
                    *id = next;
                    next += 1;
                }
            }
            // DropFuture targets refer to earlier submissions
            let total = next.max(1);
            for op in ops.iter_mut() {
                if let COp::DropFuture(id) = op {
                    *id %= total;
                }
            }
            if abort {
                let pos = ops.len() / 2;
                ops.insert(pos, COp::AbortTask);
            }
            CliCase {
                cfg: CliConfig {
                    framing,
                    decode,
                    max_timeouts,
                    queue,
                    retry_ms,
                },
                conns,
                ops,
                select_seed,
                pre_enable,
            }
        })
        .boxed()
}

pub fn check_c10(case: &CliCase) -> CaseResult {
    let mut ok = CaseOk::new();
    let run = run_client(case);
    let fr = case.cfg.framing;

    // script facts
    let mut shutdown_op_at: Option<Duration> = None;
    let mut all_handles_dropped_at: Option<Duration> = None;
    let mut abort_at: Option<Duration> = None;
    {
        let mut handles: Vec<bool> = vec![true];
        for (i, op) in case.ops.iter().enumerate() {
            let t = run.op_times.get(i).copied().unwrap_or(run.final_time);
            match op {
                COp::Shutdown(h) => {
                    if handles[*h % handles.len()] && shutdown_op_at.is_none() {
                        shutdown_op_at = Some(t);
                    }
                }
                COp::CloneHandle(h) => {
                    if handles[*h % handles.len()] {
                        handles.push(true);
                    }
                }
                COp::DropHandle(h) => {
                    let n = handles.len();
                    handles[*h % n] = false;
                    if handles.iter().all(|x| !*x) && all_handles_dropped_at.is_none() {
                        all_handles_dropped_at = Some(t);
                    }
                }
                COp::AbortTask => {
                    if abort_at.is_none() {
                        abort_at = Some(t);
                    }
                }
                _ => {}
            }
        }
    }
    let script_end = run.op_times.last().copied().unwrap_or(Duration::ZERO);
    let task_end_at = run
        .events
        .iter()
        .find(|e| e.1 == LoopEvent::TaskEnd)
        .map(|e| e.0);
    // connected intervals
    let mut connected: Vec<(Duration, Duration)> = Vec::new();
    {
        let mut start = None;
        for (t, e) in &run.events {
            match e {
                LoopEvent::Connected(_) => start = Some(*t),
                LoopEvent::SessionEnd(..) => {
                    if let Some(s) = start.take() {
                        connected.push((s, *t));
                    }
                }
                _ => {}
            }
        }
        if let Some(s) = start {
            connected.push((s, abort_at.unwrap_or(run.final_time)));
        }
    }
    // injected error kinds
    let mut io_kinds: Vec<String> = Vec::new();
    let mut note = |k: IoKind| io_kinds.push(format!("{:?}", k.kind()));
    let mut eof_possible = false;
    let mut garbage_possible = false;
    let mut stall_possible = false;
    for c in &case.conns {
        if let Some((_, k)) = c.fail_write_at {
            note(k);
        }
        if c.write_stall.is_some() {
            // a write the transport does not take within the request's timeout is given up and
            // reported as an I/O time-out (the connection is dropped with it)
            stall_possible = true;
        }
        for acts in c.peer.per_request.iter().chain(std::iter::once(&c.peer.default)) {
            for a in acts {
                match a {
                    PeerAct::Err { kind, .. } => note(*kind),
                    PeerAct::Eof { .. } => eof_possible = true,
                    PeerAct::Raw { .. } => garbage_possible = true,
                    PeerAct::Frame { pdu, .. } => {
                        if fr == Fr::Rtu {
                            // a frame of another function / exception re-frames on RTU
                            let _ = pdu;
                            garbage_possible = true;
                        }
                    }
                }
            }
        }
    }
    for op in &case.ops {
        match op {
            COp::PeerErr(k) => note(*k),
            COp::PeerEof => eof_possible = true,
            COp::PeerBytes(_) => garbage_possible = true,
            _ => {}
        }
    }
    if eof_possible {
        io_kinds.push("UnexpectedEof".to_string());
    }
    if stall_possible {
        io_kinds.push("TimedOut".to_string());
    }

    let mut inflight_hit = false;
    for op in case.ops.iter() {
        let (id, style, unit, timeout_ms, req) = match op {
            COp::Submit {
                id,
                style,
                unit,
                timeout_ms,
                req,
                ..
            } => (*id, *style, *unit, *timeout_ms, req),
            _ => continue,
        };
        let comps: Vec<&Completion> = run.ledger.completions.iter().filter(|c| c.id == id).collect();
        let refusal = run.ledger.refusals.iter().find(|r| r.0 == id);
        let submitted = run.ledger.submitted.iter().find(|s| s.0 == id);
        let cancelled = run.ledger.cancelled.contains(&id);
        if submitted.is_none() && refusal.is_none() {
            // no live handle to submit through
            continue;
        }
        if comps.len() > 1 {
            return Err(format!(
                "request {} completed {} times: {:?}",
                id,
                comps.len(),
                comps.iter().map(|c| (&c.res, c.at)).collect::<Vec<_>>()
            ));
        }
        if let Some(r) = refusal {
            ok.label("refused_at_handle");
            if matches!(r.2, Refusal::Constructor(_)) && !comps.is_empty() {
                return Err(format!("request {} never existed (constructor error) but completed", id));
            }
            // at most once (already checked); what it reports is not judged
            continue;
        }
        if cancelled {
            ok.label("caller_cancelled");
            continue;
        }
        if abort_at.is_some() && comps.is_empty() && style == Style::Future {
            // the spawned submit task may have been blocked on a full queue when everything was
            // torn down; it is aborted by the harness itself
            let blocked = true;
            if blocked {
                ok.label("blocked_at_abort");
                continue;
            }
        }
        if comps.is_empty() {
            // a Future-style submission blocked on a full queue until the harness aborted it is
            // not a lost request: the request never entered the queue
            if style == Style::Future || style == Style::Callback {
                ok.label("never_queued");
                // distinguish: was the queue really full for the whole time? If the task ended,
                // send() must have failed, which would have recorded Shutdown.
                if run.task_ended && abort_at.is_none() && style == Style::Future {
                    return Err(format!(
                        "request {} (submitted at {:?}) never completed although the task ended",
                        id, submitted
                    ));
                }
                continue;
            }
            return Err(format!("request {} was accepted by the handle but never completed", id));
        }
        let c = comps[0];
        let t = c.at;
        ok.label(match c.res {
            Res::Ok(_) => "res:ok",
            Res::Exception(_) => "res:exception",
            Res::Io(_) => "res:io",
            Res::BadFrame(_) => "res:bad_frame",
            Res::BadResponse(_) => "res:bad_response",
            Res::ResponseTimeout => "res:timeout",
            Res::NoConnection => "res:no_connection",
            Res::Shutdown => "res:shutdown",
            Res::BadRequest(_) => "res:bad_request",
            Res::Internal(_) => "res:internal",
        });
        let valid = req.to_valid();
        let transmitted_at = |before: Duration| -> Vec<Duration> {
            let mut v = Vec::new();
            if let Some(vr) = &valid {
                let pdu = encode_request(vr);
                for p in &run.peers {
                    for (at, _tx, u, sent) in &p.requests {
                        if *u == unit && *sent == pdu && *at <= before {
                            v.push(*at);
                        }
                    }
                }
            }
            v
        };
        let in_session = connected.iter().any(|(a, b)| t > *a && t < *b);
        match &c.res {
            Res::Shutdown => {
                let justified = shutdown_op_at.map(|s| s <= t).unwrap_or(false)
                    || all_handles_dropped_at.map(|s| s <= t).unwrap_or(false)
                    || abort_at.map(|s| s <= t).unwrap_or(false)
                    || task_end_at.map(|s| s <= t).unwrap_or(false)
                    || t >= script_end;
                if !justified {
                    return Err(format!(
                        "request {} failed with Shutdown at {:?} although the task was alive, no shutdown had been requested and handles existed",
                        id, t
                    ));
                }
            }
            Res::NoConnection => {
                if in_session {
                    return Err(format!(
                        "request {} failed with NoConnection at {:?} in the middle of a connected session {:?}",
                        id, t, connected
                    ));
                }
            }
            Res::ResponseTimeout => {
                let to = Duration::from_millis(timeout_ms as u64);
                let ws = transmitted_at(t);
                if !ws.iter().any(|w| *w + to == t) {
                    return Err(format!(
                        "request {} timed out at {:?} but no transmission of it at {:?} - {} ms (transmissions: {:?})",
                        id, t, t, timeout_ms, ws
                    ));
                }
            }
            Res::Io(kind) => {
                if !io_kinds.iter().any(|k| k == kind) {
                    return Err(format!(
                        "request {} failed with Io({}) but the script only injects {:?}",
                        id, kind, io_kinds
                    ));
                }
            }
            Res::BadFrame(_) => {
                if !garbage_possible {
                    return Err(format!(
                        "request {} failed with a framing error but the peer only sent well-formed frames",
                        id
                    ));
                }
            }
            Res::Ok(_) | Res::Exception(_) | Res::BadResponse(_) => {
                if valid.is_some() && transmitted_at(t).is_empty() {
                    return Err(format!(
                        "request {} got {:?} at {:?} without ever being transmitted",
                        id, c.res, t
                    ));
                }
            }
            Res::BadRequest(_) | Res::Internal(_) => {
                if valid.is_some() {
                    return Err(format!(
                        "valid request {} failed with {:?}",
                        id, c.res
                    ));
                }
            }
        }
        let _ = submitted;
    }

    // a disruptive op while one request was in flight and another queued
    for (i, op) in case.ops.iter().enumerate() {
        let disruptive = matches!(
            op,
            COp::Shutdown(_) | COp::Disable(_) | COp::AbortTask | COp::PeerEof | COp::PeerErr(_) | COp::DropHandle(_)
        );
        if !disruptive {
            continue;
        }
        let t = run.op_times.get(i).copied().unwrap_or(Duration::ZERO);
        let pending = run
            .ledger
            .submitted
            .iter()
            .filter(|(id, at)| {
                *at <= t
                    && run
                        .ledger
                        .completions
                        .iter()
                        .find(|c| c.id == *id)
                        .map(|c| c.at > t)
                        .unwrap_or(true)
            })
            .count();
        let transmitted = run
            .peers
            .iter()
            .any(|p| p.requests.iter().any(|r| r.0 <= t));
        if pending >= 2 && transmitted {
            inflight_hit = true;
        }
    }
    if inflight_hit {
        ok.label("disruption_with_inflight_and_queued");
    }
    // the task must end once every handle is gone
    if !run.task_ended {
        return Err("client task still running after every handle was dropped".to_string());
    }
    ok.nontrivial = inflight_hit;
    Ok(ok)
}
