//! The "application" side used by server checks: point tables with per-address exception maps,
//! an instrumented `RequestHandler` that logs every call, and an instrumented authorization
//! handler answering from a generated policy. The same pure `UnitState` is used by the
//! reference server model (it is the application, not the system under test).

use std::collections::BTreeMap;
use std::sync::{Arc, Mutex};

use rodbus::server::{Authorization, AuthorizationHandler, RequestHandler, WriteCoils, WriteRegisters};
use rodbus::{AddressRange, ExceptionCode, Indexed, UnitId};
use serde::{Deserialize, Serialize};

use crate::model::pdu::{Kind, Table};

/// An exception the application raises: the code on the wire and whether the handler returns it
/// as `ExceptionCode::Unknown(code)` even if the code has a named variant
#[derive(Copy, Clone, Debug, PartialEq, Eq, Hash, PartialOrd, Ord, Serialize, Deserialize)]
pub struct Exc {
    pub code: u8,
    pub as_unknown: bool,
}

impl Exc {
    pub fn to_rodbus(self) -> ExceptionCode {
        if self.as_unknown {
            ExceptionCode::Unknown(self.code)
        } else {
            ExceptionCode::from(self.code)
        }
    }
}

pub const ILLEGAL_DATA_ADDRESS: Exc = Exc {
    code: 2,
    as_unknown: false,
};

#[derive(Clone, Debug, Default, PartialEq, Eq, Hash, Serialize, Deserialize)]
pub struct UnitState {
    pub coils: BTreeMap<u16, bool>,
    pub discrete: BTreeMap<u16, bool>,
    pub holding: BTreeMap<u16, u16>,
    pub input: BTreeMap<u16, u16>,
    /// reads of these points raise
    pub read_ex: Vec<(Table, u16, Exc)>,
    /// writes touching these points raise (nothing is applied)
    pub write_ex: Vec<(Table, u16, Exc)>,
}

fn find_ex(v: &[(Table, u16, Exc)], table: Table, addr: u16) -> Option<Exc> {
    v.iter()
        .find(|(t, a, _)| *t == table && *a == addr)
        .map(|x| x.2)
}

impl UnitState {
    pub fn read_bit(&self, table: Table, addr: u16) -> Result<bool, Exc> {
        if let Some(e) = find_ex(&self.read_ex, table, addr) {
            return Err(e);
        }
        let t = match table {
            Table::Coils => &self.coils,
            Table::Discrete => &self.discrete,
            _ => return Err(ILLEGAL_DATA_ADDRESS),
        };
        t.get(&addr).copied().ok_or(ILLEGAL_DATA_ADDRESS)
    }

    pub fn read_reg(&self, table: Table, addr: u16) -> Result<u16, Exc> {
        if let Some(e) = find_ex(&self.read_ex, table, addr) {
            return Err(e);
        }
        let t = match table {
            Table::Holding => &self.holding,
            Table::Input => &self.input,
            _ => return Err(ILLEGAL_DATA_ADDRESS),
        };
        t.get(&addr).copied().ok_or(ILLEGAL_DATA_ADDRESS)
    }

    /// all-or-nothing write of coils: the first offending address (ascending) decides the exception
    pub fn write_coils(&mut self, values: &[(u16, bool)]) -> Result<(), Exc> {
        for (a, _) in values {
            if let Some(e) = find_ex(&self.write_ex, Table::Coils, *a) {
                return Err(e);
            }
            if !self.coils.contains_key(a) {
                return Err(ILLEGAL_DATA_ADDRESS);
            }
        }
        for (a, v) in values {
            self.coils.insert(*a, *v);
        }
        Ok(())
    }

    pub fn write_regs(&mut self, values: &[(u16, u16)]) -> Result<(), Exc> {
        for (a, _) in values {
            if let Some(e) = find_ex(&self.write_ex, Table::Holding, *a) {
                return Err(e);
            }
            if !self.holding.contains_key(a) {
                return Err(ILLEGAL_DATA_ADDRESS);
            }
        }
        for (a, v) in values {
            self.holding.insert(*a, *v);
        }
        Ok(())
    }
}

/// One observed application-level call
#[derive(Clone, Debug, PartialEq, Eq, Hash, Serialize, Deserialize)]
pub enum Call {
    Read {
        unit: u8,
        table: Table,
        addr: u16,
    },
    WriteCoil {
        unit: u8,
        addr: u16,
        value: bool,
    },
    WriteReg {
        unit: u8,
        addr: u16,
        value: u16,
    },
    WriteCoils {
        unit: u8,
        start: u16,
        count: u16,
        values: Vec<(u16, bool)>,
        len_hint: usize,
    },
    WriteRegs {
        unit: u8,
        start: u16,
        count: u16,
        values: Vec<(u16, u16)>,
        len_hint: usize,
    },
    Auth {
        kind: Kind,
        unit: u8,
        start: u16,
        /// None for single writes (the handler receives an index)
        count: Option<u16>,
        role: String,
        allowed: bool,
    },
}

impl Call {
    pub fn unit(&self) -> u8 {
        match self {
            Call::Read { unit, .. }
            | Call::WriteCoil { unit, .. }
            | Call::WriteReg { unit, .. }
            | Call::WriteCoils { unit, .. }
            | Call::WriteRegs { unit, .. }
            | Call::Auth { unit, .. } => *unit,
        }
    }
    pub fn is_auth(&self) -> bool {
        matches!(self, Call::Auth { .. })
    }
}

pub type CallLog = Arc<Mutex<Vec<Call>>>;

/// Instrumented request handler
pub struct LogHandler {
    pub unit: u8,
    pub state: UnitState,
    pub log: CallLog,
}

impl LogHandler {
    pub fn new(unit: u8, state: UnitState, log: CallLog) -> Self {
        Self { unit, state, log }
    }
    fn push(&self, c: Call) {
        self.log.lock().unwrap().push(c);
    }
}

impl RequestHandler for LogHandler {
    fn read_coil(&self, address: u16) -> Result<bool, ExceptionCode> {
        self.push(Call::Read {
            unit: self.unit,
            table: Table::Coils,
            addr: address,
        });
        self.state
            .read_bit(Table::Coils, address)
            .map_err(|e| e.to_rodbus())
    }
    fn read_discrete_input(&self, address: u16) -> Result<bool, ExceptionCode> {
        self.push(Call::Read {
            unit: self.unit,
            table: Table::Discrete,
            addr: address,
        });
        self.state
            .read_bit(Table::Discrete, address)
            .map_err(|e| e.to_rodbus())
    }
    fn read_holding_register(&self, address: u16) -> Result<u16, ExceptionCode> {
        self.push(Call::Read {
            unit: self.unit,
            table: Table::Holding,
            addr: address,
        });
        self.state
            .read_reg(Table::Holding, address)
            .map_err(|e| e.to_rodbus())
    }
    fn read_input_register(&self, address: u16) -> Result<u16, ExceptionCode> {
        self.push(Call::Read {
            unit: self.unit,
            table: Table::Input,
            addr: address,
        });
        self.state
            .read_reg(Table::Input, address)
            .map_err(|e| e.to_rodbus())
    }
    fn write_single_coil(&mut self, value: Indexed<bool>) -> Result<(), ExceptionCode> {
        self.push(Call::WriteCoil {
            unit: self.unit,
            addr: value.index,
            value: value.value,
        });
        self.state
            .write_coils(&[(value.index, value.value)])
            .map_err(|e| e.to_rodbus())
    }
    fn write_single_register(&mut self, value: Indexed<u16>) -> Result<(), ExceptionCode> {
        self.push(Call::WriteReg {
            unit: self.unit,
            addr: value.index,
            value: value.value,
        });
        self.state
            .write_regs(&[(value.index, value.value)])
            .map_err(|e| e.to_rodbus())
    }
    fn write_multiple_coils(&mut self, values: WriteCoils) -> Result<(), ExceptionCode> {
        let len_hint = values.iterator.len();
        let collected: Vec<(u16, bool)> = values.iterator.map(|x| (x.index, x.value)).collect();
        self.push(Call::WriteCoils {
            unit: self.unit,
            start: values.range.start,
            count: values.range.count,
            values: collected.clone(),
            len_hint,
        });
        self.state.write_coils(&collected).map_err(|e| e.to_rodbus())
    }
    fn write_multiple_registers(&mut self, values: WriteRegisters) -> Result<(), ExceptionCode> {
        let len_hint = values.iterator.len();
        let collected: Vec<(u16, u16)> = values.iterator.map(|x| (x.index, x.value)).collect();
        self.push(Call::WriteRegs {
            unit: self.unit,
            start: values.range.start,
            count: values.range.count,
            values: collected.clone(),
            len_hint,
        });
        self.state.write_regs(&collected).map_err(|e| e.to_rodbus())
    }
}

/// A generated authorization policy: a total function of (kind, unit, start, count|index, role,
/// per-policy call index) -> allow/deny
#[derive(Clone, Debug, PartialEq, Eq, Hash, Serialize, Deserialize)]
pub enum Policy {
    /// allow iff hash(salt, kind, unit, start, count, role) % den < num
    Hash { salt: u64, num: u8, den: u8 },
    /// deny writes at or above an address on one unit, allow everything else
    DenyWritesAbove { unit: u8, addr: u16 },
    /// allow only this role
    OnlyRole(String),
    /// allow reads only
    ReadOnlyModel,
    /// the k-th decision (0-based, counting every call) is `pattern[k % len]`
    Sequence(Vec<bool>),
    /// deny one kind entirely
    DenyKind(Kind),
    /// the library's built-in ReadOnlyAuthorizationHandler (decisions not taken by the harness)
    BuiltinReadOnly,
}

fn fnv(parts: &[u64]) -> u64 {
    let mut h: u64 = 0xcbf29ce484222325;
    for p in parts {
        for b in p.to_le_bytes() {
            h ^= b as u64;
            h = h.wrapping_mul(0x100000001b3);
        }
    }
    h
}

impl Policy {
    pub fn decide(
        &self,
        kind: Kind,
        unit: u8,
        start: u16,
        count: Option<u16>,
        role: &str,
        call_index: usize,
    ) -> bool {
        match self {
            Policy::Hash { salt, num, den } => {
                let mut parts = vec![
                    *salt,
                    kind.fc() as u64,
                    unit as u64,
                    start as u64,
                    count.map(|c| c as u64 + 1).unwrap_or(0),
                ];
                for b in role.as_bytes() {
                    parts.push(*b as u64);
                }
                let den = (*den).max(1) as u64;
                fnv(&parts) % den < *num as u64
            }
            Policy::DenyWritesAbove { unit: u, addr } => {
                !(kind.is_write() && unit == *u && start >= *addr)
            }
            Policy::OnlyRole(r) => role == r,
            Policy::ReadOnlyModel | Policy::BuiltinReadOnly => kind.is_read(),
            Policy::Sequence(p) => {
                if p.is_empty() {
                    false
                } else {
                    p[call_index % p.len()]
                }
            }
            Policy::DenyKind(k) => kind != *k,
        }
    }
}

/// Instrumented authorization handler
pub struct LogAuth {
    pub policy: Policy,
    pub log: CallLog,
    pub calls: Mutex<usize>,
    pub builtin: Option<Arc<dyn AuthorizationHandler>>,
}

impl LogAuth {
    pub fn new(policy: Policy, log: CallLog) -> Self {
        let builtin = if policy == Policy::BuiltinReadOnly {
            Some(rodbus::server::ReadOnlyAuthorizationHandler::create())
        } else {
            None
        };
        Self {
            policy,
            log,
            calls: Mutex::new(0),
            builtin,
        }
    }

    fn decide(
        &self,
        kind: Kind,
        unit: UnitId,
        start: u16,
        count: Option<u16>,
        role: &str,
        builtin: impl FnOnce(&dyn AuthorizationHandler) -> Authorization,
    ) -> Authorization {
        let idx = {
            let mut g = self.calls.lock().unwrap();
            let i = *g;
            *g += 1;
            i
        };
        let allowed = match &self.builtin {
            Some(h) => builtin(h.as_ref()) == Authorization::Allow,
            None => self
                .policy
                .decide(kind, unit.value, start, count, role, idx),
        };
        self.log.lock().unwrap().push(Call::Auth {
            kind,
            unit: unit.value,
            start,
            count,
            role: role.to_string(),
            allowed,
        });
        if allowed {
            Authorization::Allow
        } else {
            Authorization::Deny
        }
    }
}

impl AuthorizationHandler for LogAuth {
    fn read_coils(&self, unit_id: UnitId, range: AddressRange, role: &str) -> Authorization {
        self.decide(Kind::ReadCoils, unit_id, range.start, Some(range.count), role, |h| {
            h.read_coils(unit_id, range, role)
        })
    }
    fn read_discrete_inputs(
        &self,
        unit_id: UnitId,
        range: AddressRange,
        role: &str,
    ) -> Authorization {
        self.decide(
            Kind::ReadDiscrete,
            unit_id,
            range.start,
            Some(range.count),
            role,
            |h| h.read_discrete_inputs(unit_id, range, role),
        )
    }
    fn read_holding_registers(
        &self,
        unit_id: UnitId,
        range: AddressRange,
        role: &str,
    ) -> Authorization {
        self.decide(
            Kind::ReadHolding,
            unit_id,
            range.start,
            Some(range.count),
            role,
            |h| h.read_holding_registers(unit_id, range, role),
        )
    }
    fn read_input_registers(
        &self,
        unit_id: UnitId,
        range: AddressRange,
        role: &str,
    ) -> Authorization {
        self.decide(
            Kind::ReadInput,
            unit_id,
            range.start,
            Some(range.count),
            role,
            |h| h.read_input_registers(unit_id, range, role),
        )
    }
    fn write_single_coil(&self, unit_id: UnitId, idx: u16, role: &str) -> Authorization {
        self.decide(Kind::WriteCoil, unit_id, idx, None, role, |h| {
            h.write_single_coil(unit_id, idx, role)
        })
    }
    fn write_single_register(&self, unit_id: UnitId, idx: u16, role: &str) -> Authorization {
        self.decide(Kind::WriteReg, unit_id, idx, None, role, |h| {
            h.write_single_register(unit_id, idx, role)
        })
    }
    fn write_multiple_coils(
        &self,
        unit_id: UnitId,
        range: AddressRange,
        role: &str,
    ) -> Authorization {
        self.decide(
            Kind::WriteCoils,
            unit_id,
            range.start,
            Some(range.count),
            role,
            |h| h.write_multiple_coils(unit_id, range, role),
        )
    }
    fn write_multiple_registers(
        &self,
        unit_id: UnitId,
        range: AddressRange,
        role: &str,
    ) -> Authorization {
        self.decide(
            Kind::WriteRegs,
            unit_id,
            range.start,
            Some(range.count),
            role,
            |h| h.write_multiple_registers(unit_id, range, role),
        )
    }
}
