//! C07: no peer input can panic, wedge or silently kill a task.

use proptest::collection::vec;
use proptest::prelude::*;
use serde::{Deserialize, Serialize};

use crate::gen::*;
use crate::model::framing::mbap_frame;
use crate::model::pdu::*;
use crate::props::cli::arb_valid_req;
use crate::props::srv::{arb_frames_pub, frame_bytes};
use crate::runner::{CaseOk, CaseResult};
use crate::sim::IoKind;
use crate::simcli::*;
use crate::simsrv::*;

#[derive(Clone, Debug, PartialEq, Eq, Hash, Serialize, Deserialize)]
pub enum Finish {
    Eof,
    ReadErr(IoKind),
    /// leave the session parked; the check then requests shutdown
    Park,
}

#[derive(Clone, Debug, PartialEq, Eq, Hash, Serialize, Deserialize)]
pub struct C07Srv {
    pub cfg: SrvConfig,
    pub stream: Vec<u8>,
    pub partition: Partition,
    pub finish: Finish,
    pub fail_write_at: Option<(usize, IoKind)>,
    pub select_seed: u64,
}

/// byte-level mutations of a valid stream
fn mutate(mut s: Vec<u8>, muts: Vec<(u8, u32, u8, Vec<u8>)>) -> Vec<u8> {
    for (kind, pos, byte, extra) in muts {
        if s.is_empty() {
            s = extra.clone();
            continue;
        }
        let i = pos as usize % s.len();
        match kind % 8 {
            0 => s[i] ^= 1 << (byte % 8),
            1 => s[i] = byte,
            2 => {
                s.truncate(i);
            }
            3 => {
                // duplicate a slice
                let j = (i + 1 + byte as usize).min(s.len());
                let dup: Vec<u8> = s[i..j].to_vec();
                let mut t = s[..j].to_vec();
                t.extend_from_slice(&dup);
                t.extend_from_slice(&s[j..]);
                s = t;
            }
            4 => {
                // insert random bytes
                let mut t = s[..i].to_vec();
                t.extend_from_slice(&extra);
                t.extend_from_slice(&s[i..]);
                s = t;
            }
            5 => {
                // delete a few bytes
                let j = (i + 1 + (byte % 4) as usize).min(s.len());
                s.drain(i..j);
            }
            6 => {
                // maximal values
                s[i] = 0xFF;
                if i + 1 < s.len() {
                    s[i + 1] = 0xFF;
                }
            }
            _ => {
                s[i] = 0;
            }
        }
    }
    s
}

fn arb_mutations() -> BoxedStrategy<Vec<(u8, u32, u8, Vec<u8>)>> {
    vec((any::<u8>(), any::<u32>(), any::<u8>(), vec(any::<u8>(), 0..6)), 0..4).boxed()
}

fn arb_finish() -> BoxedStrategy<Finish> {
    prop_oneof![
        3 => Just(Finish::Eof),
        1 => prop::sample::select(IoKind::ALL.to_vec()).prop_map(Finish::ReadErr),
        3 => Just(Finish::Park),
    ]
    .boxed()
}

pub fn arb_c07_srv() -> BoxedStrategy<C07Srv> {
    (
        prop_oneof![1 => Just(Fr::Mbap), 1 => Just(Fr::Rtu)],
        arb_units(3),
        arb_decode_any(),
        any::<u64>(),
        proptest::option::weighted(0.2, (arb_policy(), arb_role())),
    )
        .prop_flat_map(|(fr, units, decode, select_seed, auth)| {
            let ids: Vec<u8> = units.iter().map(|u| u.0).collect();
            let hint = WinHint::of(units.first().map(|u| &u.1));
            let auth = if fr == Fr::Mbap { auth } else { None };
            (
                prop_oneof![
                    6 => (arb_frames_pub(fr, ids, hint, 7, 8), arb_mutations()).prop_map(move |(frames, muts)| {
                        let mut s = Vec::new();
                        for f in &frames {
                            s.extend_from_slice(&frame_bytes(fr, f));
                        }
                        mutate(s, muts)
                    }),
                    1 => vec(any::<u8>(), 0..600),
                    1 => vec(any::<u8>(), 0..16),
                ],
                arb_finish(),
                proptest::option::weighted(0.1, (0usize..4, prop::sample::select(IoKind::ALL.to_vec()))),
            )
                .prop_flat_map(move |(stream, finish, fail_write_at)| {
                    let units = units.clone();
                    let auth = auth.clone();
                    // in one configuration of four a further unit id is served by the handler
                    // instance of the first unit
                    let aliases: Vec<(u8, u8)> = match units.first() {
                        Some(first) if select_seed % 4 == 1 => {
                            let a = 1 + ((select_seed >> 8) % 250) as u8;
                            if units.iter().any(|u| u.0 == a) {
                                vec![]
                            } else {
                                vec![(a, first.0)]
                            }
                        }
                        _ => vec![],
                    };
                    arb_partition(stream.len(), vec![0, 7, 8, 15, 260]).prop_map(move |partition| C07Srv {
                        cfg: SrvConfig {
                            framing: fr,
                            units: units.clone(),
                            auth: auth.clone(),
                            decode,
                            aliases: aliases.clone(),
                        },
                        stream: stream.clone(),
                        partition,
                        finish: finish.clone(),
                        fail_write_at,
                        select_seed,
                    })
                })
        })
        .boxed()
}

pub fn check_c07_srv(case: &C07Srv) -> CaseResult {
    let mut ok = CaseOk::new();
    let parts = case.partition.apply(&case.stream);
    let mut steps: Vec<Step> = parts.iter().map(|b| Step::Bytes(b.clone())).collect();
    match &case.finish {
        Finish::Eof => steps.push(Step::Eof),
        Finish::ReadErr(k) => steps.push(Step::ReadErr(*k)),
        Finish::Park => {}
    }
    let run = run_server(
        &case.cfg,
        &steps,
        &SrvOptions {
            select_seed: case.select_seed,
            fail_write_at: case.fail_write_at,
            probe_shutdown: true,
            // a third of the cases: the reply direction is blocked for a few ms at some point
            write_stall: if case.select_seed % 3 == 0 {
                Some(((case.select_seed as usize / 3) % 96, 1 + case.select_seed % 5))
            } else {
                None
            },
        },
    );
    // progress: polls bounded by a linear function of the input
    let budget = 64 * (case.stream.len() as u64 + steps.len() as u64) + 4096;
    if run.polls > budget {
        return Err(format!(
            "session future polled {} times for {} input bytes in {} reads (budget {}): spinning without progress",
            run.polls,
            case.stream.len(),
            steps.len(),
            budget
        ));
    }
    match (&run.end, &case.finish) {
        (SrvEnd::Ended(_), _) => {
            ok.label("end:error");
            // the handle must keep answering: Err(Shutdown), not a hang
            match run.shutdown_after {
                Some(Err(())) => {}
                other => {
                    return Err(format!(
                        "after the session ended, ServerHandle::shutdown() gave {:?} instead of an error",
                        other
                    ))
                }
            }
        }
        (SrvEnd::Parked, Finish::Park) => {
            ok.label("end:parked");
            if run.ended_after_shutdown != Some(true) {
                return Err(format!(
                    "session parked after the input did not end on ServerHandle::shutdown() (shutdown gave {:?})",
                    run.shutdown_after
                ));
            }
        }
        (SrvEnd::Parked, other) => {
            return Err(format!(
                "session still running after {:?} on its transport",
                other
            ))
        }
    }
    ok.label(match case.cfg.framing {
        Fr::Mbap => "framing:mbap",
        Fr::Rtu => "framing:rtu",
    });
    if !case.cfg.decode.is_nothing() {
        ok.label("decode:on");
    }
    // the RTU server task keeps ONE session object for its whole life and runs it again on a
    // re-opened port after every error: whatever the peer sent, the task must answer again
    if case.cfg.framing == Fr::Rtu && !matches!(case.finish, Finish::Park) && case.fail_write_at.is_none() {
        if let Some(m) = rtu_recovery(case) {
            return Err(m);
        }
        ok.label("rtu:recovery_checked");
    }
    // non-trivial: at least one frame passed framing and reached PDU handling with decoding on
    let reached = !run.writes.is_empty() || !run.calls.is_empty();
    if reached {
        ok.label("reached_pdu");
    }
    ok.nontrivial = reached && !case.cfg.decode.is_nothing();
    Ok(ok)
}

// ---------------------------------------------------------------------------------------------
// client role

#[derive(Clone, Debug, PartialEq, Eq, Hash, Serialize, Deserialize)]
pub struct C07Cli {
    pub framing: Fr,
    pub decode: Decode,
    pub max_timeouts: Option<u16>,
    /// (unit, timeout ms, request, bytes the peer sends in answer, cut position)
    pub requests: Vec<(u8, u32, ReqSpec, Vec<u8>, u16)>,
    /// garbage sent while idle before the first request
    pub idle: Vec<u8>,
    pub finish: Finish,
    pub select_seed: u64,
}

pub fn arb_c07_cli() -> BoxedStrategy<C07Cli> {
    (
        prop_oneof![1 => Just(Fr::Mbap), 1 => Just(Fr::Rtu)],
        arb_decode_any(),
        proptest::option::weighted(0.3, 1u16..4),
        any::<u64>(),
    )
        .prop_flat_map(|(fr, decode, max_timeouts, select_seed)| {
            let one = (any::<u8>(), prop::sample::select(vec![5u32, 50, 1000]), arb_valid_req(), any::<u64>(), arb_mutations(), any::<u16>(), 0u8..10, vec(any::<u8>(), 0..300)).boxed()
                .prop_map(move |(unit, t, req, seed, muts, cut, sel, raw)| {
                    (unit, t, req, seed, muts, cut, sel, raw)
                });
            (
                prop_oneof![1 => vec(one.clone(), 0..1), 8 => vec(one, 1..5)],
                prop_oneof![3 => Just(Vec::new()), 1 => vec(any::<u8>(), 1..40), 1 => vec(any::<u8>(), 200..600)],
                arb_finish(),
            )
                .prop_map(move |(reqs, idle, finish)| {
                    let mut requests = Vec::new();
                    for (k, (unit, t, req, seed, muts, cut, sel, raw)) in reqs.into_iter().enumerate() {
                        let valid = req.to_valid().expect("valid");
                        let (b, r) = genuine_values(seed);
                        let pdu = genuine_reply(&valid, &b, &r);
                        let genuine = frame_reply(fr, k as u16, unit, &pdu);
                        let bytes = match sel {
                            0 => raw,
                            1 => Vec::new(),
                            2 | 3 => genuine,
                            // damaged PDU inside a well-formed frame
                            4 | 5 | 6 => {
                                let mut p = mutate(pdu, muts);
                                p.truncate(253);
                                frame_reply(fr, k as u16, unit, &p)
                            }
                            _ => mutate(genuine, muts),
                        };
                        requests.push((unit, t, req, bytes, cut));
                    }
                    C07Cli {
                        framing: fr,
                        decode,
                        max_timeouts,
                        requests,
                        idle,
                        finish,
                        select_seed,
                    }
                })
        })
        .boxed()
}

pub fn check_c07_cli(case: &C07Cli) -> CaseResult {
    let mut ok = CaseOk::new();
    let mut plans = Vec::new();
    let mut input_bytes = case.idle.len();
    for (_, _, _, bytes, cut) in &case.requests {
        input_bytes += bytes.len();
        let mut acts = Vec::new();
        if !bytes.is_empty() {
            let c = (*cut as usize) % (bytes.len() + 1);
            if c > 0 && c < bytes.len() {
                acts.push(PeerAct::Raw {
                    delay_ms: 1,
                    bytes: bytes[..c].to_vec(),
                });
                acts.push(PeerAct::Raw {
                    delay_ms: 2,
                    bytes: bytes[c..].to_vec(),
                });
            } else {
                acts.push(PeerAct::Raw {
                    delay_ms: 1,
                    bytes: bytes.clone(),
                });
            }
        }
        plans.push(acts);
    }
    let mut ops = Vec::new();
    if !case.idle.is_empty() {
        ops.push(COp::Advance(5));
    }
    for (i, (unit, t, req, _, _)) in case.requests.iter().enumerate() {
        ops.push(COp::Submit {
            id: i,
            style: if i % 3 == 1 { Style::Callback } else if i % 3 == 2 { Style::Ffi } else { Style::Future },
            handle: 0,
            unit: *unit,
            timeout_ms: *t,
            req: req.clone(),
        });
    }
    ops.push(COp::Advance(10_000));
    match &case.finish {
        Finish::Eof => ops.push(COp::PeerEof),
        Finish::ReadErr(k) => ops.push(COp::PeerErr(*k)),
        Finish::Park => {}
    }
    ops.push(COp::Advance(10));
    // afterwards the API must still work: one more request, which must complete
    ops.push(COp::Submit {
        id: 999,
        style: Style::Future,
        handle: 0,
        unit: 1,
        timeout_ms: 10,
        req: ReqSpec::Read {
            kind: Kind::ReadCoils,
            start: 0,
            count: 1,
        },
    });
    ops.push(COp::Advance(1000));
    let n_ops = ops.len();
    let conn = ConnPlan {
        peer: PeerPlan {
            per_request: plans,
            default: vec![],
        },
        fail_write_at: None,
        write_stall: None,
        unsolicited: if case.idle.is_empty() {
            vec![]
        } else {
            vec![(1, case.idle.clone())]
        },
    };
    let quiet = ConnPlan {
        peer: PeerPlan::default(),
        fail_write_at: None,
        write_stall: None,
        unsolicited: vec![],
    };
    let run = run_client(&CliCase {
        cfg: CliConfig {
            framing: case.framing,
            decode: case.decode,
            max_timeouts: case.max_timeouts,
            queue: 16,
            retry_ms: 50,
        },
        // reconnects after a dropped connection find a silent peer
        conns: vec![conn, quiet.clone(), quiet.clone(), quiet.clone(), quiet.clone(), quiet.clone(), quiet],
        ops,
        select_seed: case.select_seed,
        pre_enable: true,
    });
    // progress
    let reconnects = run
        .events
        .iter()
        .filter(|e| matches!(e.1, LoopEvent::Connected(_) | LoopEvent::FailedConnect))
        .count() as u64;
    let budget = 64 * (input_bytes as u64 + n_ops as u64 + case.requests.len() as u64) + 4096 + 64 * reconnects;
    if run.polls > budget {
        return Err(format!(
            "client task polled {} times for {} input bytes and {} operations (budget {}): spinning without progress",
            run.polls, input_bytes, n_ops, budget
        ));
    }
    // every request completes exactly once
    for id in (0..case.requests.len()).chain(std::iter::once(999)) {
        let n = run.ledger.completions.iter().filter(|c| c.id == id).count();
        let refused = run.ledger.refusals.iter().any(|r| r.0 == id);
        if n != 1 && !(refused && n <= 1) {
            return Err(format!("request {} completed {} times", id, n));
        }
    }
    // the task ends when every handle is gone
    if !run.task_ended {
        return Err("the client task did not end after every handle was dropped".to_string());
    }
    ok.label(match case.framing {
        Fr::Mbap => "framing:mbap",
        Fr::Rtu => "framing:rtu",
    });
    if !case.decode.is_nothing() {
        ok.label("decode:on");
    }
    let parsed = run
        .ledger
        .completions
        .iter()
        .any(|c| matches!(c.res, Res::Ok(_) | Res::Exception(_) | Res::BadResponse(_)));
    if parsed {
        ok.label("reached_pdu");
    }
    if run.events.iter().any(|e| matches!(&e.1, LoopEvent::SessionEnd(_, w) if w.starts_with("BadFrame"))) {
        ok.label("end:bad_frame");
    }
    ok.nontrivial = parsed && !case.decode.is_nothing();
    Ok(ok)
}

#[allow(dead_code)]
fn _u() {
    let _ = mbap_frame(0, 0, &[]);
}


/// Seed corpus for the libFuzzer targets: generated C07 cases in the targets' input encoding
/// (6 header bytes, then the stream / the per-request answers) plus the golden vectors of the
/// repository's own tests.
pub fn export_fuzz_seeds(dir: &std::path::Path, n: usize, seed: u64) -> Result<usize, String> {
    use proptest::strategy::{Strategy, ValueTree};
    use proptest::test_runner::{Config, RngAlgorithm, TestRng, TestRunner};
    let mut seed_bytes = [0u8; 32];
    seed_bytes[..8].copy_from_slice(&seed.to_le_bytes());
    let mut runner = TestRunner::new_with_rng(Config::default(), TestRng::from_seed(RngAlgorithm::ChaCha, &seed_bytes));
    let srv_dir = dir.join("srv");
    let cli_dir = dir.join("cli");
    std::fs::create_dir_all(&srv_dir).map_err(|e| e.to_string())?;
    std::fs::create_dir_all(&cli_dir).map_err(|e| e.to_string())?;
    let mut count = 0;
    let s = arb_c07_srv();
    for i in 0..n {
        let c = s.new_tree(&mut runner).map_err(|e| e.to_string())?.current();
        let mut bytes = vec![
            if c.cfg.framing == Fr::Mbap { 0 } else { 1 },
            c.cfg.decode.app,
            c.cfg.decode.frame,
            c.cfg.decode.phys,
            match c.finish {
                Finish::Eof => 0,
                Finish::Park => 1,
                _ => 2,
            },
            (i % 6) as u8,
        ];
        bytes.extend_from_slice(&c.stream);
        std::fs::write(srv_dir.join(format!("gen{:04}", i)), bytes).map_err(|e| e.to_string())?;
        count += 1;
    }
    // golden vectors from rodbus/src/tcp/frame.rs and rodbus/src/serial/frame.rs tests
    let golden: [(&str, u8, &[u8]); 4] = [
        ("mbap_simple", 0, &[0x00, 0x07, 0x00, 0x00, 0x00, 0x03, 0x2A, 0x03, 0x04]),
        ("mbap_read_holding", 0, &[0x00, 0x01, 0x00, 0x00, 0x00, 0x06, 0x01, 0x03, 0x00, 0x00, 0x00, 0x02]),
        ("rtu_read_coils", 1, &[0x2A, 0x01, 0x00, 0x10, 0x00, 0x13, 0x7A, 0x19]),
        ("rtu_read_holding", 1, &[0x2A, 0x03, 0x00, 0x10, 0x00, 0x03, 0x02, 0x15]),
    ];
    for (name, fr, b) in golden {
        for lvl in [0u8, 3] {
            let mut bytes = vec![fr, lvl, lvl.min(2), lvl.min(2), 0, 0];
            bytes.extend_from_slice(b);
            std::fs::write(srv_dir.join(format!("{}_{}", name, lvl)), bytes).map_err(|e| e.to_string())?;
            count += 1;
        }
    }
    let s = arb_c07_cli();
    for i in 0..n {
        let c = s.new_tree(&mut runner).map_err(|e| e.to_string())?.current();
        let mut bytes = vec![
            if c.framing == Fr::Mbap { 0 } else { 1 },
            c.decode.app,
            c.decode.frame,
            c.decode.phys,
            (c.requests.len().max(1) - 1) as u8,
            (i % 6) as u8,
        ];
        for (k, (_u, _t, _r, answer, _cut)) in c.requests.iter().enumerate() {
            bytes.push(k as u8);
            let n = answer.len().min(299);
            bytes.extend_from_slice(&(n as u16).to_le_bytes());
            bytes.extend_from_slice(&answer[..n]);
        }
        bytes.extend_from_slice(&c.idle);
        std::fs::write(cli_dir.join(format!("gen{:04}", i)), bytes).map_err(|e| e.to_string())?;
        count += 1;
    }
    Ok(count)
}


/// Emulates the RTU server task's loop: the same session object is run over the generated
/// stream, then - as after a port failure - again and again over fresh streams that carry a
/// valid request for a configured unit. Bytes left in the receive buffer may garble the first
/// sessions (each failed attempt consumes at least one byte of at most 260), but the server must
/// come back. Returns a violation message if it never answers again.
fn rtu_recovery(case: &C07Srv) -> Option<String> {
    use crate::app::{CallLog, LogHandler};
    use crate::model::crc::rtu_frame;
    use crate::model::framing::{deframe_rtu, Direction};
    use crate::sim::{script_io, ReadEv};
    use rodbus::server::ServerHandlerMap;
    let units = case.cfg.unit_map();
    // a unit id that is not the broadcast address
    let unit = *units.keys().find(|u| **u != 0)?;
    let rt = crate::sim::runtime(case.select_seed);
    let log: CallLog = Default::default();
    let mut map: ServerHandlerMap<LogHandler> = ServerHandlerMap::new();
    for (u, st) in units {
        map.add(rodbus::UnitId::new(u), rodbus::server::RequestHandler::wrap(LogHandler::new(u, st, log.clone())));
    }
    let parts = case.partition.apply(&case.stream);
    let finish = case.finish.clone();
    let decode = case.cfg.decode.to_rodbus();
    rt.block_on(async move {
        let (_handle, mut session) = rodbus::verif::server_session(rodbus::verif::Framing::Rtu, map, None, decode);
        // first life: the generated stream
        let mut script: Vec<(std::time::Duration, ReadEv)> = parts
            .into_iter()
            .map(|b| (std::time::Duration::ZERO, ReadEv::Chunk(b)))
            .collect();
        script.push((
            std::time::Duration::ZERO,
            match finish {
                Finish::ReadErr(k) => ReadEv::Err(k),
                _ => ReadEv::Eof,
            },
        ));
        let (io, _h) = script_io(script, None, None);
        let _ = session.run(Box::new(io)).await;
        // later lives: a valid request, then the port fails again
        let sentinel = rtu_frame(unit, &[3, 0, 0, 0, 1]);
        for _attempt in 0..300 {
            let script = vec![
                (std::time::Duration::ZERO, ReadEv::Chunk(sentinel.clone())),
                (std::time::Duration::from_millis(5), ReadEv::Eof),
            ];
            let (io, h) = script_io(script, None, None);
            let _ = session.run(Box::new(io)).await;
            let written = h.written_bytes();
            let (frames, _) = deframe_rtu(Direction::Response, &written);
            if frames
                .iter()
                .any(|f| f.addr == unit && matches!(f.pdu.first(), Some(3) | Some(0x83)))
            {
                return None;
            }
        }
        Some(format!(
            "RTU server session never answers again after the peer's input: a valid read request to unit {} stayed unanswered in 300 re-opened sessions (the task is alive but deaf)",
            unit
        ))
    })
}

// ---------------------------------------------------------------------------------------------
// C07, client role: a peer that keeps talking cannot keep the task from honouring its handles.
// While a request is outstanding the peer sends well-formed frames nobody asked for, spaced more
// closely than the request's timeout, for much longer than that timeout; in the middle a handle
// asks for shutdown (or disable). The transaction is bounded by its own timeout, so the command
// must take effect no later than the request's deadline (or at once, if it comes after it).

#[derive(Clone, Debug, PartialEq, Eq, Hash, Serialize, Deserialize)]
pub struct C07Chatter {
    pub decode: Decode,
    pub timeout_ms: u32,
    /// gaps between the peer's frames (each < timeout)
    pub gaps_ms: Vec<u32>,
    /// transaction-id offsets of the frames (never 0: none of them answers the request)
    pub tx_offsets: Vec<u16>,
    /// the command is issued after this many peer frames
    pub command_after: usize,
    pub disable_instead: bool,
    pub select_seed: u64,
}

pub fn arb_c07_chatter() -> BoxedStrategy<C07Chatter> {
    (arb_decode_any(), 5u32..200, any::<bool>(), any::<u64>())
        .prop_flat_map(|(decode, timeout_ms, disable_instead, select_seed)| {
            (vec((1u32..timeout_ms, 1u16..=65535), 4..40), any::<prop::sample::Index>()).prop_map(move |(frames, at)| C07Chatter {
                decode,
                timeout_ms,
                gaps_ms: frames.iter().map(|f| f.0).collect(),
                tx_offsets: frames.iter().map(|f| f.1).collect(),
                command_after: at.index(frames.len() + 1),
                disable_instead,
                select_seed,
            })
        })
        .boxed()
}

pub fn check_c07_chatter(case: &C07Chatter) -> CaseResult {
    let mut ops = vec![COp::Submit {
        id: 0,
        style: Style::Future,
        handle: 0,
        unit: 1,
        timeout_ms: case.timeout_ms,
        req: ReqSpec::Read {
            kind: Kind::ReadHolding,
            start: 0,
            count: 1,
        },
    }];
    let mut t = 0u64;
    let mut command_at = None;
    for (k, (gap, off)) in case.gaps_ms.iter().zip(case.tx_offsets.iter()).enumerate() {
        if k == case.command_after {
            command_at = Some(t);
            ops.push(if case.disable_instead { COp::Disable(0) } else { COp::Shutdown(0) });
        }
        ops.push(COp::Advance(*gap));
        t += *gap as u64;
        ops.push(COp::PeerBytes(mbap_frame(*off, 1, &[3, 2, 0x12, 0x34])));
    }
    if command_at.is_none() {
        command_at = Some(t);
        ops.push(if case.disable_instead { COp::Disable(0) } else { COp::Shutdown(0) });
    }
    ops.push(COp::Advance(case.timeout_ms + 50));
    let run = run_client(&CliCase {
        cfg: CliConfig {
            framing: Fr::Mbap,
            decode: case.decode,
            max_timeouts: None,
            queue: 16,
            retry_ms: 100_000_000,
        },
        conns: vec![ConnPlan {
            peer: PeerPlan::default(),
            fail_write_at: None,
            write_stall: None,
            unsolicited: vec![],
        }],
        ops,
        select_seed: case.select_seed,
        pre_enable: true,
    });
    let mut ok = CaseOk::new();
    let total: u64 = case.gaps_ms.iter().map(|g| *g as u64).sum();
    let deadline = case.timeout_ms as u64;
    let command_at = command_at.unwrap();
    // the request is over at its deadline, whatever the peer keeps sending
    let c = run.ledger.completions.iter().find(|c| c.id == 0);
    match c {
        Some(c) => {
            let at = c.at.as_millis() as u64;
            let limit = deadline.max(command_at) + 1;
            if at > limit {
                return Err(format!(
                    "request with a {} ms timeout completed at {} ms ({:?}) while the peer kept sending well-formed frames with other transaction ids every {:?} ms",
                    case.timeout_ms,
                    at,
                    c.res,
                    &case.gaps_ms[..case.gaps_ms.len().min(6)]
                ));
            }
        }
        None => return Err("the request never completed".to_string()),
    }
    // the command takes effect when the transaction is over
    let want = if case.disable_instead { "Disabled" } else { "Shutdown" };
    let effect = run.events.iter().find_map(|(at, e)| match e {
        LoopEvent::SessionEnd(_, why) if why.contains(want) => Some(at.as_millis() as u64),
        LoopEvent::TaskEnd if !case.disable_instead => Some(at.as_millis() as u64),
        _ => None,
    });
    let limit = deadline.max(command_at) + 2;
    match effect {
        Some(at) if at <= limit => {}
        other => {
            return Err(format!(
                "{} requested at {} ms while a request with a {} ms timeout was outstanding and the peer kept sending frames with other transaction ids (for {} ms in all): it took effect at {:?} ms, later than {} ms",
                if case.disable_instead { "disable" } else { "shutdown" },
                command_at,
                case.timeout_ms,
                total,
                other,
                limit
            ))
        }
    }
    if total > 2 * deadline {
        ok.label("chatter_outlasts_timeout_twice");
    }
    if command_at < deadline {
        ok.label("command_before_deadline");
    }
    ok.nontrivial = total > 2 * deadline && command_at < total;
    Ok(ok)
}
