//! Pseudo-terminal pairs for black-box checks of the serial (RTU) tasks.

use std::ffi::CStr;
use std::fs::File;
use std::io::{Read, Write};
use std::os::fd::FromRawFd;
use std::sync::mpsc::{channel, Receiver};
use std::time::{Duration, Instant};

pub struct Pty {
    master: Option<File>,
    pub slave_path: String,
    rx: Receiver<Vec<u8>>,
    closed: std::sync::Arc<std::sync::atomic::AtomicBool>,
}

impl Drop for Pty {
    fn drop(&mut self) {
        self.closed.store(true, std::sync::atomic::Ordering::SeqCst);
    }
}

impl Pty {
    pub fn open() -> Result<Pty, String> {
        unsafe {
            let fd = libc::posix_openpt(libc::O_RDWR | libc::O_NOCTTY);
            if fd < 0 {
                return Err("INFRA: posix_openpt failed".to_string());
            }
            if libc::grantpt(fd) != 0 || libc::unlockpt(fd) != 0 {
                libc::close(fd);
                return Err("INFRA: grantpt/unlockpt failed".to_string());
            }
            let mut buf = [0 as libc::c_char; 128];
            if libc::ptsname_r(fd, buf.as_mut_ptr(), buf.len()) != 0 {
                libc::close(fd);
                return Err("INFRA: ptsname_r failed".to_string());
            }
            let slave_path = CStr::from_ptr(buf.as_ptr()).to_string_lossy().into_owned();
            // raw mode on the pair so that nothing is echoed or translated before the library
            // has configured the slave itself
            let mut t: libc::termios = std::mem::zeroed();
            if libc::tcgetattr(fd, &mut t) == 0 {
                libc::cfmakeraw(&mut t);
                libc::tcsetattr(fd, libc::TCSANOW, &t);
            }
            let master = File::from_raw_fd(fd);
            let mut reader = master.try_clone().map_err(|e| format!("INFRA: dup {}", e))?;
            let (tx, rx) = channel();
            let closed = std::sync::Arc::new(std::sync::atomic::AtomicBool::new(false));
            let closed2 = closed.clone();
            std::thread::spawn(move || {
                use std::os::fd::AsRawFd;
                let mut b = [0u8; 512];
                loop {
                    // the reader holds a duplicate of the master: it must go away when the
                    // harness hangs up, otherwise the slave never sees the hang-up
                    if closed2.load(std::sync::atomic::Ordering::SeqCst) {
                        return;
                    }
                    let mut pfd = libc::pollfd {
                        fd: reader.as_raw_fd(),
                        events: libc::POLLIN,
                        revents: 0,
                    };
                    let r = libc::poll(&mut pfd, 1, 5);
                    if r == 0 {
                        continue;
                    }
                    match reader.read(&mut b) {
                        Ok(0) => return,
                        Ok(n) => {
                            if tx.send(b[..n].to_vec()).is_err() {
                                return;
                            }
                        }
                        Err(e) => {
                            // EIO while no slave is open: keep polling until the master is closed
                            if e.raw_os_error() == Some(libc::EIO) {
                                std::thread::sleep(Duration::from_millis(2));
                                if tx.send(Vec::new()).is_err() {
                                    return;
                                }
                                continue;
                            }
                            return;
                        }
                    }
                }
            });
            Ok(Pty {
                master: Some(master),
                slave_path,
                rx,
                closed,
            })
        }
    }

    pub fn write(&mut self, data: &[u8]) -> Result<(), String> {
        match self.master.as_mut() {
            Some(m) => m.write_all(data).map_err(|e| format!("pty write: {}", e)),
            None => Err("pty closed".to_string()),
        }
    }

    /// read until `n` bytes arrived or `wait` elapsed
    pub fn read_n(&mut self, n: usize, wait: Duration) -> Vec<u8> {
        let mut got = Vec::new();
        let deadline = Instant::now() + wait;
        while got.len() < n {
            let left = deadline.saturating_duration_since(Instant::now());
            if left.is_zero() {
                break;
            }
            match self.rx.recv_timeout(left) {
                Ok(b) => got.extend_from_slice(&b),
                Err(_) => break,
            }
        }
        got
    }

    /// everything that arrives within `wait`
    pub fn drain(&mut self, wait: Duration) -> Vec<u8> {
        self.read_n(usize::MAX, wait)
    }

    /// line settings of the pair as (iflag, cflag, output speed): what the library configured on
    /// the slave is visible through the master
    pub fn termios(&self) -> Option<(u32, u32, u32)> {
        use std::os::fd::AsRawFd;
        let m = self.master.as_ref()?;
        unsafe {
            let mut t: libc::termios = std::mem::zeroed();
            if libc::tcgetattr(m.as_raw_fd(), &mut t) != 0 {
                return None;
            }
            Some((t.c_iflag as u32, t.c_cflag as u32, libc::cfgetospeed(&t) as u32))
        }
    }

    /// hang up: the slave side sees EOF / EIO
    pub fn close_master(&mut self) {
        self.closed.store(true, std::sync::atomic::Ordering::SeqCst);
        self.master = None;
        // give the reader thread time to drop its duplicate
        std::thread::sleep(Duration::from_millis(8));
    }
}
