#!/bin/sh
# tools/sensitivity.sh : apply every own mutant and every unfix_f* patch in turn and run the quick
# check(s) expected to catch it. Prints "<patch> <ID> exit=<code>"; exit 1 is the wanted outcome
# (m08, m22, m57 are documented as equivalent: exit 0 expected). Needs /repo to itself.
cd "$(dirname "$0")/.."
run() { p=$1; shift; for id in "$@"; do r=$(MUTANT_TIMEOUT=900 VERIF_SCALE=${VERIF_SCALE:-0.5} tools/mutant.sh mutants/$p.diff $id 2>&1 | grep -E "exit=|apply" | cut -c1-160); echo "$p $r"; done; }
run unfix_f1 C03 C01
run unfix_f2 C09
run unfix_f3 C16
run unfix_f4 C18
run unfix_f5 C07
run unfix_f6 C17
run unfix_f7 C10
run unfix_f8 C07
run unfix_f9 C15   # exit 0 expected: subsumed by F13 (see DESIGN 10.2)
run unfix_f9_and_f13 C15
run unfix_f10 C01
run unfix_f11 C18
run unfix_f12 C13
run unfix_f13 C15
run unfix_f14 C15
run unfix_f15 C18
run unfix_f16 C03
run unfix_f17 C12
run unfix_f18 C14
run unfix_f19 C10 C13
run unfix_f20 C14
run m01_shift_loses_byte C05
run m02_crc_low_byte_only C06
run m03_single_write_no_expect_empty C04
run m04_no_txid_check C11
run m05_counter_not_reset_on_error C12
run m06_read_limit_2001 C01 C03
run m08_broadcast_error_answered C17
run m09_role_truncated C08
run m10_txid_stuck C11
run m13_spin_on_3_bytes C07
run m14_decode_path_skips_counter_reset C20
run m16_noconnection_not_failed C10
run m20_no_retry_reset C14
run m22_disconnect_returns_current C14
run m23_no_initial_disabled C13
run m24_no_wait_notification C13
run m26_waits_half C14
run m30_name_check_disabled C09
run m31_role_first_of_many_and_default C09
run m40_exception_arms_swapped C18
run m41_unknown_drops_raw C18
run m42_update_inserts C19
run m43_add_overwrites C19
run m50_wildcard_octets_reversed C16
run m51_filter_after_handshake C16
run m52_parse_allows_5_fields C16
run m53_retry_reset_before_tls_handshake C14
run m54_ffi_min_tls_swapped C18
run m55_ffi_wildcard_switch_ignored C18
run m56_tcp_write_not_all C01
run m57_tls_write_not_all C01
run m58_ffi_authz_wrong_callback C18
run m59_disable_leaks_the_socket C13
