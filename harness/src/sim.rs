//! Deterministic in-memory transport (`ScriptIo`) and runtime helpers for the `sim` engine.
//!
//! A `ScriptIo` is an `AsyncRead + AsyncWrite` whose read side replays a script of timed events
//! and whose write side appends to a transcript. A `Peer` may react to writes by scheduling more
//! read events. Everything runs on a current-thread tokio runtime with the clock paused, so a run
//! is a pure function of (code, script).

use std::collections::VecDeque;
use std::future::Future;
use std::io;
use std::pin::Pin;
use std::sync::{Arc, Mutex};
use std::task::{Context, Poll, Waker};
use std::time::Duration;

use serde::{Deserialize, Serialize};
use tokio::io::{AsyncRead, AsyncWrite, ReadBuf};
use tokio::time::Instant;

/// io::ErrorKind values that the scripts can inject (serde-friendly mirror)
#[derive(Copy, Clone, Debug, PartialEq, Eq, Hash, Serialize, Deserialize)]
pub enum IoKind {
    ConnectionReset,
    ConnectionAborted,
    BrokenPipe,
    TimedOut,
    Other,
    UnexpectedEof,
    InvalidData,
}

impl IoKind {
    pub const ALL: [IoKind; 7] = [
        IoKind::ConnectionReset,
        IoKind::ConnectionAborted,
        IoKind::BrokenPipe,
        IoKind::TimedOut,
        IoKind::Other,
        IoKind::UnexpectedEof,
        IoKind::InvalidData,
    ];
    pub fn kind(self) -> io::ErrorKind {
        match self {
            IoKind::ConnectionReset => io::ErrorKind::ConnectionReset,
            IoKind::ConnectionAborted => io::ErrorKind::ConnectionAborted,
            IoKind::BrokenPipe => io::ErrorKind::BrokenPipe,
            IoKind::TimedOut => io::ErrorKind::TimedOut,
            IoKind::Other => io::ErrorKind::Other,
            IoKind::UnexpectedEof => io::ErrorKind::UnexpectedEof,
            IoKind::InvalidData => io::ErrorKind::InvalidData,
        }
    }
}

/// One event on the read side of the transport
#[derive(Clone, Debug, PartialEq, Eq, Hash, Serialize, Deserialize)]
pub enum ReadEv {
    /// bytes become readable (delivered in as many reads as the reader's buffer space requires)
    Chunk(Vec<u8>),
    /// orderly end of stream: read returns 0
    Eof,
    /// read fails
    Err(IoKind),
}

/// What the reactive peer sees and may answer
pub trait Peer: Send {
    /// Called once per write with the written bytes (one `write_all` == one call).
    /// Returns events to append to the read side, each with a delay relative to `now`
    /// (delays must be non-decreasing within the returned list).
    fn on_write(&mut self, now: Duration, data: &[u8]) -> Vec<(Duration, ReadEv)>;
}

struct Shared {
    start: Instant,
    /// (absolute virtual time at which it becomes available, event)
    queue: VecDeque<(Duration, ReadEv)>,
    waker: Option<Waker>,
    /// transcript of writes (virtual time, bytes)
    written: Vec<(Duration, Vec<u8>)>,
    /// if Some(n): the n-th write (0-based) and all later ones fail with the kind
    fail_write_at: Option<(usize, IoKind)>,
    writes_seen: usize,
    /// back-pressure: once this many bytes have been accepted in total, the transport accepts
    /// nothing more for the given time (a write that crosses the mark is accepted in part)
    write_stall: Option<(usize, Duration)>,
    stall_until: Option<Duration>,
    total_written: usize,
    total_read: usize,
    reads_polled: u64,
    closed: bool,
    dropped: bool,
    peer: Option<Box<dyn Peer>>,
}

/// Handle kept by the harness to observe / feed a `ScriptIo`
#[derive(Clone)]
pub struct IoHandle {
    shared: Arc<Mutex<Shared>>,
}

/// The transport handed to the session under test
pub struct ScriptIo {
    shared: Arc<Mutex<Shared>>,
    sleep: Option<Pin<Box<tokio::time::Sleep>>>,
    wsleep: Option<Pin<Box<tokio::time::Sleep>>>,
}

impl Drop for ScriptIo {
    fn drop(&mut self) {
        self.shared.lock().unwrap().dropped = true;
    }
}

/// Create a transport. `script` holds (delay-since-previous-event, event) pairs.
/// Must be called inside the runtime (reads the virtual clock).
pub fn script_io(
    script: Vec<(Duration, ReadEv)>,
    fail_write_at: Option<(usize, IoKind)>,
    peer: Option<Box<dyn Peer>>,
) -> (ScriptIo, IoHandle) {
    let mut t = Duration::ZERO;
    let mut queue = VecDeque::new();
    for (d, ev) in script {
        t += d;
        queue.push_back((t, ev));
    }
    let shared = Arc::new(Mutex::new(Shared {
        start: Instant::now(),
        queue,
        waker: None,
        written: Vec::new(),
        fail_write_at,
        writes_seen: 0,
        write_stall: None,
        stall_until: None,
        total_written: 0,
        total_read: 0,
        reads_polled: 0,
        closed: false,
        dropped: false,
        peer,
    }));
    (
        ScriptIo {
            shared: shared.clone(),
            sleep: None,
            wsleep: None,
        },
        IoHandle { shared },
    )
}

impl IoHandle {
    /// transcript of everything written so far
    pub fn written(&self) -> Vec<(Duration, Vec<u8>)> {
        self.shared.lock().unwrap().written.clone()
    }
    /// all written bytes concatenated
    pub fn written_bytes(&self) -> Vec<u8> {
        let g = self.shared.lock().unwrap();
        let mut out = Vec::new();
        for (_, b) in g.written.iter() {
            out.extend_from_slice(b);
        }
        out
    }
    pub fn write_count(&self) -> usize {
        self.shared.lock().unwrap().written.len()
    }
    /// number of read events not yet consumed
    pub fn pending_events(&self) -> usize {
        self.shared.lock().unwrap().queue.len()
    }
    /// whether the session dropped the transport
    pub fn dropped(&self) -> bool {
        self.shared.lock().unwrap().dropped
    }
    /// append an event that becomes available `delay` after now
    pub fn push(&self, delay: Duration, ev: ReadEv) {
        let mut g = self.shared.lock().unwrap();
        let now = Instant::now() - g.start;
        let mut at = now + delay;
        if let Some((last, _)) = g.queue.back() {
            if *last > at {
                at = *last;
            }
        }
        g.queue.push_back((at, ev));
        if let Some(w) = g.waker.take() {
            w.wake();
        }
    }
    /// back-pressure: after `after` bytes in total nothing is accepted for `dur`
    pub fn set_write_stall(&self, after: usize, dur: Duration) {
        self.shared.lock().unwrap().write_stall = Some((after, dur));
    }
    /// elapsed virtual time since the transport was created
    pub fn now(&self) -> Duration {
        let g = self.shared.lock().unwrap();
        Instant::now() - g.start
    }
}

impl AsyncRead for ScriptIo {
    fn poll_read(
        mut self: Pin<&mut Self>,
        cx: &mut Context<'_>,
        buf: &mut ReadBuf<'_>,
    ) -> Poll<io::Result<()>> {
        let this = &mut *self;
        let mut guard = this.shared.lock().unwrap();
        // a plain reference: the fields can then be borrowed independently
        let g: &mut Shared = &mut guard;
        g.reads_polled += 1;
        let now = Instant::now() - g.start;
        let start = g.start;
        match g.queue.front_mut() {
            None => {
                g.waker = Some(cx.waker().clone());
                this.sleep = None;
                Poll::Pending
            }
            Some((at, ev)) => {
                if *at > now {
                    // not yet available: arm a timer
                    let deadline = start + *at;
                    g.waker = Some(cx.waker().clone());
                    let mut sleep = Box::pin(tokio::time::sleep_until(deadline));
                    match sleep.as_mut().poll(cx) {
                        Poll::Ready(()) => {
                            // deadline already reached (should not happen) - retry
                            this.sleep = None;
                            cx.waker().wake_by_ref();
                            Poll::Pending
                        }
                        Poll::Pending => {
                            this.sleep = Some(sleep);
                            Poll::Pending
                        }
                    }
                } else {
                    this.sleep = None;
                    match ev {
                        ReadEv::Chunk(bytes) => {
                            if buf.remaining() == 0 {
                                // caller error, behave like a socket: zero-length read
                                return Poll::Ready(Ok(()));
                            }
                            let n = std::cmp::min(buf.remaining(), bytes.len());
                            buf.put_slice(&bytes[..n]);
                            g.total_read += n;
                            if n == bytes.len() {
                                g.queue.pop_front();
                            } else {
                                bytes.drain(..n);
                            }
                            if n == 0 {
                                // empty chunk: skip it and try again
                                cx.waker().wake_by_ref();
                                return Poll::Pending;
                            }
                            Poll::Ready(Ok(()))
                        }
                        ReadEv::Eof => {
                            // EOF is sticky
                            Poll::Ready(Ok(()))
                        }
                        ReadEv::Err(kind) => {
                            let kind = kind.kind();
                            g.queue.pop_front();
                            Poll::Ready(Err(io::Error::from(kind)))
                        }
                    }
                }
            }
        }
    }
}

impl AsyncWrite for ScriptIo {
    fn poll_write(
        mut self: Pin<&mut Self>,
        cx: &mut Context<'_>,
        data: &[u8],
    ) -> Poll<io::Result<usize>> {
        let this = &mut *self;
        let mut g = this.shared.lock().unwrap();
        let now = Instant::now() - g.start;
        // back-pressure
        let mut data = data;
        if let Some((after, dur)) = g.write_stall {
            if g.total_written <= after && g.total_written + data.len() > after {
                let n = after - g.total_written;
                if n == 0 {
                    g.write_stall = None;
                    g.stall_until = Some(now + dur);
                } else {
                    data = &data[..n];
                }
            }
        }
        if let Some(until) = g.stall_until {
            if now < until {
                let deadline = g.start + until;
                drop(g);
                let mut sleep = Box::pin(tokio::time::sleep_until(deadline));
                return match sleep.as_mut().poll(cx) {
                    Poll::Ready(()) => {
                        cx.waker().wake_by_ref();
                        Poll::Pending
                    }
                    Poll::Pending => {
                        this.wsleep = Some(sleep);
                        Poll::Pending
                    }
                };
            }
            g.stall_until = None;
            this.wsleep = None;
        }
        g.total_written += data.len();
        // a session that keeps writing without end would exhaust the memory of the process: after
        // 256 KiB plus 16 times what it has read on that connection every further write fails
        if g.total_written > 256 * 1024 + 16 * g.total_read {
            return Poll::Ready(Err(io::Error::new(io::ErrorKind::Other, "harness: runaway writer on a simulated connection (more than 256 KiB + 16 x the bytes read)")));
        }
        let idx = g.writes_seen;
        g.writes_seen += 1;
        if let Some((n, kind)) = g.fail_write_at {
            if idx >= n {
                return Poll::Ready(Err(io::Error::from(kind.kind())));
            }
        }
        g.written.push((now, data.to_vec()));
        if let Some(mut peer) = g.peer.take() {
            let evs = peer.on_write(now, data);
            g.peer = Some(peer);
            let mut last = g.queue.back().map(|x| x.0).unwrap_or(Duration::ZERO);
            for (d, ev) in evs {
                let mut at = now + d;
                if at < last {
                    at = last;
                }
                last = at;
                g.queue.push_back((at, ev));
            }
            if let Some(w) = g.waker.take() {
                w.wake();
            }
        }
        Poll::Ready(Ok(data.len()))
    }

    fn poll_flush(self: Pin<&mut Self>, _cx: &mut Context<'_>) -> Poll<io::Result<()>> {
        Poll::Ready(Ok(()))
    }

    fn poll_shutdown(self: Pin<&mut Self>, _cx: &mut Context<'_>) -> Poll<io::Result<()>> {
        self.shared.lock().unwrap().closed = true;
        Poll::Ready(Ok(()))
    }
}

/// Wraps a future and counts how often it is polled
pub struct PollCounted<F> {
    inner: Pin<Box<F>>,
    pub count: Arc<std::sync::atomic::AtomicU64>,
}

impl<F: Future> PollCounted<F> {
    pub fn new(f: F) -> (Self, Arc<std::sync::atomic::AtomicU64>) {
        let count = Arc::new(std::sync::atomic::AtomicU64::new(0));
        (
            Self {
                inner: Box::pin(f),
                count: count.clone(),
            },
            count,
        )
    }
}

impl<F: Future> Future for PollCounted<F> {
    type Output = F::Output;
    fn poll(mut self: Pin<&mut Self>, cx: &mut Context<'_>) -> Poll<Self::Output> {
        self.count
            .fetch_add(1, std::sync::atomic::Ordering::Relaxed);
        self.inner.as_mut().poll(cx)
    }
}

/// Build the deterministic runtime: current thread, paused clock, pinned select! PRNG
pub fn runtime(select_seed: u64) -> tokio::runtime::Runtime {
    let mut seed_bytes = [0u8; 16];
    seed_bytes[..8].copy_from_slice(&select_seed.to_le_bytes());
    seed_bytes[8..].copy_from_slice(&(!select_seed).to_le_bytes());
    tokio::runtime::Builder::new_current_thread()
        .enable_time()
        .start_paused(true)
        .rng_seed(tokio::runtime::RngSeed::from_bytes(&seed_bytes))
        .build()
        .expect("runtime")
}

/// Virtual-time horizon after which a run is considered quiescent
pub const HORIZON: Duration = Duration::from_secs(10_000_000);

/// Outcome of running a future until it completes or the world is quiescent
pub enum Quiesce<T> {
    Done(T),
    /// nothing left to do before the horizon: the future is parked
    Parked,
}

/// Run `fut` until it completes or nothing can happen any more (paused clock auto-advances to
/// the horizon only when every task is idle).
pub async fn until_quiescent<F: Future>(fut: Pin<&mut F>) -> Quiesce<F::Output> {
    tokio::select! {
        biased;
        x = fut => Quiesce::Done(x),
        _ = tokio::time::sleep(HORIZON) => Quiesce::Parked,
    }
}

/// Let every ready task run without advancing the clock beyond `d`
pub async fn settle(d: Duration) {
    tokio::time::sleep(d).await;
}
