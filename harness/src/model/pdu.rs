//! Reference request/response grammar written from the Modbus Application Protocol v1.1b3.
//! Shares no code with rodbus.

use serde::{Deserialize, Serialize};

pub const MAX_READ_BITS: u32 = 2000;
pub const MAX_READ_REGS: u32 = 125;
pub const MAX_WRITE_COILS: u32 = 1968;
pub const MAX_WRITE_REGS: u32 = 123;
pub const COIL_ON: u16 = 0xFF00;
pub const COIL_OFF: u16 = 0x0000;

#[derive(Copy, Clone, Debug, PartialEq, Eq, Hash, PartialOrd, Ord, Serialize, Deserialize)]
pub enum Table {
    Coils,
    Discrete,
    Holding,
    Input,
}

#[derive(Copy, Clone, Debug, PartialEq, Eq, Hash, PartialOrd, Ord, Serialize, Deserialize)]
pub enum Kind {
    ReadCoils,
    ReadDiscrete,
    ReadHolding,
    ReadInput,
    WriteCoil,
    WriteReg,
    WriteCoils,
    WriteRegs,
}

impl Kind {
    pub const ALL: [Kind; 8] = [
        Kind::ReadCoils,
        Kind::ReadDiscrete,
        Kind::ReadHolding,
        Kind::ReadInput,
        Kind::WriteCoil,
        Kind::WriteReg,
        Kind::WriteCoils,
        Kind::WriteRegs,
    ];
    pub fn fc(self) -> u8 {
        match self {
            Kind::ReadCoils => 1,
            Kind::ReadDiscrete => 2,
            Kind::ReadHolding => 3,
            Kind::ReadInput => 4,
            Kind::WriteCoil => 5,
            Kind::WriteReg => 6,
            Kind::WriteCoils => 15,
            Kind::WriteRegs => 16,
        }
    }
    pub fn from_fc(fc: u8) -> Option<Kind> {
        Some(match fc {
            1 => Kind::ReadCoils,
            2 => Kind::ReadDiscrete,
            3 => Kind::ReadHolding,
            4 => Kind::ReadInput,
            5 => Kind::WriteCoil,
            6 => Kind::WriteReg,
            15 => Kind::WriteCoils,
            16 => Kind::WriteRegs,
            _ => return None,
        })
    }
    pub fn is_read(self) -> bool {
        matches!(
            self,
            Kind::ReadCoils | Kind::ReadDiscrete | Kind::ReadHolding | Kind::ReadInput
        )
    }
    pub fn is_write(self) -> bool {
        !self.is_read()
    }
    pub fn table(self) -> Table {
        match self {
            Kind::ReadCoils | Kind::WriteCoil | Kind::WriteCoils => Table::Coils,
            Kind::ReadDiscrete => Table::Discrete,
            Kind::ReadHolding | Kind::WriteReg | Kind::WriteRegs => Table::Holding,
            Kind::ReadInput => Table::Input,
        }
    }
    /// protocol quantity limit for the kind (1 for single writes)
    pub fn limit(self) -> u32 {
        match self {
            Kind::ReadCoils | Kind::ReadDiscrete => MAX_READ_BITS,
            Kind::ReadHolding | Kind::ReadInput => MAX_READ_REGS,
            Kind::WriteCoil | Kind::WriteReg => 1,
            Kind::WriteCoils => MAX_WRITE_COILS,
            Kind::WriteRegs => MAX_WRITE_REGS,
        }
    }
    pub fn name(self) -> &'static str {
        match self {
            Kind::ReadCoils => "read_coils",
            Kind::ReadDiscrete => "read_discrete",
            Kind::ReadHolding => "read_holding",
            Kind::ReadInput => "read_input",
            Kind::WriteCoil => "write_coil",
            Kind::WriteReg => "write_reg",
            Kind::WriteCoils => "write_coils",
            Kind::WriteRegs => "write_regs",
        }
    }
}

/// A request that is well-formed and within protocol limits
#[derive(Clone, Debug, PartialEq, Eq, Hash, Serialize, Deserialize)]
pub enum ValidReq {
    Read { kind: Kind, start: u16, count: u16 },
    WriteCoil { addr: u16, value: bool },
    WriteReg { addr: u16, value: u16 },
    WriteCoils { start: u16, values: Vec<bool> },
    WriteRegs { start: u16, values: Vec<u16> },
}

impl ValidReq {
    pub fn kind(&self) -> Kind {
        match self {
            ValidReq::Read { kind, .. } => *kind,
            ValidReq::WriteCoil { .. } => Kind::WriteCoil,
            ValidReq::WriteReg { .. } => Kind::WriteReg,
            ValidReq::WriteCoils { .. } => Kind::WriteCoils,
            ValidReq::WriteRegs { .. } => Kind::WriteRegs,
        }
    }
    pub fn start(&self) -> u16 {
        match self {
            ValidReq::Read { start, .. } => *start,
            ValidReq::WriteCoil { addr, .. } => *addr,
            ValidReq::WriteReg { addr, .. } => *addr,
            ValidReq::WriteCoils { start, .. } => *start,
            ValidReq::WriteRegs { start, .. } => *start,
        }
    }
    pub fn count(&self) -> u16 {
        match self {
            ValidReq::Read { count, .. } => *count,
            ValidReq::WriteCoil { .. } | ValidReq::WriteReg { .. } => 1,
            ValidReq::WriteCoils { values, .. } => values.len() as u16,
            ValidReq::WriteRegs { values, .. } => values.len() as u16,
        }
    }
    /// true if the last address of the range is 65535
    pub fn touches_top(&self) -> bool {
        self.start() as u32 + self.count() as u32 == 65536
    }
}

/// Why a request PDU with a supported function code is rejected with exception 03
#[derive(Copy, Clone, Debug, PartialEq, Eq, Hash, Serialize, Deserialize)]
pub enum Invalid {
    WrongLength,
    ZeroCount,
    AddressOverflow,
    OverLimit,
    BadCoilValue,
}

#[derive(Clone, Debug, PartialEq, Eq)]
pub enum ReqClass {
    /// empty PDU
    Empty,
    /// function code the library does not support
    Unsupported(u8),
    /// supported function code, syntactically invalid or beyond the limits => exception 03
    Invalid(Kind, Invalid),
    /// total length matches the quantity but the byte-count field disagrees (FC 15/16): the
    /// statement does not say whether this is accepted; not judged
    ByteCountMismatch(Kind),
    Valid(ValidReq),
}

fn be16(b: &[u8]) -> u16 {
    ((b[0] as u16) << 8) | b[1] as u16
}

pub fn bytes_for_bits(n: usize) -> usize {
    (n + 7) / 8
}

/// Classify a request PDU (function code + body)
pub fn classify_request(pdu: &[u8]) -> ReqClass {
    if pdu.is_empty() {
        return ReqClass::Empty;
    }
    let fc = pdu[0];
    let kind = match Kind::from_fc(fc) {
        Some(k) => k,
        None => return ReqClass::Unsupported(fc),
    };
    let body = &pdu[1..];
    match kind {
        Kind::ReadCoils | Kind::ReadDiscrete | Kind::ReadHolding | Kind::ReadInput => {
            if body.len() != 4 {
                return ReqClass::Invalid(kind, Invalid::WrongLength);
            }
            let start = be16(&body[0..2]);
            let count = be16(&body[2..4]);
            if count == 0 {
                return ReqClass::Invalid(kind, Invalid::ZeroCount);
            }
            if start as u32 + count as u32 > 65536 {
                return ReqClass::Invalid(kind, Invalid::AddressOverflow);
            }
            if count as u32 > kind.limit() {
                return ReqClass::Invalid(kind, Invalid::OverLimit);
            }
            ReqClass::Valid(ValidReq::Read { kind, start, count })
        }
        Kind::WriteCoil => {
            if body.len() != 4 {
                return ReqClass::Invalid(kind, Invalid::WrongLength);
            }
            let addr = be16(&body[0..2]);
            let raw = be16(&body[2..4]);
            let value = match raw {
                COIL_ON => true,
                COIL_OFF => false,
                _ => return ReqClass::Invalid(kind, Invalid::BadCoilValue),
            };
            ReqClass::Valid(ValidReq::WriteCoil { addr, value })
        }
        Kind::WriteReg => {
            if body.len() != 4 {
                return ReqClass::Invalid(kind, Invalid::WrongLength);
            }
            ReqClass::Valid(ValidReq::WriteReg {
                addr: be16(&body[0..2]),
                value: be16(&body[2..4]),
            })
        }
        Kind::WriteCoils | Kind::WriteRegs => {
            if body.len() < 5 {
                return ReqClass::Invalid(kind, Invalid::WrongLength);
            }
            let start = be16(&body[0..2]);
            let count = be16(&body[2..4]);
            let bc = body[4] as usize;
            let data = &body[5..];
            // Order of the checks below matters only for the label, all lead to exception 03
            if count == 0 {
                return ReqClass::Invalid(kind, Invalid::ZeroCount);
            }
            if start as u32 + count as u32 > 65536 {
                return ReqClass::Invalid(kind, Invalid::AddressOverflow);
            }
            if count as u32 > kind.limit() {
                return ReqClass::Invalid(kind, Invalid::OverLimit);
            }
            let need = if kind == Kind::WriteCoils {
                bytes_for_bits(count as usize)
            } else {
                2 * count as usize
            };
            if data.len() != need {
                return ReqClass::Invalid(kind, Invalid::WrongLength);
            }
            if bc != need {
                return ReqClass::ByteCountMismatch(kind);
            }
            if kind == Kind::WriteCoils {
                let values = (0..count as usize)
                    .map(|i| data[i / 8] & (1 << (i % 8)) != 0)
                    .collect();
                ReqClass::Valid(ValidReq::WriteCoils { start, values })
            } else {
                let values = (0..count as usize)
                    .map(|i| be16(&data[2 * i..2 * i + 2]))
                    .collect();
                ReqClass::Valid(ValidReq::WriteRegs { start, values })
            }
        }
    }
}

/// Encode a valid request as a PDU
pub fn encode_request(req: &ValidReq) -> Vec<u8> {
    let mut out = vec![req.kind().fc()];
    match req {
        ValidReq::Read { start, count, .. } => {
            out.extend_from_slice(&start.to_be_bytes());
            out.extend_from_slice(&count.to_be_bytes());
        }
        ValidReq::WriteCoil { addr, value } => {
            out.extend_from_slice(&addr.to_be_bytes());
            out.extend_from_slice(&(if *value { COIL_ON } else { COIL_OFF }).to_be_bytes());
        }
        ValidReq::WriteReg { addr, value } => {
            out.extend_from_slice(&addr.to_be_bytes());
            out.extend_from_slice(&value.to_be_bytes());
        }
        ValidReq::WriteCoils { start, values } => {
            out.extend_from_slice(&start.to_be_bytes());
            out.extend_from_slice(&(values.len() as u16).to_be_bytes());
            let packed = pack_bits(values);
            out.push(packed.len() as u8);
            out.extend_from_slice(&packed);
        }
        ValidReq::WriteRegs { start, values } => {
            out.extend_from_slice(&start.to_be_bytes());
            out.extend_from_slice(&(values.len() as u16).to_be_bytes());
            out.push((2 * values.len()) as u8);
            for v in values {
                out.extend_from_slice(&v.to_be_bytes());
            }
        }
    }
    out
}

/// LSB-first packing with zero padding
pub fn pack_bits(values: &[bool]) -> Vec<u8> {
    let mut out = vec![0u8; bytes_for_bits(values.len())];
    for (i, v) in values.iter().enumerate() {
        if *v {
            out[i / 8] |= 1 << (i % 8);
        }
    }
    out
}

pub fn exception_pdu(fc: u8, code: u8) -> Vec<u8> {
    vec![fc | 0x80, code]
}

/// Reply PDU for a successful read of bits
pub fn read_bits_reply(fc: u8, values: &[bool]) -> Vec<u8> {
    let packed = pack_bits(values);
    let mut out = vec![fc, packed.len() as u8];
    out.extend_from_slice(&packed);
    out
}

/// Reply PDU for a successful read of registers
pub fn read_regs_reply(fc: u8, values: &[u16]) -> Vec<u8> {
    let mut out = vec![fc, (2 * values.len()) as u8];
    for v in values {
        out.extend_from_slice(&v.to_be_bytes());
    }
    out
}

/// Reply PDU for a successful write
pub fn write_reply(req: &ValidReq) -> Vec<u8> {
    match req {
        ValidReq::WriteCoil { .. } | ValidReq::WriteReg { .. } => encode_request(req),
        ValidReq::WriteCoils { start, values } => {
            let mut out = vec![15];
            out.extend_from_slice(&start.to_be_bytes());
            out.extend_from_slice(&(values.len() as u16).to_be_bytes());
            out
        }
        ValidReq::WriteRegs { start, values } => {
            let mut out = vec![16];
            out.extend_from_slice(&start.to_be_bytes());
            out.extend_from_slice(&(values.len() as u16).to_be_bytes());
            out
        }
        ValidReq::Read { .. } => unreachable!("not a write"),
    }
}

/// Values carried by a reply the client must accept
#[derive(Clone, Debug, PartialEq, Eq, Hash, Serialize, Deserialize)]
pub enum ReplyValue {
    Bits(Vec<(u16, bool)>),
    Regs(Vec<(u16, u16)>),
    EchoCoil(u16, bool),
    EchoReg(u16, u16),
    EchoRange(u16, u16),
}

/// What the client is allowed to report for (request, reply PDU)
#[derive(Clone, Debug, PartialEq, Eq, Hash)]
pub enum ReplyClass {
    /// must succeed with exactly these values
    Ok(ReplyValue),
    /// must fail with exactly this exception code
    Exception(u8),
    /// must fail with an error that is not an exception
    OtherError,
    /// right function code and exact length, but the byte-count field of a read reply differs
    /// from the implied one: not covered by the statement's acceptance conditions
    ByteCountMismatch(ReplyValue),
}

/// Classify a reply PDU against the request it answers
pub fn classify_reply(req: &ValidReq, pdu: &[u8]) -> ReplyClass {
    if pdu.is_empty() {
        return ReplyClass::OtherError;
    }
    let fc = req.kind().fc();
    if pdu[0] == (fc | 0x80) {
        if pdu.len() == 2 {
            return ReplyClass::Exception(pdu[1]);
        }
        return ReplyClass::OtherError;
    }
    if pdu[0] != fc {
        return ReplyClass::OtherError;
    }
    let body = &pdu[1..];
    match req {
        ValidReq::Read { kind, start, count } => {
            let n = *count as usize;
            let bits = matches!(kind, Kind::ReadCoils | Kind::ReadDiscrete);
            let need = if bits { bytes_for_bits(n) } else { 2 * n };
            if body.len() != 1 + need {
                return ReplyClass::OtherError;
            }
            let data = &body[1..];
            let value = if bits {
                ReplyValue::Bits(
                    (0..n)
                        .map(|i| (start.wrapping_add(i as u16), data[i / 8] & (1 << (i % 8)) != 0))
                        .collect(),
                )
            } else {
                ReplyValue::Regs(
                    (0..n)
                        .map(|i| (start.wrapping_add(i as u16), be16(&data[2 * i..2 * i + 2])))
                        .collect(),
                )
            };
            if body[0] as usize != need {
                ReplyClass::ByteCountMismatch(value)
            } else {
                ReplyClass::Ok(value)
            }
        }
        ValidReq::WriteCoil { addr, value } => {
            if body.len() != 4 {
                return ReplyClass::OtherError;
            }
            let a = be16(&body[0..2]);
            let v = be16(&body[2..4]);
            if a == *addr && v == (if *value { COIL_ON } else { COIL_OFF }) {
                ReplyClass::Ok(ReplyValue::EchoCoil(*addr, *value))
            } else {
                ReplyClass::OtherError
            }
        }
        ValidReq::WriteReg { addr, value } => {
            if body.len() != 4 {
                return ReplyClass::OtherError;
            }
            if be16(&body[0..2]) == *addr && be16(&body[2..4]) == *value {
                ReplyClass::Ok(ReplyValue::EchoReg(*addr, *value))
            } else {
                ReplyClass::OtherError
            }
        }
        ValidReq::WriteCoils { .. } | ValidReq::WriteRegs { .. } => {
            if body.len() != 4 {
                return ReplyClass::OtherError;
            }
            if be16(&body[0..2]) == req.start() && be16(&body[2..4]) == req.count() {
                ReplyClass::Ok(ReplyValue::EchoRange(req.start(), req.count()))
            } else {
                ReplyClass::OtherError
            }
        }
    }
}

/// Build the genuine reply PDU for a request from values
pub fn genuine_reply(req: &ValidReq, bits: &[bool], regs: &[u16]) -> Vec<u8> {
    match req {
        ValidReq::Read { kind, count, .. } => {
            let n = *count as usize;
            match kind {
                Kind::ReadCoils | Kind::ReadDiscrete => {
                    let v: Vec<bool> = (0..n).map(|i| bits[i % bits.len().max(1)]).collect();
                    read_bits_reply(kind.fc(), &v)
                }
                _ => {
                    let v: Vec<u16> = (0..n).map(|i| regs[i % regs.len().max(1)]).collect();
                    read_regs_reply(kind.fc(), &v)
                }
            }
        }
        _ => write_reply(req),
    }
}
