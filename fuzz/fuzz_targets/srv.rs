#![no_main]
//! libFuzzer target: server session. The fuzzer owns the byte stream and its chunking; the
//! target carries the C07 oracle (no panic, poll budget, shutdown honoured) and, when the stream
//! is a clean sequence of MBAP frames, the C01/C02 reference-server oracles.
use arbitrary::Unstructured;
use libfuzzer_sys::fuzz_target;
use vh::props::robust::{check_c07_srv, C07Srv, Finish};
use vh::props::srv::{judge, Frame, SrvCase};
use vh::simsrv::{Decode, Fr, SrvConfig};

fn unit_state() -> vh::app::UnitState {
    let mut st = vh::app::UnitState::default();
    for a in 0..24u16 {
        st.coils.insert(a, a % 3 == 0);
        st.discrete.insert(a, a % 2 == 0);
        st.holding.insert(a, a.wrapping_mul(257));
        st.input.insert(a, a.wrapping_mul(3));
    }
    for k in 0..8u16 {
        st.coils.insert(65535 - k, true);
        st.holding.insert(65535 - k, k);
    }
    st.read_ex.push((vh::model::pdu::Table::Holding, 5, vh::app::Exc { code: 4, as_unknown: false }));
    st.write_ex.push((vh::model::pdu::Table::Coils, 7, vh::app::Exc { code: 0x99, as_unknown: false }));
    st
}

fuzz_target!(|data: &[u8]| {
    let mut u = Unstructured::new(data);
    let hdr: [u8; 6] = match u.arbitrary() {
        Ok(h) => h,
        Err(_) => return,
    };
    let framing = if hdr[0] & 1 == 0 { Fr::Mbap } else { Fr::Rtu };
    let decode = Decode {
        app: hdr[1] % 4,
        frame: hdr[2] % 3,
        phys: hdr[3] % 3,
    };
    let finish = match hdr[4] % 3 {
        0 => Finish::Eof,
        1 => Finish::Park,
        _ => Finish::ReadErr(vh::sim::IoKind::ConnectionReset),
    };
    let chunk = match hdr[5] % 6 {
        0 => vh::gen::Partition::Whole,
        1 => vh::gen::Partition::Every(1),
        2 => vh::gen::Partition::Every(7),
        3 => vh::gen::Partition::Every(260),
        4 => vh::gen::Partition::Cuts(vec![3, 4, 5, 255]),
        _ => vh::gen::Partition::Every(13),
    };
    let stream = u.take_rest().to_vec();
    let cfg = SrvConfig {
        framing,
        units: vec![(1, unit_state()), (17, unit_state())],
        auth: None,
        decode,
        // in a quarter of the inputs unit 33 is served by the handler instance of unit 1
        aliases: if hdr[0] & 6 == 6 { vec![(33, 1)] } else { vec![] },
    };
    let case = C07Srv {
        cfg: cfg.clone(),
        stream: stream.clone(),
        partition: chunk,
        finish,
        fail_write_at: None,
        select_seed: hdr[5] as u64,
    };
    if let Err(m) = check_c07_srv(&case) {
        panic!("VERIF-VIOLATION property=C07 {}", m);
    }
    // semantic oracle: a clean MBAP stream must be answered exactly like the reference server
    if framing == Fr::Mbap {
        let (frames, end) = vh::model::framing::deframe_mbap(&stream);
        if end == vh::model::framing::MbapEnd::Clean && !frames.is_empty() && frames.len() <= 16 {
            let sc = SrvCase {
                cfg,
                frames: frames
                    .into_iter()
                    .map(|f| Frame {
                        tx: f.tx,
                        unit: f.unit,
                        pdu: f.pdu,
                    })
                    .collect(),
                select_seed: 1,
            };
            let j = judge(&sc);
            if let Some(m) = j.replies {
                panic!("VERIF-VIOLATION property=C01 {}", m);
            }
            if let Some(m) = j.calls {
                panic!("VERIF-VIOLATION property=C02 {}", m);
            }
            if let Some(m) = j.multidrop {
                panic!("VERIF-VIOLATION property=C17 {}", m);
            }
        }
    }
});
