//! C20: protocol decoding (logging) is purely observational.

use proptest::prelude::*;
use serde::{Deserialize, Serialize};

use crate::gen::*;
use crate::props::cli::{arb_c11, arb_c12, stream_cli_case, StreamCase};
use crate::props::srv::{arb_auth_case, arb_srv_case, frame_bytes, SrvCase};
use crate::runner::{CaseOk, CaseResult};
use crate::simcli::*;
use crate::simsrv::*;

#[derive(Clone, Debug, PartialEq, Eq, Hash, Serialize, Deserialize)]
pub struct C20Srv {
    pub base: SrvCase,
    /// how each frame is cut into reads
    pub cut: Partition,
    pub random_level: Decode,
    pub new_level: Decode,
    /// position (in the step list) at which the level is changed through the handle
    pub change_at: u16,
}

pub fn arb_c20_srv() -> BoxedStrategy<C20Srv> {
    (
        prop_oneof![3 => arb_srv_case(), 1 => arb_auth_case()],
        prop_oneof![
            2 => Just(Partition::Whole),
            2 => prop::sample::select(vec![1usize, 2, 3, 5, 7, 8, 100]).prop_map(Partition::Every),
            1 => proptest::collection::vec(1usize..12, 1..4).prop_map(Partition::Cuts),
        ],
        arb_decode_any(),
        arb_decode_any(),
        any::<u16>(),
    )
        .prop_map(|(base, cut, random_level, new_level, change_at)| C20Srv {
            base,
            cut,
            random_level,
            new_level,
            change_at,
        })
        .boxed()
}

fn srv_steps(case: &C20Srv, change: Option<Decode>) -> (Vec<Step>, bool) {
    let fr = case.base.cfg.framing;
    let mut steps = Vec::new();
    // positions after which a frame is incomplete
    let mut mid_frame_positions: Vec<usize> = Vec::new();
    for f in &case.base.frames {
        let bytes = frame_bytes(fr, f);
        let chunks = case.cut.apply(&bytes);
        let n = chunks.len();
        for (i, c) in chunks.into_iter().enumerate() {
            steps.push(Step::Bytes(c));
            steps.push(Step::Pause);
            if i + 1 < n {
                mid_frame_positions.push(steps.len());
            }
        }
    }
    let mut landed_mid_frame = false;
    if let Some(level) = change {
        let pos = case.change_at as usize % (steps.len() + 1);
        landed_mid_frame = mid_frame_positions.contains(&pos);
        steps.insert(pos, Step::SetDecode(level));
        // let the command be processed before the next bytes arrive
        steps.insert(pos + 1, Step::Pause);
    }
    steps.push(Step::Eof);
    (steps, landed_mid_frame)
}

fn observe_srv(run: &SrvRun) -> (Vec<(std::time::Duration, Vec<u8>)>, Vec<crate::app::Call>, String) {
    (
        run.writes.clone(),
        run.calls.clone(),
        format!("{:?} / {:?}", run.end, run.final_units),
    )
}

pub fn check_c20_srv(case: &C20Srv) -> CaseResult {
    let mut ok = CaseOk::new();
    let opt = SrvOptions {
        select_seed: case.base.select_seed,
        ..Default::default()
    };
    let with_level = |d: Decode| {
        let mut cfg = case.base.cfg.clone();
        cfg.decode = d;
        cfg
    };
    let (plain_steps, _) = srv_steps(case, None);
    let base = run_server(&with_level(Decode::NOTHING), &plain_steps, &opt);
    let base_obs = observe_srv(&base);
    // the Pause steps of the changed scripts add virtual time: compare writes without the
    // timestamps for those, with timestamps for the unchanged scripts
    let strip = |o: &(Vec<(std::time::Duration, Vec<u8>)>, Vec<crate::app::Call>, String)| {
        (
            o.0.iter().map(|w| w.1.clone()).collect::<Vec<_>>(),
            o.1.clone(),
            o.2.clone(),
        )
    };
    for (name, level) in [("highest level", Decode::MAX), ("random level", case.random_level)] {
        let run = run_server(&with_level(level), &plain_steps, &opt);
        if observe_srv(&run) != base_obs {
            return Err(format!(
                "server session at the {} ({:?}) behaves differently from decode level nothing: {}",
                name,
                level,
                diff_srv(&base, &run)
            ));
        }
    }
    // the same with a transport that accepts a reply in pieces (back-pressure): what is logged
    // about a write must not change what is written
    {
        let stalled = SrvOptions {
            select_seed: case.base.select_seed,
            write_stall: Some((1 + (case.base.select_seed as usize) % 40, 1 + case.base.select_seed % 3)),
            ..Default::default()
        };
        let b = run_server(&with_level(Decode::NOTHING), &plain_steps, &stalled);
        for level in [Decode::MAX, case.random_level] {
            let run = run_server(&with_level(level), &plain_steps, &stalled);
            if observe_srv(&run) != observe_srv(&b) {
                return Err(format!(
                    "server session at decode level {:?} behaves differently from level nothing when the transport accepts replies in pieces: {}",
                    level,
                    diff_srv(&b, &run)
                ));
            }
        }
        ok.label("static_levels_under_backpressure");
    }
    for (name, from, to) in [
        ("nothing -> generated level", Decode::NOTHING, case.new_level),
        ("generated level -> generated level", case.random_level, case.new_level),
        ("highest -> nothing", Decode::MAX, Decode::NOTHING),
    ] {
        let (steps, mid) = srv_steps(case, Some(to));
        let run = run_server(&with_level(from), &steps, &opt);
        if strip(&observe_srv(&run)) != strip(&base_obs) {
            return Err(format!(
                "changing the decode level ({}) at step {} changes the session's behaviour: {}",
                name,
                case.change_at as usize % (plain_steps.len()),
                diff_srv(&base, &run)
            ));
        }
        if mid {
            ok.label("change:mid_frame");
            ok.nontrivial = true;
        }
    }
    if !base.writes.is_empty() {
        ok.label("has_replies");
    }
    if case.base.cfg.auth.is_some() {
        ok.label("auth");
    }
    Ok(ok)
}

fn diff_srv(a: &SrvRun, b: &SrvRun) -> String {
    if a.writes.len() != b.writes.len() {
        return format!("{} vs {} frames written", a.writes.len(), b.writes.len());
    }
    for (i, (x, y)) in a.writes.iter().zip(b.writes.iter()).enumerate() {
        if x.1 != y.1 {
            return format!("reply {} differs", i);
        }
    }
    if a.calls != b.calls {
        return format!("handler calls differ ({} vs {})", a.calls.len(), b.calls.len());
    }
    if a.end != b.end {
        return format!("session end {:?} vs {:?}", a.end, b.end);
    }
    if a.final_units != b.final_units {
        return "final application state differs".to_string();
    }
    "timestamps differ".to_string()
}

// ---------------------------------------------------------------------------------------------
// client

#[derive(Clone, Debug, PartialEq, Eq, Hash, Serialize, Deserialize)]
pub struct C20Cli {
    pub base: StreamCase,
    pub random_level: Decode,
    pub new_level: Decode,
    pub change_at: u16,
}

pub fn arb_c20_cli() -> BoxedStrategy<C20Cli> {
    (
        prop_oneof![1 => arb_c11(), 1 => arb_c12()],
        arb_decode_any(),
        arb_decode_any(),
        any::<u16>(),
    )
        .prop_map(|(base, random_level, new_level, change_at)| C20Cli {
            base,
            random_level,
            new_level,
            change_at,
        })
        .boxed()
}

type CliObs = (
    Vec<(usize, std::time::Duration, Res)>,
    Vec<(std::time::Duration, Vec<u8>)>,
    Vec<(std::time::Duration, LoopEvent)>,
);

fn observe_cli(run: &CliRun) -> CliObs {
    let mut comps: Vec<_> = run
        .ledger
        .completions
        .iter()
        .map(|c| (c.id, c.at, c.res.clone()))
        .collect();
    comps.sort_by_key(|c| c.0);
    let writes = run
        .peers
        .iter()
        .flat_map(|p| p.writes.iter().cloned())
        .collect();
    (comps, writes, run.events.clone())
}

pub fn check_c20_cli(case: &C20Cli) -> CaseResult {
    let mut ok = CaseOk::new();
    // scripts in which two events coincide to the millisecond are decided by tokio's select!
    // tie-break, which an extra queued command legitimately perturbs: not judged
    let j = crate::props::cli::judge_stream(&case.base);
    if j.ok.labels.contains(&"tie:not_judged") {
        ok.label("tie:not_judged");
        ok.dontcare += 1;
        return Ok(ok);
    }
    let mut plain = stream_cli_case(&case.base);
    plain.cfg.decode = Decode::NOTHING;
    // room for the extra command so that it displaces nothing
    plain.cfg.queue = 32;
    let base = observe_cli(&run_client(&plain));
    for (name, level) in [("highest level", Decode::MAX), ("random level", case.random_level)] {
        let mut c = plain.clone();
        c.cfg.decode = level;
        let obs = observe_cli(&run_client(&c));
        if obs != base {
            return Err(format!(
                "client at the {} ({:?}) behaves differently from decode level nothing: {}",
                name,
                level,
                diff_cli(&base, &obs)
            ));
        }
    }
    // static levels once more over a transport that accepts requests in pieces
    {
        let mut stalled = plain.clone();
        if let Some(conn) = stalled.conns.first_mut() {
            conn.write_stall = Some((1 + (case.base.select_seed % 40) as u32, 1 + (case.base.select_seed % 3) as u32));
        }
        let b = observe_cli(&run_client(&stalled));
        for level in [Decode::MAX, case.random_level] {
            let mut c = stalled.clone();
            c.cfg.decode = level;
            let obs = observe_cli(&run_client(&c));
            if obs != b {
                return Err(format!(
                    "client at decode level {:?} behaves differently from level nothing when the transport accepts requests in pieces: {}",
                    level,
                    diff_cli(&b, &obs)
                ));
            }
        }
        ok.label("static_levels_under_backpressure");
    }
    for (name, from, to) in [
        ("nothing -> generated level", Decode::NOTHING, case.new_level),
        ("generated level -> generated level", case.random_level, case.new_level),
        ("highest -> nothing", Decode::MAX, Decode::NOTHING),
    ] {
        let mut c = plain.clone();
        c.cfg.decode = from;
        let pos = case.change_at as usize % (c.ops.len() + 1);
        c.ops.insert(pos, COp::SetDecode(0, to));
        let submits_before = c.ops[..pos]
            .iter()
            .filter(|o| matches!(o, COp::Submit { .. }))
            .count();
        let obs = observe_cli(&run_client(&c));
        if obs != base {
            return Err(format!(
                "changing the decode level ({}) after {} submissions changes the client's behaviour: {}",
                name,
                submits_before,
                diff_cli(&base, &obs)
            ));
        }
        if submits_before >= 1 && submits_before < case.base.requests.len() {
            ok.label("change:while_requests_queued");
            ok.nontrivial = true;
        }
    }
    Ok(ok)
}

fn diff_cli(a: &CliObs, b: &CliObs) -> String {
    if a.1 != b.1 {
        return format!("transmitted frames differ ({} vs {})", a.1.len(), b.1.len());
    }
    for (x, y) in a.0.iter().zip(b.0.iter()) {
        if x != y {
            return format!("request {}: {:?} at {:?} vs {:?} at {:?}", x.0, x.2, x.1, y.2, y.1);
        }
    }
    if a.0.len() != b.0.len() {
        return format!("{} vs {} completions", a.0.len(), b.0.len());
    }
    format!("session events differ: {:?} vs {:?}", a.2, b.2)
}


// ---------------------------------------------------------------------------------------------
// C20 over the histories of C10 and the chunked streams of C05/C06: the same script at the lowest
// level, at the highest and at the level the case carries must give the same transcript, results,
// completion instants and outer-loop events (static levels: no command is added, so the schedule
// is the same down to tokio's tie-breaks)

pub fn check_c20_history(case: &CliCase) -> CaseResult {
    let mut ok = CaseOk::new();
    let mut plain = case.clone();
    plain.cfg.decode = Decode::NOTHING;
    let base_run = run_client(&plain);
    let base = observe_cli(&base_run);
    for level in [Decode::MAX, case.cfg.decode] {
        let mut c = case.clone();
        c.cfg.decode = level;
        let obs = observe_cli(&run_client(&c));
        if obs != base {
            return Err(format!(
                "a C10 history at decode level {:?} behaves differently from level nothing: {}",
                level,
                diff_cli(&base, &obs)
            ));
        }
    }
    if base_run.ledger.completions.len() >= 3 {
        ok.label("completions>=3");
    }
    if base_run.peers.len() >= 2 {
        ok.label("reconnected");
    }
    ok.nontrivial = base_run.ledger.completions.len() >= 3 && base_run.peers.len() >= 2;
    Ok(ok)
}
