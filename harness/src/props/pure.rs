//! Pure (no session) checks: AddressRange grid (C03), retry strategy (C14), wildcard parser (C16).

use serde_json::{json, Value};

use crate::runner::*;

fn lattice_u16() -> Vec<u16> {
    let mut v: Vec<u32> = Vec::new();
    for b in [0u32, 1, 2, 7, 8, 9, 123, 124, 125, 126, 255, 256, 257, 1968, 1969, 2000, 2001, 32767, 32768, 32769, 65533, 65534, 65535] {
        v.push(b);
    }
    for k in 0..16 {
        let p = 1u32 << k;
        v.push(p);
        v.push(p.saturating_sub(1));
        v.push(p + 1);
        v.push(65536 - p);
        v.push(65535 - p);
    }
    let mut v: Vec<u16> = v.into_iter().filter(|x| *x < 65536).map(|x| x as u16).collect();
    v.sort();
    v.dedup();
    v
}

fn range_case(start: u16, count: u16) -> Result<bool, String> {
    let model_ok = count >= 1 && start as u32 + count as u32 <= 65536;
    match rodbus::AddressRange::try_from(start, count) {
        Ok(r) => {
            if !model_ok {
                return Err(format!(
                    "AddressRange::try_from({}, {}) accepted an empty or address-overflowing range",
                    start, count
                ));
            }
            if r.start != start || r.count != count {
                return Err(format!(
                    "AddressRange::try_from({}, {}) returned {:?}",
                    start, count, r
                ));
            }
            let std = r.to_std_range();
            if std.start != start as usize || std.end != start as usize + count as usize {
                return Err(format!("to_std_range of ({}, {}) is {:?}", start, count, std));
            }
        }
        Err(e) => {
            if model_ok {
                return Err(format!(
                    "AddressRange::try_from({}, {}) rejected a valid range: {:?}",
                    start, count, e
                ));
            }
        }
    }
    // non-trivial: within 2 of the accept/reject boundary
    let s = start as i64 + count as i64;
    Ok(count <= 2 || (s - 65536).abs() <= 2)
}

pub fn c03_grid_replay(v: &Value) -> CaseResult {
    let start = v["start"].as_u64().ok_or("start")? as u16;
    let count = v["count"].as_u64().ok_or("count")? as u16;
    range_case(start, count).map(|nt| {
        let mut ok = CaseOk::new();
        ok.nontrivial = nt;
        ok
    })
}

pub fn c03_grid(ctx: &Ctx) -> SearchReport {
    let mut rep = SearchReport::empty(
        "c03_range_grid",
        "AddressRange::try_from over u16 x u16: boundary lattice (quick) or all 2^32 pairs (thorough); oracle: accepted iff count >= 1 and start + count <= 65536, fields preserved; non-trivial = pair within 2 of the accept/reject boundary (every pair is distinct by construction)",
    );
    match ctx.tier {
        Tier::Quick => {
            let l = lattice_u16();
            for s in &l {
                for c in &l {
                    rep.stats.evaluations += 1;
                    match range_case(*s, *c) {
                        Ok(nt) => {
                            if nt {
                                rep.stats.nontrivial_total += 1;
                                rep.stats.distinct.insert(((*s as u64) << 16) | *c as u64);
                                if rep.stats.samples.len() < 2 {
                                    rep.stats.samples.push(json!({"start": s, "count": c}));
                                }
                            }
                        }
                        Err(m) => {
                            rep.failure = Some(Failure {
                                message: m,
                                case: json!({"start": s, "count": c}),
                                hang: false,
                            });
                            return rep;
                        }
                    }
                }
            }
            *rep.stats.labels.entry("lattice_points_per_axis".to_string()).or_insert(0) = l.len() as u64;
        }
        Tier::Thorough => {
            let threads = ctx.threads.max(1);
            let mut handles = Vec::new();
            for t in 0..threads {
                handles.push(std::thread::spawn(move || {
                    let mut evals = 0u64;
                    let mut nts = 0u64;
                    let mut fail = None;
                    let mut s = t as u32;
                    'outer: while s < 65536 {
                        for c in 0..=65535u16 {
                            evals += 1;
                            match range_case(s as u16, c) {
                                Ok(nt) => {
                                    if nt {
                                        nts += 1
                                    }
                                }
                                Err(m) => {
                                    fail = Some((m, s as u16, c));
                                    break 'outer;
                                }
                            }
                        }
                        s += threads as u32;
                    }
                    (evals, nts, fail)
                }));
            }
            let mut nts_total = 0u64;
            for h in handles {
                let (e, n, f) = h.join().unwrap();
                rep.stats.evaluations += e;
                nts_total += n;
                if let Some((m, s, c)) = f {
                    if rep.failure.is_none() {
                        rep.failure = Some(Failure {
                            message: m,
                            case: json!({"start": s, "count": c}),
                            hang: false,
                        });
                    }
                }
            }
            rep.stats.nontrivial_total = nts_total;
            // all pairs are distinct: record the count through synthetic keys (capped to keep memory flat)
            for i in 0..nts_total.min(2_000_000) {
                rep.stats.distinct.insert(i);
            }
            rep.stats.samples.push(json!({"start": 65535, "count": 1}));
            rep.stats.samples.push(json!({"start": 65535, "count": 2}));
            rep.exhaustive = rep.failure.is_none();
        }
    }
    rep
}

// ---------------------------------------------------------------------------------------------
// C14 (a): the doubling retry strategy object

use proptest::collection::vec;
use proptest::prelude::*;
use serde::{Deserialize, Serialize};
use std::time::Duration;

#[derive(Clone, Debug, PartialEq, Eq, Hash, Serialize, Deserialize)]
pub enum RetryOp {
    /// a connect attempt failed: after_failed_connect()
    Failed,
    /// a connect attempt succeeded: reset(); the connection is later lost: after_disconnect()
    SucceededThenLost,
    /// reset() twice in a row is harmless (TLS handshake path calls it once per connection)
    Succeeded,
}

#[derive(Clone, Debug, PartialEq, Eq, Hash, Serialize, Deserialize)]
pub struct RetryCase {
    pub min_ns: u64,
    pub max_ns: u64,
    pub ops: Vec<RetryOp>,
    /// durations beyond what nanoseconds in a u64 can say: 0 = use the *_ns fields,
    /// 1 = Duration::MAX, 2 = Duration::MAX / 2, 3 = Duration::MAX / 2 + 1 ns, 4 = 2^62 s
    #[serde(default)]
    pub min_huge: u8,
    #[serde(default)]
    pub max_huge: u8,
}

fn huge(sel: u8, ns: u64) -> Duration {
    match sel {
        1 => Duration::MAX,
        2 => Duration::MAX / 2,
        3 => Duration::MAX / 2 + Duration::from_nanos(1),
        4 => Duration::from_secs(1 << 62),
        _ => Duration::from_nanos(ns),
    }
}

pub fn arb_retry() -> BoxedStrategy<RetryCase> {
    let dur = prop_oneof![
        3 => 1_000_000u64..=10_000_000_000,
        2 => prop::sample::select(vec![1_000_000u64, 1_000_000_000, 60_000_000_000, 1_500_000, 999_999_999]),
        1 => 1_000_000u64..=4_294_967_296_000_000_000,
    ];
    (dur.clone(), dur, prop_oneof![1 => Just(1u64), 1 => Just(2), 1 => Just(3), 2 => 1u64..2000], vec(prop_oneof![5 => Just(RetryOp::Failed), 2 => Just(RetryOp::SucceededThenLost), 1 => Just(RetryOp::Succeeded)], 1..80))
        .prop_map(|(a, b, mult, ops)| {
            let min_ns = a.min(b);
            // max is often a small multiple of min so that the cap is reached
            let max_ns = if mult < 1000 { min_ns.saturating_mul(mult).min(4_294_967_296_000_000_000) } else { a.max(b) };
            RetryCase {
                min_ns,
                max_ns: max_ns.max(min_ns),
                ops,
                min_huge: 0,
                max_huge: 0,
            }
        })
        .boxed()
        .prop_flat_map(|c| {
            // one case in eight: "never" and its neighbours as the cap, sometimes as the start too
            (Just(c), prop_oneof![7 => Just((0u8, 0u8)), 1 => (0u8..=4, 1u8..=4)])
        })
        .prop_map(|(mut c, (a, b))| {
            if b != 0 {
                let (lo, hi) = if a != 0 && huge(a, 0) > huge(b, 0) { (b, a) } else { (a, b) };
                c.min_huge = lo;
                c.max_huge = hi;
            }
            c
        })
        .boxed()
        .prop_flat_map(|c| (Just(c), prop::bool::weighted(0.1)))
        .prop_map(|(mut c, swap)| {
            // the statement quantifies over all (min, max) pairs: one case in ten has the minimum
            // above the maximum, where "min x 2^(k-1) capped at max" is max from the first failure on
            if swap {
                std::mem::swap(&mut c.min_ns, &mut c.max_ns);
                std::mem::swap(&mut c.min_huge, &mut c.max_huge);
            }
            c
        })
        .boxed()
}

pub fn check_retry(case: &RetryCase) -> CaseResult {
    let mut ok = CaseOk::new();
    let min = huge(case.min_huge, case.min_ns);
    let max = huge(case.max_huge, case.max_ns);
    let (min_ns, max_ns) = (min.as_nanos(), max.as_nanos());
    if case.max_huge != 0 {
        ok.label("cap_near_duration_max");
    }
    if min > max {
        ok.label("min_above_max");
    }
    let mut s = rodbus::doubling_retry_strategy(min, max);
    let mut k: u32 = 0; // consecutive failures so far
    let mut capped = false;
    let mut restarted_after_cap = false;
    for (i, op) in case.ops.iter().enumerate() {
        match op {
            RetryOp::Failed => {
                k += 1;
                let mut doubled: u128 = min_ns;
                for _ in 1..k.min(130) {
                    doubled = doubled.saturating_mul(2);
                }
                let expect_ns: u128 = std::cmp::min(doubled, max_ns);
                let got = s.after_failed_connect();
                if got.as_nanos() != expect_ns {
                    return Err(format!(
                        "op {}: failed connect no. {} in a row with min {:?} max {:?}: delay {:?}, expected {} ns",
                        i, k, min, max, got, expect_ns
                    ));
                }
                if expect_ns == max_ns && max_ns > min_ns {
                    capped = true;
                }
            }
            RetryOp::SucceededThenLost => {
                s.reset();
                if capped {
                    restarted_after_cap = true;
                }
                k = 0;
                let got = s.after_disconnect();
                if got != min {
                    return Err(format!(
                        "op {}: delay after a lost connection is {:?}, expected min {:?}",
                        i, got, min
                    ));
                }
            }
            RetryOp::Succeeded => {
                s.reset();
                if capped {
                    restarted_after_cap = true;
                }
                k = 0;
            }
        }
    }
    if capped {
        ok.label("cap_reached");
    }
    if restarted_after_cap {
        ok.label("restart_after_cap");
    }
    ok.nontrivial = capped && restarted_after_cap;
    Ok(ok)
}

// ---------------------------------------------------------------------------------------------
// C16 (a): wildcard strings

#[derive(Clone, Debug, PartialEq, Eq, Hash, Serialize, Deserialize)]
pub struct WildcardCase {
    pub text: String,
}

pub fn arb_wildcard() -> BoxedStrategy<WildcardCase> {
    let good = prop_oneof![
        4 => Just("*".to_string()),
        6 => (0u32..=255).prop_map(|n| n.to_string()),
        1 => prop::sample::select(vec!["0", "1", "127", "128", "254", "255"]).prop_map(|s| s.to_string()),
        1 => (0u32..=255).prop_map(|n| format!("{:03}", n)),
    ];
    let bad = prop_oneof![
        3 => prop::sample::select(vec!["256", "257", "300", "999", "1000", "65536", "4294967296"]).prop_map(|s| s.to_string()),
        2 => (256u32..=400).prop_map(|n| format!("{:03}", n)),
        1 => (0u32..=255).prop_map(|n| format!("000000000000000000000{}", n)),
        2 => (0u32..=255).prop_map(|n| format!("+{}", n)),
        2 => (0u32..=255).prop_map(|n| format!("-{}", n)),
        2 => Just(String::new()),
        1 => (0u32..=255).prop_map(|n| format!(" {}", n)),
        1 => (0u32..=255).prop_map(|n| format!("{} ", n)),
        1 => (0u32..=255).prop_map(|n| format!("0x{:x}", n)),
        1 => (10u32..=255).prop_map(|n| format!("{:x}", n)),
        2 => prop::sample::select(vec!["**", "*1", "1*", "٣", "１２", "²", "1e1", "1.0", "1_0", "a", "+", "-", "+*"]).prop_map(|s| s.to_string()),
        1 => "\\PC{0,3}".prop_map(|s| s),
    ];
    (
        vec(good, 4..=4),
        0u8..10,
        any::<prop::sample::Index>(),
        bad,
        prop::sample::select(vec![",", "..", " .", ":", ". ", ""]),
    )
        .prop_map(|(mut fields, m, idx, badfield, badsep)| {
            let mut seps = vec![".".to_string(); 3];
            match m {
                0 | 1 | 2 | 3 => {}
                4 | 5 => {
                    let i = idx.index(4);
                    fields[i] = badfield;
                }
                6 => {
                    fields.pop();
                    seps.pop();
                }
                7 => {
                    fields.push(badfield.clone());
                    seps.push(".".to_string());
                    if badfield.is_empty() {
                        // trailing dot
                    }
                }
                8 => {
                    let i = idx.index(3);
                    seps[i] = badsep.to_string();
                }
                _ => {
                    fields.insert(0, String::new());
                    seps.insert(0, ".".to_string());
                }
            }
            let mut s = String::new();
            for (i, f) in fields.iter().enumerate() {
                s.push_str(f);
                if i + 1 < fields.len() {
                    s.push_str(&seps[i]);
                }
            }
            WildcardCase { text: s }
        })
        .boxed()
}

/// Reference grammar: exactly four '.'-separated fields, each "*" or a decimal number 0..=255.
/// Returns None when the statement leaves the answer open ("+n").
fn model_wildcard(text: &str) -> Option<Result<[Option<u8>; 4], ()>> {
    let fields: Vec<&str> = text.split('.').collect();
    if fields.len() != 4 {
        return Some(Err(()));
    }
    let mut out = [None; 4];
    let mut open = false;
    for (i, f) in fields.iter().enumerate() {
        if *f == "*" {
            out[i] = None;
            continue;
        }
        let digits = if let Some(rest) = f.strip_prefix('+') {
            // "a number": whether an explicit plus sign is a number is not stated
            if !rest.is_empty() && rest.bytes().all(|b| b.is_ascii_digit()) {
                open = true;
            }
            rest
        } else {
            f
        };
        if digits.is_empty() || !digits.bytes().all(|b| b.is_ascii_digit()) {
            return Some(Err(()));
        }
        let trimmed = digits.trim_start_matches('0');
        if trimmed.len() > 3 {
            return Some(Err(()));
        }
        let v: u32 = if trimmed.is_empty() { 0 } else { trimmed.parse().unwrap() };
        if v > 255 {
            return Some(Err(()));
        }
        out[i] = Some(v as u8);
    }
    if open {
        None
    } else {
        Some(Ok(out))
    }
}

pub fn check_wildcard(case: &WildcardCase) -> CaseResult {
    use std::str::FromStr;
    let mut ok = CaseOk::new();
    let got = rodbus::server::WildcardIPv4::from_str(&case.text);
    match model_wildcard(&case.text) {
        None => {
            ok.label("dontcare:plus_sign");
            ok.dontcare += 1;
        }
        Some(Err(())) => {
            ok.label("model:reject");
            if let Ok(w) = got {
                return Err(format!(
                    "wildcard string {:?} is not four fields of '*' or 0-255 but was accepted as {:?}",
                    case.text, w
                ));
            }
            // non-trivial: exactly four fields, one of them bad; or 3/5 fields all good
            let n = case.text.split('.').count();
            ok.nontrivial = (3..=5).contains(&n);
        }
        Some(Ok(octets)) => {
            ok.label("model:accept");
            match got {
                Err(_) => {
                    return Err(format!("valid wildcard string {:?} was rejected", case.text));
                }
                Ok(w) => {
                    let expect = format!(
                        "WildcardIPv4 {{ b3: {:?}, b2: {:?}, b1: {:?}, b0: {:?} }}",
                        octets[0], octets[1], octets[2], octets[3]
                    );
                    if format!("{:?}", w) != expect {
                        return Err(format!(
                            "wildcard string {:?} parsed as {:?}, expected {}",
                            case.text, w, expect
                        ));
                    }
                }
            }
            ok.nontrivial = true;
        }
    }
    Ok(ok)
}
