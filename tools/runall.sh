#!/bin/sh
# tools/runall.sh [tier] : run every check once, print a summary line per property
TIER=${1:-quick}
cd "$(dirname "$0")/.."
for i in 01 02 03 04 05 06 07 08 09 10 11 12 13 14 15 16 17 18 19 20; do
  s=$(date +%s.%N)
  out=$(./check C$i --tier $TIER 2>&1); code=$?
  e=$(date +%s.%N)
  printf "C%s exit=%s %.1fs %s\n" $i $code $(echo "$e - $s" | bc) "$(echo "$out" | grep -E '^VIOLATION|^INCONCLUSIVE' | head -1)"
done
