//! C15: TCP server sessions are bounded, the oldest is evicted, sessions are isolated, all are
//! closed on shutdown.

use std::collections::BTreeMap;
use std::time::Duration;

use proptest::collection::vec;
use proptest::prelude::*;
use rodbus::server::{AddressFilter, RequestHandler, ServerHandlerMap, TlsServerConfig};
use rodbus::{ExceptionCode, UnitId};
use serde::{Deserialize, Serialize};
use tokio::io::AsyncWriteExt;
use tokio::net::{TcpListener, TcpStream};
use tokio_rustls::rustls::pki_types::ServerName;

use super::c09::{path, peer_client_config, Offer};

use super::*;
use crate::gen::arb_decode_any;
use crate::runner::CaseResult;
use crate::simsrv::Decode;

#[derive(Clone, Debug, PartialEq, Eq, Hash, Serialize, Deserialize)]
pub enum SOp {
    Connect,
    /// client closes connection (index into the list of connections ever made, mod len)
    ClientClose(u8),
    Request(u8),
    /// a malformed MBAP header: the session must end, nobody else is disturbed
    Garbage(u8),
    /// the first bytes of a request; the rest follows with the next probe
    HalfFrame(u8),
    SetDecode(Decode),
    Shutdown,
    DropHandle,
    /// TLS server: a TCP connection whose TLS handshake never completes (nothing sent, or only
    /// the first bytes of a handshake record); it occupies a session like any other connection.
    /// Plain TCP server: an ordinary connection.
    StalledHandshake(u8),
    /// ten decode-level changes in a row: more than a session's command queue holds, so every
    /// session (also one that is still in its TLS handshake) has to keep consuming them
    DecodeBurst(Decode),
    /// plain TCP with small socket buffers: the connection pipelines several hundred requests
    /// and never reads the replies, so that its session blocks in the middle of writing one
    FloodNoRead(u8),
    /// TLS server: a TCP connection that sends plaintext instead of a ClientHello: accepted (the
    /// oldest session goes if the server is full) and then closed. Plain TCP: connect + garbage.
    HandshakeGarbage,
    /// server with an address filter that admits 127.0.0.1 only: a connection from 127.0.0.2.
    /// It is never a session: closed without an answer, and no session makes room for it.
    /// (Server without a filter: skipped.)
    Outsider,
}

#[derive(Clone, Debug, PartialEq, Eq, Hash, Serialize, Deserialize)]
pub struct C15Case {
    pub max_sessions: u8,
    pub decode: Decode,
    pub ops: Vec<SOp>,
    /// the server is a TLS server (create_tls_server_task) and the connections are TLS sessions
    #[serde(default)]
    pub tls: bool,
    /// plain TCP only: server sockets with a 4 KiB send buffer (set on the listening socket the
    /// harness hands over), peers with a 4 KiB receive buffer
    #[serde(default)]
    pub small_buffers: bool,
    /// 0 = AddressFilter::Any; 1 = Exact(127.0.0.1); 2 = AnyOf{127.0.0.1, 10.9.8.7};
    /// 3 = WildcardIpv4 "127.0.0.1"
    #[serde(default)]
    pub filter: u8,
}

pub fn arb_c15() -> BoxedStrategy<C15Case> {
    let op = prop_oneof![
        8 => Just(SOp::Connect),
        2 => any::<u8>().prop_map(SOp::ClientClose),
        4 => any::<u8>().prop_map(SOp::Request),
        3 => any::<u8>().prop_map(SOp::Garbage),
        2 => any::<u8>().prop_map(SOp::HalfFrame),
        1 => arb_decode_any().prop_map(SOp::SetDecode),
        1 => arb_decode_any().prop_map(SOp::DecodeBurst),
        2 => any::<u8>().prop_map(SOp::FloodNoRead),
        2 => (0u8..3).prop_map(SOp::StalledHandshake),
        1 => Just(SOp::HandshakeGarbage),
        3 => Just(SOp::Outsider),
    ];
    (
        prop::bool::weighted(0.4),
        any::<bool>(),
        prop_oneof![3 => Just(0u8), 1 => 1u8..=3],
        0u8..=4,
        arb_decode_any(),
        vec(op, 3..22),
        prop_oneof![2 => Just(None), 1 => Just(Some(SOp::Shutdown)), 1 => Just(Some(SOp::DropHandle))],
        0usize..6,
    )
        .prop_map(|(tls, small, filter, max_sessions, decode, mut ops, end, extra)| {
            if let Some(e) = end {
                ops.push(e);
                // operations after the end: everything must stay closed
                for _ in 0..extra.min(2) {
                    ops.push(SOp::Connect);
                }
            }
            C15Case {
                max_sessions,
                decode,
                ops,
                tls,
                small_buffers: small && !tls,
                filter,
            }
        })
        .boxed()
}

struct Sentinel;
impl RequestHandler for Sentinel {
    fn read_holding_register(&self, address: u16) -> Result<u16, ExceptionCode> {
        if address == 0 {
            Ok(0xBEEF)
        } else {
            Err(ExceptionCode::IllegalDataAddress)
        }
    }
}

#[derive(Clone, Copy, PartialEq, Eq, Debug)]
enum Conn {
    Live,
    /// live, but a partial frame is pending: (bytes already sent)
    LiveHalf(usize),
    Dead,
    /// TLS only: accepted by the server, handshake never completed; cannot be probed
    Stalled,
    /// its session is blocked writing replies nobody reads; cannot be probed
    Blocked,
    /// was Blocked when the server had to close it: the close must be visible WITHOUT the peer
    /// reading anything (a peer that does not read is exactly what eviction is for)
    DeadBlocked,
}

/// wait for hang-up / reset on a socket without reading from it
async fn wait_hup(fd: i32, wait: Duration) -> bool {
    let t0 = std::time::Instant::now();
    while t0.elapsed() < wait {
        let mut p = libc::pollfd {
            fd,
            events: libc::POLLRDHUP | libc::POLLHUP | libc::POLLERR,
            revents: 0,
        };
        let r = unsafe { libc::poll(&mut p, 1, 0) };
        if r > 0 && (p.revents & (libc::POLLRDHUP | libc::POLLHUP | libc::POLLERR)) != 0 {
            if std::env::var("VERIF_DEBUG").is_ok() {
                eprintln!("[c15] hang-up on fd {} after {:?}: revents {:#x}", fd, t0.elapsed(), p.revents);
            }
            return true;
        }
        tokio::time::sleep(Duration::from_millis(5)).await;
    }
    false
}


pub fn check_c15(case: &C15Case) -> CaseResult {
    retry3(|slow| run_once(case, slow))
}

fn run_once(case: &C15Case, slow: u32) -> CaseResult {
    let rt = rt(2);
    let settle = Duration::from_millis(15 * slow as u64);
    let wait = Duration::from_millis(1500 * slow as u64);
    rt.block_on(async move {
        let listener = if case.small_buffers {
            let lsock = tokio::net::TcpSocket::new_v4().map_err(|e| format!("INFRA: socket {}", e))?;
            let _ = lsock.set_send_buffer_size(4096);
            let _ = lsock.set_reuseaddr(true);
            lsock.bind("127.0.0.1:0".parse().unwrap()).map_err(|e| format!("INFRA: bind: {}", e))?;
            lsock.listen(16).map_err(|e| format!("INFRA: listen: {}", e))?
        } else {
            TcpListener::bind("127.0.0.1:0").await.map_err(|e| format!("INFRA: bind: {}", e))?
        };
        let addr = listener.local_addr().unwrap();
        let map = ServerHandlerMap::single(UnitId::new(1), Sentinel.wrap());
        let home: std::net::IpAddr = "127.0.0.1".parse().unwrap();
        let filter = || match case.filter {
            1 => AddressFilter::Exact(home),
            2 => AddressFilter::AnyOf([home, "10.9.8.7".parse().unwrap()].into_iter().collect()),
            3 => AddressFilter::WildcardIpv4("127.0.0.1".parse().unwrap()),
            _ => AddressFilter::Any,
        };
        let (handle, task) = if case.tls {
            let cfg = TlsServerConfig::new(
                &path("ca1", "pem"),
                &path("server_ok", "pem"),
                &path("server_ok", "key"),
                None,
                super::c09::min_tls(12),
                rodbus::client::CertificateMode::AuthorityBased,
            )
            .map_err(|e| format!("INFRA: tls config {}", e))?;
            rodbus::server::create_tls_server_task(
                case.max_sessions as usize,
                listener,
                map,
                cfg,
                filter(),
                case.decode.to_rodbus(),
            )
        } else {
            rodbus::server::create_tcp_server_task(
                case.max_sessions as usize,
                listener,
                map,
                filter(),
                case.decode.to_rodbus(),
            )
        };
        let connector = tokio_rustls::TlsConnector::from(peer_client_config(Offer::Both, Some("client_operator")));
        let join = tokio::spawn(task.run());
        let mut handle = Some(handle);
        let limit = (case.max_sessions as usize).max(1);

        let mut conns: Vec<(Link, Conn)> = Vec::new();
        // raw descriptors of the plain TCP connections (-1 otherwise), for hang-up polling
        let mut fds: Vec<i32> = Vec::new();
        // model: accept order of sessions the server still tracks
        let mut tracked: Vec<usize> = Vec::new();
        let mut server_up = true;
        let mut tx: u16 = 1;
        let mut evictions = 0;
        let mut garbage_with_two_live = false;
        let mut labels: BTreeMap<&'static str, ()> = BTreeMap::new();

        for (opi, op) in case.ops.iter().enumerate() {
            match op {
                SOp::Connect | SOp::StalledHandshake(_) | SOp::HandshakeGarbage => {
                    let r = if case.small_buffers {
                        match tokio::net::TcpSocket::new_v4() {
                            Ok(sock) => {
                                let _ = sock.set_recv_buffer_size(4096);
                                tokio::time::timeout(wait, sock.connect(addr)).await
                            }
                            Err(e) => Ok(Err(e)),
                        }
                    } else {
                        tokio::time::timeout(wait, TcpStream::connect(addr)).await
                    };
                    let mut s = match r {
                        Ok(Ok(s)) => s,
                        Ok(Err(_)) | Err(_) => {
                            if server_up {
                                return Err(format!("op {}: connect to the running server failed", opi));
                            }
                            labels.insert("connect_refused_after_shutdown", ());
                            continue;
                        }
                    };
                    let _ = s.set_nodelay(true);
                    let raw_fd = {
                        use std::os::fd::AsRawFd;
                        s.as_raw_fd()
                    };
                    // what the connection becomes if the server takes it
                    let (link, state): (Option<Link>, Conn) = match (op, case.tls) {
                        (SOp::StalledHandshake(kind), true) => {
                            let prefix: &[u8] = match kind {
                                0 => &[],
                                1 => &[0x16, 0x03, 0x01],
                                _ => &[0x16, 0x03, 0x01, 0x02, 0x00, 0x01, 0x00, 0x01, 0xFC, 0x03, 0x03],
                            };
                            let _ = s.write_all(prefix).await;
                            labels.insert("stalled_handshake", ());
                            (Some(Box::new(s)), Conn::Stalled)
                        }
                        (SOp::HandshakeGarbage, true) => {
                            if tracked.len() >= 2 && server_up {
                                garbage_with_two_live = true;
                            }
                            let _ = s.write_all(&mbap_frame(1, 1, &[3, 0, 0, 0, 1])).await;
                            labels.insert("handshake_garbage", ());
                            (Some(Box::new(s)), Conn::Dead)
                        }
                        (_, true) => {
                            let name = ServerName::try_from("test.com").unwrap();
                            match tokio::time::timeout(wait, connector.connect(name, s)).await {
                                Ok(Ok(t)) => (Some(Box::new(t)), Conn::Live),
                                _ => (None, Conn::Dead),
                            }
                        }
                        (SOp::HandshakeGarbage, false) => {
                            let _ = s.write_all(&[0, 1, 0x12, 0x34, 0, 6, 1, 3, 0, 0, 0, 1]).await;
                            (Some(Box::new(s)), Conn::Dead)
                        }
                        (_, false) => (Some(Box::new(s)), Conn::Live),
                    };
                    if server_up {
                        // accepted: the oldest session goes if the server is full
                        if tracked.len() >= limit {
                            let oldest = tracked.remove(0);
                            if matches!(conns[oldest].1, Conn::LiveHalf(_)) {
                                labels.insert("evicted_mid_frame", ());
                            }
                            if conns[oldest].1 == Conn::Stalled {
                                labels.insert("evicted_mid_handshake", ());
                            }
                            if conns[oldest].1 == Conn::Blocked {
                                labels.insert("evicted_mid_write", ());
                                conns[oldest].1 = Conn::DeadBlocked;
                            } else {
                                conns[oldest].1 = Conn::Dead;
                            }
                            evictions += 1;
                        }
                        match link {
                            Some(l) => {
                                if state != Conn::Dead {
                                    tracked.push(conns.len());
                                }
                                conns.push((l, state));
                                fds.push(if case.tls { -1 } else { raw_fd });
                            }
                            None => {
                                return Err(format!("op {}: TLS handshake with the running server failed", opi));
                            }
                        }
                    } else if let Some(l) = link {
                        // the listener may linger in the kernel for a moment; the connection
                        // must never be served
                        conns.push((l, Conn::Dead));
                        fds.push(if case.tls { -1 } else { raw_fd });
                    } else {
                        labels.insert("connect_refused_after_shutdown", ());
                    }
                }
                SOp::Outsider => {
                    if case.filter == 0 {
                        continue;
                    }
                    let sock = tokio::net::TcpSocket::new_v4().map_err(|e| format!("INFRA: socket {}", e))?;
                    sock.bind("127.0.0.2:0".parse().unwrap()).map_err(|e| format!("INFRA: bind 127.0.0.2: {}", e))?;
                    match tokio::time::timeout(wait, sock.connect(addr)).await {
                        Ok(Ok(mut s)) => {
                            // a request right away: it must never be answered
                            let _ = s.write_all(&mbap_frame(7, 1, &[3, 0, 0, 0, 1])).await;
                            let raw_fd = {
                                use std::os::fd::AsRawFd;
                                s.as_raw_fd()
                            };
                            conns.push((Box::new(s), Conn::Dead));
                            fds.push(if case.tls { -1 } else { raw_fd });
                            if server_up {
                                labels.insert(if tracked.len() >= limit { "outsider_at_the_limit" } else { "outsider_below_the_limit" }, ());
                            }
                        }
                        _ => {
                            if server_up {
                                return Err(format!("op {}: connect from 127.0.0.2 to the running server failed", opi));
                            }
                        }
                    }
                }
                SOp::ClientClose(i) => {
                    if conns.is_empty() {
                        continue;
                    }
                    let i = *i as usize % conns.len();
                    let _ = conns[i].0.shutdown().await;
                    // replace the stream by a closed placeholder: keep index stable
                    if conns[i].1 != Conn::Dead {
                        conns[i].1 = Conn::Dead;
                        tracked.retain(|x| *x != i);
                    }
                    // we closed it ourselves: mark so the probe below does not expect EOF from
                    // the server on a socket we shut down for writing only
                    labels.insert("client_close", ());
                }
                SOp::Request(i) => {
                    if conns.is_empty() {
                        continue;
                    }
                    let i = *i as usize % conns.len();
                    if let Conn::LiveHalf(k) = conns[i].1 {
                        let pending_tx = half_tx(i);
                        let full = mbap_frame(pending_tx, 1, &[3, 0, 0, 0, 1]);
                        let _ = conns[i].0.write_all(&full[k..]).await;
                        match read_reply(&mut conns[i].0, pending_tx, wait).await {
                            Probe::Answered(0xBEEF) => conns[i].1 = Conn::Live,
                            other => {
                                return Err(format!("op {}: completing the pending request on connection {} got {:?}", opi, i, other))
                            }
                        }
                    }
                    if conns[i].1 == Conn::Live {
                        tx = tx.wrapping_add(1);
                        // sometimes a complete request plus the first bytes of the next one in
                        // the same segment: the session is then left in the middle of a frame
                        if opi % 4 == 1 {
                            let mut seg = mbap_frame(tx, 1, &[3, 0, 0, 0, 1]);
                            let next = mbap_frame(half_tx(i), 1, &[3, 0, 0, 0, 1]);
                            let k = 1 + (opi % 9);
                            seg.extend_from_slice(&next[..k]);
                            let _ = conns[i].0.write_all(&seg).await;
                            match read_reply(&mut conns[i].0, tx, wait).await {
                                Probe::Answered(0xBEEF) => conns[i].1 = Conn::LiveHalf(k),
                                other => {
                                    return Err(format!("op {}: request on live connection {} got {:?}", opi, i, other))
                                }
                            }
                            labels.insert("half_frame", ());
                        } else {
                            match probe(&mut conns[i].0, 1, tx, wait).await {
                                Probe::Answered(0xBEEF) => {}
                                other => {
                                    return Err(format!(
                                        "op {}: request on live connection {} got {:?}",
                                        opi, i, other
                                    ))
                                }
                            }
                        }
                    }
                }
                SOp::Garbage(i) => {
                    if conns.is_empty() {
                        continue;
                    }
                    let i = *i as usize % conns.len();
                    if conns[i].1 != Conn::Dead && conns[i].1 != Conn::Stalled && conns[i].1 != Conn::Blocked {
                        if tracked.len() >= 2 {
                            garbage_with_two_live = true;
                        }
                        // protocol id 0x1234: must end this session only. With a request half
                        // received the bytes continue that frame: they spoil its protocol id when
                        // that is still to come, otherwise the pending request is completed first.
                        let bad = [0u8, 1, 0x12, 0x34, 0, 6, 1, 3, 0, 0, 0, 1];
                        match conns[i].1 {
                            Conn::LiveHalf(k) if k <= 2 => {
                                let _ = conns[i].0.write_all(&bad[k..]).await;
                                labels.insert("garbage_mid_frame", ());
                            }
                            Conn::LiveHalf(k) => {
                                let pending_tx = half_tx(i);
                                let full = mbap_frame(pending_tx, 1, &[3, 0, 0, 0, 1]);
                                let _ = conns[i].0.write_all(&full[k..]).await;
                                match read_reply(&mut conns[i].0, pending_tx, wait).await {
                                    Probe::Answered(0xBEEF) => {}
                                    other => {
                                        return Err(format!("op {}: completing the pending request on connection {} got {:?}", opi, i, other))
                                    }
                                }
                                let _ = conns[i].0.write_all(&bad).await;
                            }
                            _ => {
                                let _ = conns[i].0.write_all(&bad).await;
                            }
                        }
                        conns[i].1 = Conn::Dead;
                        tracked.retain(|x| *x != i);
                    }
                }
                SOp::FloodNoRead(i) => {
                    if conns.is_empty() || !case.small_buffers {
                        continue;
                    }
                    let i = *i as usize % conns.len();
                    if conns[i].1 == Conn::Live {
                        // the sentinel handler serves one register: 40000 small requests give
                        // 440 KB of replies against 4 KiB socket buffers on both sides
                        let mut buf = Vec::new();
                        for k in 0..40_000u32 {
                            buf.extend_from_slice(&mbap_frame(k as u16, 1, &[3, 0, 0, 0, 1]));
                        }
                        // the write itself blocks once everything is full: bound it
                        let _ = tokio::time::timeout(Duration::from_millis(300 * slow as u64), conns[i].0.write_all(&buf)).await;
                        conns[i].1 = Conn::Blocked;
                        labels.insert("session_blocked_in_write", ());
                        // wait until nothing moves any more: the session is then blocked for good
                        // (bytes queued for us stop growing for 100 ms)
                        let mut last = -1i32;
                        let mut same = 0;
                        for _ in 0..100 {
                            let mut n: libc::c_int = 0;
                            unsafe { libc::ioctl(fds[i], libc::FIONREAD, &mut n) };
                            if n == last {
                                same += 1;
                                if same >= 5 {
                                    break;
                                }
                            } else {
                                same = 0;
                                last = n;
                            }
                            tokio::time::sleep(Duration::from_millis(20)).await;
                        }
                    }
                }
                SOp::HalfFrame(i) => {
                    if conns.is_empty() {
                        continue;
                    }
                    let i = *i as usize % conns.len();
                    if conns[i].1 == Conn::Live {
                        let req = mbap_frame(half_tx(i), 1, &[3, 0, 0, 0, 1]);
                        let k = 1 + (opi % 10);
                        let _ = conns[i].0.write_all(&req[..k]).await;
                        conns[i].1 = Conn::LiveHalf(k);
                        labels.insert("half_frame", ());
                    }
                }
                SOp::SetDecode(d) | SOp::DecodeBurst(d) => {
                    let n = if matches!(op, SOp::DecodeBurst(_)) { 10 } else { 1 };
                    if n > 1 && conns.iter().any(|c| c.1 == Conn::Stalled) {
                        labels.insert("decode_burst_during_handshake", ());
                    }
                    if let Some(h) = handle.as_mut() {
                        for k in 0..n {
                            let level = if k % 2 == 0 { d.to_rodbus() } else { case.decode.to_rodbus() };
                            match tokio::time::timeout(wait, h.set_decode_level(level)).await {
                                Ok(r) => {
                                    if server_up && r.is_err() {
                                        return Err(format!("op {}: set_decode_level failed on a running server", opi));
                                    }
                                }
                                Err(_) => {
                                    return Err(format!(
                                        "op {}: set_decode_level call {} of {} did not complete: the server task stopped processing commands",
                                        opi,
                                        k + 1,
                                        n
                                    ))
                                }
                            }
                        }
                    }
                }
                SOp::Shutdown => {
                    if let Some(h) = handle.as_ref() {
                        let _ = h.shutdown().await;
                    }
                    server_up = false;
                    for c in conns.iter_mut() {
                        if matches!(c.1, Conn::LiveHalf(_)) {
                            labels.insert("stopped_mid_frame", ());
                        }
                        if c.1 == Conn::Stalled {
                            labels.insert("stopped_mid_handshake", ());
                        }
                        if c.1 == Conn::Blocked {
                            labels.insert("stopped_mid_write", ());
                            c.1 = Conn::DeadBlocked;
                            continue;
                        }
                        c.1 = Conn::Dead;
                    }
                    tracked.clear();
                }
                SOp::DropHandle => {
                    handle = None;
                    server_up = false;
                    for c in conns.iter_mut() {
                        if matches!(c.1, Conn::LiveHalf(_)) {
                            labels.insert("stopped_mid_frame", ());
                        }
                        if c.1 == Conn::Stalled {
                            labels.insert("stopped_mid_handshake", ());
                        }
                        if c.1 == Conn::Blocked {
                            labels.insert("stopped_mid_write", ());
                            c.1 = Conn::DeadBlocked;
                            continue;
                        }
                        c.1 = Conn::Dead;
                    }
                    tracked.clear();
                }
            }
            // let the server observe closes / finish evictions before judging
            tokio::time::sleep(settle).await;

            // probe every connection
            let n = conns.len();
            for i in 0..n {
                let state = conns[i].1;
                match state {
                    Conn::Live => {
                        tx = tx.wrapping_add(1);
                        match probe(&mut conns[i].0, 1, tx, wait).await {
                            Probe::Answered(0xBEEF) => {}
                            other => {
                                return Err(format!(
                                    "after op {} ({:?}): connection {} should be served (limit {}, tracked {:?}) but the sentinel got {:?}",
                                    opi, op, i, limit, tracked, other
                                ))
                            }
                        }
                    }
                    Conn::LiveHalf(k) => {
                        // a half-received request may stay pending across several operations
                        // (evictions, shutdown): complete it only now and then
                        if (opi + i) % 3 != 0 && opi + 1 < case.ops.len() {
                            continue;
                        }
                        // complete the pending frame: it must be answered as if sent in one piece
                        let pending_tx = half_tx(i);
                        let full = mbap_frame(pending_tx, 1, &[3, 0, 0, 0, 1]);
                        let _ = conns[i].0.write_all(&full[k..]).await;
                        match read_reply(&mut conns[i].0, pending_tx, wait).await {
                            Probe::Answered(0xBEEF) => {}
                            other => {
                                return Err(format!(
                                    "after op {}: request on connection {} sent in two pieces ({} + rest) got {:?}",
                                    opi, i, k, other
                                ))
                            }
                        }
                        conns[i].1 = Conn::Live;
                    }
                    Conn::Stalled | Conn::Blocked => {}
                    Conn::DeadBlocked => {
                        if !wait_hup(fds[i], wait).await {
                            return Err(format!(
                                "after op {} ({:?}): connection {} (its session is blocked writing replies the peer does not read) should have been closed by the server (limit {}, tracked {:?}, server up {}) but no hang-up or reset arrived within {:?}",
                                opi, op, i, limit, tracked, server_up, wait
                            ));
                        }
                        conns[i].1 = Conn::Dead;
                    }
                    Conn::Dead => {
                        let mut r = expect_closed(&mut conns[i].0, wait).await;
                        // replies nobody read may still be on their way: drain them
                        if case.small_buffers {
                            let t0 = tokio::time::Instant::now();
                            while matches!(r, Probe::Unexpected(_)) && t0.elapsed() < wait * 3 {
                                r = expect_closed(&mut conns[i].0, wait).await;
                            }
                        }
                        // a TLS server may send an alert record (content type 21) on a connection
                        // that never became a TLS session before it closes it
                        if case.tls {
                            if let Probe::Unexpected(b) = &r {
                                if b.first() == Some(&21) {
                                    r = expect_closed(&mut conns[i].0, wait).await;
                                }
                            }
                        }
                        match r {
                            Probe::Closed => {}
                            other => {
                                return Err(format!(
                                    "after op {} ({:?}): connection {} should have been closed by the server (limit {}, tracked {:?}, server up {}) but {:?}",
                                    opi, op, i, limit, tracked, server_up, other
                                ))
                            }
                        }
                    }
                }
            }
            if tracked.len() > limit {
                return Err("harness: model tracks more than the limit".to_string());
            }
        }
        // end: the task must finish after shutdown / drop
        if !server_up {
            match tokio::time::timeout(wait, join).await {
                Ok(_) => {}
                Err(_) => return Err("server task still running after shutdown / last handle dropped".to_string()),
            }
        } else {
            drop(handle);
            let _ = tokio::time::timeout(wait, join).await;
        }
        let mut ok = CaseOk::new();
        for (l, _) in labels {
            ok.label(l);
        }
        if evictions >= 1 {
            ok.label("eviction");
        }
        if evictions >= 2 {
            ok.label("evictions>=2");
        }
        if garbage_with_two_live {
            ok.label("garbage_with_2_live");
        }
        if !server_up {
            ok.label("ended_by_shutdown_or_drop");
        }
        ok.nontrivial = evictions >= 2 && garbage_with_two_live;
        Ok(ok)
    })
}

// the half frame always uses a transaction id derived from the connection index so that it can
// be completed later without extra state
fn half_tx(i: usize) -> u16 {
    0x4000 + i as u16
}
