//! Framing properties: C05 (MBAP segmentation independence, malformed headers) and C06 (RTU CRC
//! on emission and acceptance, corruption enumeration, chunking).

use proptest::collection::vec;
use proptest::prelude::*;
use serde::{Deserialize, Serialize};

use crate::gen::*;
use crate::model::crc::{crc16, rtu_frame};
use crate::model::framing::*;
use crate::model::pdu::*;
use crate::props::cli::arb_valid_req;
use crate::props::srv::{self, frame_bytes, Frame, SrvCase};
use crate::runner::{CaseOk, CaseResult};
use crate::simcli::*;
use crate::simsrv::*;

// ---------------------------------------------------------------------------------------------
// C05 server role

#[derive(Clone, Debug, PartialEq, Eq, Hash, Serialize, Deserialize)]
pub struct BadHdr {
    pub tx: u16,
    pub proto: u16,
    pub len: u16,
    pub unit: u8,
}

#[derive(Clone, Debug, PartialEq, Eq, Hash, Serialize, Deserialize)]
pub struct C05Srv {
    pub base: SrvCase,
    /// a header that must end the session, followed by frames that must never be interpreted
    pub bad: Option<(BadHdr, Vec<Frame>)>,
    pub partitions: Vec<Partition>,
}

fn arb_bad_hdr() -> BoxedStrategy<BadHdr> {
    (
        any::<u16>(),
        any::<u8>(),
        prop_oneof![
            // protocol id != 0 with a plausible length
            3 => (prop_oneof![Just(1u16), Just(0x0100), Just(0xFFFF), 1u16..=0xFFFF], 1u16..=254).prop_map(|(p, l)| (p, l)),
            // length zero
            2 => Just((0u16, 0u16)),
            // length above 254
            3 => (Just(0u16), prop_oneof![Just(255u16), Just(256), Just(260), Just(300), Just(0xFFFF), 255u16..=0xFFFF]).prop_map(|(p, l)| (p, l)),
        ],
    )
        .prop_map(|(tx, unit, (proto, len))| BadHdr {
            tx,
            proto,
            len,
            unit,
        })
        .boxed()
}

pub fn arb_c05_srv() -> BoxedStrategy<C05Srv> {
    (arb_units(3), arb_decode(), any::<u64>())
        .prop_flat_map(|(units, decode, select_seed)| {
            let ids: Vec<u8> = units.iter().map(|u| u.0).collect();
            let hint = WinHint::of(units.first().map(|u| &u.1));
            (
                srv::arb_frames_pub(Fr::Mbap, ids.clone(), hint, 8, 24),
                proptest::option::weighted(
                    0.4,
                    (arb_bad_hdr(), srv::arb_frames_pub(Fr::Mbap, ids, hint, 8, 3)),
                ),
            )
                .prop_flat_map(move |(mut frames, bad)| {
                    // distinct transaction ids so that a lost or re-read frame is visible
                    for (i, f) in frames.iter_mut().enumerate() {
                        f.tx = i as u16;
                    }
                    let mut boundaries = vec![0usize];
                    let mut total = 0usize;
                    for f in &frames {
                        total += 7 + f.pdu.len();
                        boundaries.push(total);
                    }
                    if let Some((_, extra)) = &bad {
                        total += 7;
                        boundaries.push(total);
                        for f in extra {
                            total += 7 + f.pdu.len();
                        }
                    }
                    let units = units.clone();
                    vec(arb_partition(total, boundaries), 6..=8).prop_map(move |partitions| C05Srv {
                        base: SrvCase {
                            cfg: SrvConfig {
                                framing: Fr::Mbap,
                                units: units.clone(),
                                auth: None,
                                decode,
                                aliases: vec![],
                            },
                            frames: frames.clone(),
                            select_seed,
                        },
                        bad: bad.clone(),
                        partitions,
                    })
                })
        })
        .boxed()
}

fn cuts_inside(parts: &[Vec<u8>], boundaries: &[usize]) -> (bool, bool, bool) {
    // (cut inside a header, cut inside a body, a read ending exactly at a multiple of 260)
    let mut pos = 0usize;
    let (mut hdr, mut body, mut cap) = (false, false, false);
    for p in parts {
        pos += p.len();
        // find the frame containing pos
        for w in boundaries.windows(2) {
            if pos > w[0] && pos < w[1] {
                if pos - w[0] < 7 {
                    hdr = true;
                } else {
                    body = true;
                }
            }
        }
        if p.len() >= 260 || pos % 260 == 0 {
            cap = true;
        }
    }
    (hdr, body, cap)
}

pub fn check_c05_srv(case: &C05Srv) -> CaseResult {
    // reference: the good prefix, one frame per read with pauses, judged by the C01/C02 oracles
    let (j, reference) = srv::judge_with_run(&case.base);
    if let Some(m) = j.replies.or(j.calls).or(j.multidrop) {
        return Err(format!("reference (paced) run already disagrees with the model: {}", m));
    }
    let mut ok = j.ok;
    ok.labels.retain(|l| l.starts_with("class:") || l.starts_with("framing"));
    let mut stream = Vec::new();
    let mut boundaries = vec![0usize];
    for f in &case.base.frames {
        stream.extend_from_slice(&frame_bytes(Fr::Mbap, f));
        boundaries.push(stream.len());
    }
    if let Some((h, extra)) = &case.bad {
        stream.extend_from_slice(&mbap_header_raw(h.tx, h.proto, h.len, h.unit));
        boundaries.push(stream.len());
        for f in extra {
            stream.extend_from_slice(&frame_bytes(Fr::Mbap, f));
        }
        ok.label("bad_header");
    }
    // the reference deframer must see the same frames (sanity of the generator)
    let (frames, end) = deframe_mbap(&stream);
    if frames.len() != case.base.frames.len() {
        return Err(format!(
            "harness: reference deframer finds {} frames, generator built {}",
            frames.len(),
            case.base.frames.len()
        ));
    }
    let expect_bad = matches!(end, MbapEnd::BadHeader(..));
    if expect_bad != case.bad.is_some() {
        return Err("harness: bad header not recognised by the reference deframer".to_string());
    }
    let ref_writes = reference.written_bytes();
    let mut nontrivial = false;
    for p in &case.partitions {
        let parts = p.apply(&stream);
        let mut steps: Vec<Step> = parts.iter().map(|b| Step::Bytes(b.clone())).collect();
        steps.push(Step::Eof);
        let run = run_server(
            &case.base.cfg,
            &steps,
            &SrvOptions {
                select_seed: case.base.select_seed,
                ..Default::default()
            },
        );
        let got = run.written_bytes();
        if got != ref_writes {
            let (fa, _) = deframe_mbap(&got);
            let (fb, _) = deframe_mbap(&ref_writes);
            return Err(format!(
                "partition {:?}: reply stream differs from the one-frame-per-read run ({} vs {} reply frames, {} vs {} bytes)",
                short_partition(p),
                fa.len(),
                fb.len(),
                got.len(),
                ref_writes.len()
            ));
        }
        if run.calls != reference.calls {
            return Err(format!(
                "partition {:?}: handler calls differ from the one-frame-per-read run ({} vs {})",
                short_partition(p),
                run.calls.len(),
                reference.calls.len()
            ));
        }
        if run.final_units != reference.final_units {
            return Err(format!("partition {:?}: final application state differs", short_partition(p)));
        }
        match (&run.end, expect_bad) {
            (SrvEnd::Ended(e), true) if e.starts_with("BadFrame(") => {}
            (SrvEnd::Ended(e), false) if e.starts_with("Io(") => {}
            (other, _) => {
                return Err(format!(
                    "partition {:?}: session end {:?}, expected {}",
                    short_partition(p),
                    other,
                    if expect_bad { "a framing error at the malformed header" } else { "an I/O error at end of stream" }
                ))
            }
        }
        let (h, b, c) = cuts_inside(&parts, &boundaries);
        if h {
            ok.label("cut:inside_header");
        }
        if b {
            ok.label("cut:inside_body");
        }
        if c {
            ok.label("read:at_buffer_capacity");
        }
        if h && b && case.base.frames.len() >= 3 && stream.len() > 260 {
            nontrivial = true;
        }
    }
    // the same chunkings with a server command (decode level set to the level it already has)
    // processed between the reads: cancelling a half-finished read must not disturb framing
    if let Some(p) = case.partitions.iter().find(|p| !matches!(p, Partition::Whole)) {
        let parts = p.apply(&stream);
        let mut steps: Vec<Step> = Vec::new();
        for (i, b) in parts.iter().enumerate() {
            steps.push(Step::Bytes(b.clone()));
            steps.push(Step::Pause);
            if i % 2 == 0 {
                steps.push(Step::SetDecode(case.base.cfg.decode));
                steps.push(Step::Pause);
            }
        }
        steps.push(Step::Eof);
        let run = run_server(
            &case.base.cfg,
            &steps,
            &SrvOptions {
                select_seed: case.base.select_seed,
                // ... and with the reply direction blocked for a while in the middle of a reply
                write_stall: Some(((case.base.select_seed as usize) % (ref_writes.len() + 1), 1 + case.base.select_seed % 7)),
                ..Default::default()
            },
        );
        if run.written_bytes() != ref_writes || run.calls != reference.calls {
            return Err(format!(
                "partition {} with a decode-level command between the reads (reply direction stalled once): reply stream / handler calls differ from the one-frame-per-read run ({} vs {} bytes written)",
                short_partition(p),
                run.written_bytes().len(),
                ref_writes.len()
            ));
        }
        ok.label("commands_between_reads");
    }
    if stream.len() > 260 {
        ok.label("stream:over_260");
    }
    if stream.len() > 1024 {
        ok.label("stream:over_1k");
    }
    ok.nontrivial = nontrivial;
    Ok(ok)
}

fn short_partition(p: &Partition) -> String {
    match p {
        Partition::Cuts(c) if c.len() > 12 => format!("Cuts({:?}.. {} cuts)", &c[..12], c.len()),
        other => format!("{:?}", other),
    }
}

// ---------------------------------------------------------------------------------------------
// C05 / C06 client role: queued requests, reply stream with stale frames, arbitrary chunking

#[derive(Clone, Debug, PartialEq, Eq, Hash, Serialize, Deserialize)]
pub struct ChunkCli {
    pub framing: Fr,
    pub decode: Decode,
    /// (unit, request, stale frames sent first: (tx offset, pdu), how the genuine slot is filled)
    pub requests: Vec<(u8, ReqSpec, Vec<(u16, Vec<u8>)>, Slot)>,
    pub partitions: Vec<Partition>,
    pub select_seed: u64,
}

#[derive(Clone, Debug, PartialEq, Eq, Hash, Serialize, Deserialize)]
pub enum Slot {
    Genuine(u64),
    Exception(u8),
    /// MBAP only: a header that must end the session
    BadHeader(BadHdr),
    /// RTU only: the genuine reply with these (byte, bit) flips
    Corrupt(u64, Vec<(u16, u8)>),
}

pub fn arb_chunk_cli(fr: Fr) -> BoxedStrategy<ChunkCli> {
    let slot = match fr {
        Fr::Mbap => prop_oneof![
            6 => any::<u64>().prop_map(Slot::Genuine),
            2 => any::<u8>().prop_map(Slot::Exception),
            1 => arb_bad_hdr().prop_map(Slot::BadHeader),
        ]
        .boxed(),
        Fr::Rtu => prop_oneof![
            6 => any::<u64>().prop_map(Slot::Genuine),
            2 => any::<u8>().prop_map(Slot::Exception),
            1 => (any::<u64>(), vec((any::<u16>(), 0u8..8), 1..3)).prop_map(|(s, f)| Slot::Corrupt(s, f)),
        ]
        .boxed(),
    };
    let stale = match fr {
        // stale frames: wrong transaction id, any small PDU
        Fr::Mbap => vec((prop::sample::select(vec![65535u16, 1, 2, 256, 32768]), vec(any::<u8>(), 0..10)), 0..3).boxed(),
        // RTU has no transaction id: nothing can precede the reply
        Fr::Rtu => Just(Vec::new()).boxed(),
    };
    (
        arb_decode(),
        vec((any::<u8>(), arb_valid_req(), stale, slot), 1..=6),
        any::<u64>(),
    )
        .prop_flat_map(move |(decode, requests, select_seed)| {
            vec(arb_partition(600, vec![0, 9, 40, 200, 260, 270]), 4..=6).prop_map(move |partitions| ChunkCli {
                framing: fr,
                decode,
                requests: requests.clone(),
                partitions,
                select_seed,
            })
        })
        .boxed()
}

/// bytes the peer sends for request k (tx = k) and whether they end the session
fn reply_stream(fr: Fr, k: usize, unit: u8, req: &ValidReq, stale: &[(u16, Vec<u8>)], slot: &Slot) -> (Vec<u8>, Vec<usize>) {
    let tx = (k % 65536) as u16;
    let mut out = Vec::new();
    let mut boundaries = vec![0usize];
    for (off, pdu) in stale {
        let off = if *off == 0 { 1 } else { *off };
        out.extend_from_slice(&frame_reply(fr, tx.wrapping_add(off), unit, pdu));
        boundaries.push(out.len());
    }
    match slot {
        Slot::Genuine(seed) => {
            let (b, r) = genuine_values(*seed);
            out.extend_from_slice(&frame_reply(fr, tx, unit, &genuine_reply(req, &b, &r)));
        }
        Slot::Exception(code) => {
            out.extend_from_slice(&frame_reply(fr, tx, unit, &exception_pdu(req.kind().fc(), *code)));
        }
        Slot::BadHeader(h) => {
            out.extend_from_slice(&mbap_header_raw(h.tx, h.proto, h.len, h.unit));
        }
        Slot::Corrupt(seed, flips) => {
            let (b, r) = genuine_values(*seed);
            let mut f = frame_reply(fr, tx, unit, &genuine_reply(req, &b, &r));
            for (byte, bit) in flips {
                let i = *byte as usize % f.len();
                f[i] ^= 1 << bit;
            }
            out.extend_from_slice(&f);
        }
    }
    boundaries.push(out.len());
    (out, boundaries)
}

fn run_chunk_cli(case: &ChunkCli, partition: Option<&Partition>) -> CliRun {
    let mut plans = Vec::new();
    for (k, (unit, req, stale, slot)) in case.requests.iter().enumerate() {
        let valid = req.to_valid().expect("valid");
        let (bytes, _) = reply_stream(case.framing, k, *unit, &valid, stale, slot);
        let chunks = match partition {
            Some(p) => p.apply(&bytes),
            None => vec![bytes],
        };
        plans.push(
            chunks
                .into_iter()
                .map(|c| PeerAct::Raw {
                    delay_ms: 1,
                    bytes: c,
                })
                .collect::<Vec<_>>(),
        );
    }
    let mut ops = Vec::new();
    for (i, (unit, req, _, _)) in case.requests.iter().enumerate() {
        ops.push(COp::Submit {
            id: i,
            style: Style::Future,
            handle: 0,
            unit: *unit,
            timeout_ms: 1000,
            req: req.clone(),
        });
    }
    ops.push(COp::Advance(20_000));
    run_client(&CliCase {
        cfg: CliConfig {
            framing: case.framing,
            decode: case.decode,
            max_timeouts: None,
            queue: 16,
            retry_ms: 100_000_000,
        },
        conns: vec![ConnPlan {
            peer: PeerPlan {
                per_request: plans,
                default: vec![],
            },
            fail_write_at: None,
            write_stall: None,
            unsolicited: vec![],
        }],
        ops,
        select_seed: case.select_seed,
        pre_enable: true,
    })
}

/// What the reference says each request gets, from the unsplit stream
fn expected_results(case: &ChunkCli) -> Vec<Vec<&'static str>> {
    // returns allowed result classes per request; values are compared separately
    let mut out = Vec::new();
    let mut dead = false;
    for (_unit, _req, _stale, slot) in case.requests.iter() {
        if dead {
            out.push(vec!["no_connection"]);
            continue;
        }
        match slot {
            Slot::Genuine(_) => out.push(vec!["ok"]),
            Slot::Exception(_) => out.push(vec!["exception"]),
            Slot::BadHeader(_) => {
                out.push(vec!["bad_frame"]);
                dead = true;
            }
            Slot::Corrupt(..) => {
                // judged by the reference deframer in the caller
                out.push(vec!["?"]);
                dead = true;
            }
        }
    }
    out
}

pub fn check_chunk_cli(case: &ChunkCli) -> CaseResult {
    let mut ok = CaseOk::new();
    let reference = run_chunk_cli(case, None);
    let summarize = |r: &CliRun| -> Vec<(usize, std::time::Duration, Res)> {
        let mut v: Vec<_> = r
            .ledger
            .completions
            .iter()
            .map(|c| (c.id, c.at, c.res.clone()))
            .collect();
        v.sort_by_key(|x| x.0);
        v
    };
    let ref_sum = summarize(&reference);
    if ref_sum.len() != case.requests.len() {
        return Err(format!(
            "{} completions for {} requests",
            ref_sum.len(),
            case.requests.len()
        ));
    }
    // reference run vs. the model on the unsplit stream
    let expected = expected_results(case);
    let mut session_dead_at: Option<usize> = None;
    for (i, (unit, req, stale, slot)) in case.requests.iter().enumerate() {
        let valid = req.to_valid().unwrap();
        let res = &ref_sum[i].2;
        let allowed = &expected[i];
        if allowed[0] == "?" {
            // RTU corruption: ask the reference deframer
            let (bytes, _) = reply_stream(case.framing, i, *unit, &valid, stale, slot);
            let (frames, end) = deframe_rtu(Direction::Response, &bytes);
            ok.label("rtu:corrupted_reply");
            match frames.first() {
                Some(f) if end == RtuEnd::Clean => {
                    // the corruption produced another valid frame (cannot happen for <=2 bit flips
                    // that keep the length): judge by its content
                    let class = classify_reply(&valid, &f.pdu);
                    if matches!(class, ReplyClass::OtherError) && res.is_ok() {
                        return Err(format!("request {}: corrupted reply accepted: {:?}", i, res));
                    }
                    ok.label("rtu:corruption_undetectable");
                }
                _ => {
                    if matches!(res, Res::Ok(_) | Res::Exception(_)) {
                        return Err(format!(
                            "request {}: reply frame whose CRC does not verify was accepted: {:?}",
                            i, res
                        ));
                    }
                }
            }
            session_dead_at = Some(i);
            continue;
        }
        if let Some(d) = session_dead_at {
            if i > d {
                // after a framing error or timeout on RTU the rest is not judged here
                continue;
            }
        }
        if !allowed.contains(&res.class()) {
            return Err(format!(
                "request {} ({:?}): expected {:?}, got {:?}",
                i, slot, allowed, res
            ));
        }
        match (slot, res) {
            (Slot::Genuine(seed), Res::Ok(v)) => {
                let (b, r) = genuine_values(*seed);
                let pdu = genuine_reply(&valid, &b, &r);
                match classify_reply(&valid, &pdu) {
                    ReplyClass::Ok(exp) if exp == *v => {}
                    other => return Err(format!("request {}: values differ from the reply's: {:?}", i, other)),
                }
            }
            (Slot::Exception(c), Res::Exception(g)) if c != g => {
                return Err(format!("request {}: exception {} reported as {}", i, c, g));
            }
            (Slot::BadHeader(_), _) => {
                ok.label("bad_header");
            }
            _ => {}
        }
    }
    // metamorphic: every partition gives the same results at the same instants, and the same
    // requests on the wire
    let ref_writes: Vec<Vec<u8>> = reference
        .peers
        .first()
        .map(|p| p.writes.iter().map(|w| w.1.clone()).collect())
        .unwrap_or_default();
    let mut saw_hdr_cut = false;
    for p in &case.partitions {
        let run = run_chunk_cli(case, Some(p));
        let sum = summarize(&run);
        if sum != ref_sum {
            let diff = sum
                .iter()
                .zip(ref_sum.iter())
                .find(|(a, b)| a != b)
                .map(|(a, b)| format!("request {}: {:?} at {:?} vs {:?} at {:?}", a.0, a.2, a.1, b.2, b.1))
                .unwrap_or_default();
            return Err(format!(
                "partition {}: results differ from the unsplit delivery: {}",
                short_partition(p),
                diff
            ));
        }
        let writes: Vec<Vec<u8>> = run
            .peers
            .first()
            .map(|p| p.writes.iter().map(|w| w.1.clone()).collect())
            .unwrap_or_default();
        if writes != ref_writes {
            return Err(format!("partition {}: transmitted requests differ", short_partition(p)));
        }
        if !matches!(p, Partition::Whole) {
            saw_hdr_cut = true;
        }
    }
    // MBAP: a frame nobody asked for is half received while the channel is idle, then a request is
    // submitted (the idle read is abandoned for it); the rest of that frame and the reply follow.
    // The frame boundary must survive: the request gets its genuine reply.
    if case.framing == Fr::Mbap {
        let (unit, req, _, _) = &case.requests[0];
        let valid = req.to_valid().unwrap();
        let idle_pdu: Vec<u8> = (0..(case.select_seed % 12) as u8).collect();
        let idle = frame_reply(Fr::Mbap, 0x7777, *unit, &idle_pdu);
        let cut = 1 + (case.select_seed as usize / 16) % (idle.len() - 1);
        let (b, r) = genuine_values(case.select_seed);
        let genuine = genuine_reply(&valid, &b, &r);
        let mut rest = idle[cut..].to_vec();
        rest.extend_from_slice(&frame_reply(Fr::Mbap, 0, *unit, &genuine));
        let run = run_client(&CliCase {
            cfg: CliConfig {
                framing: Fr::Mbap,
                decode: case.decode,
                max_timeouts: None,
                queue: 16,
                retry_ms: 100_000_000,
            },
            conns: vec![ConnPlan {
                peer: PeerPlan {
                    per_request: vec![vec![PeerAct::Raw {
                        delay_ms: 1,
                        bytes: rest,
                    }]],
                    default: vec![],
                },
                fail_write_at: None,
                write_stall: None,
                unsolicited: vec![(5, idle[..cut].to_vec())],
            }],
            ops: vec![
                COp::Advance(10),
                COp::Submit {
                    id: 0,
                    style: Style::Future,
                    handle: 0,
                    unit: *unit,
                    timeout_ms: 1000,
                    req: req.clone(),
                },
                COp::Advance(5_000),
            ],
            select_seed: case.select_seed,
            pre_enable: true,
        });
        let got = run.ledger.completions.first().map(|c| c.res.clone());
        let want = match classify_reply(&valid, &genuine) {
            ReplyClass::Ok(v) => v,
            other => return Err(format!("harness: genuine reply classified as {:?}", other)),
        };
        match got {
            Some(Res::Ok(v)) if v == want => {}
            other => {
                return Err(format!(
                    "a {}-byte frame with a foreign transaction id arrives {} bytes while idle and the rest after the request was sent, followed by the genuine reply: request completed with {:?}",
                    idle.len(),
                    cut,
                    other
                ))
            }
        }
        ok.label("idle_half_frame_then_request");
    }
    ok.label(match case.framing {
        Fr::Mbap => "framing:mbap",
        Fr::Rtu => "framing:rtu",
    });
    let has_stale = case.requests.iter().any(|r| !r.2.is_empty());
    if has_stale {
        ok.label("stale_frames");
    }
    ok.nontrivial = saw_hdr_cut && case.requests.len() >= 2 && (has_stale || case.framing == Fr::Rtu);
    Ok(ok)
}

// ---------------------------------------------------------------------------------------------
// C06: RTU emission

/// Every frame an RTU server session writes is one valid response frame of at most 256 bytes
pub fn check_c06_emit_srv(case: &SrvCase) -> CaseResult {
    let (j, run) = srv::judge_with_run(case);
    let mut ok = CaseOk::new();
    for (_, w) in &run.writes {
        if w.len() > 256 {
            return Err(format!("RTU frame of {} bytes emitted", w.len()));
        }
        if w.len() < 4 {
            return Err(format!("RTU frame of {} bytes emitted", w.len()));
        }
        let n = w.len();
        let crc = crc16(&w[..n - 2]);
        if w[n - 2] != (crc & 0xFF) as u8 || w[n - 1] != (crc >> 8) as u8 {
            return Err(format!(
                "emitted frame does not end with CRC-16/MODBUS low byte first: got {:02X} {:02X}, expected {:02X} {:02X}",
                w[n - 2],
                w[n - 1],
                crc & 0xFF,
                crc >> 8
            ));
        }
        let (frames, end) = deframe_rtu(Direction::Response, w);
        if frames.len() != 1 || end != RtuEnd::Clean {
            return Err(format!("emitted bytes are not exactly one RTU response frame: {:?}", end));
        }
        ok.nontrivial = true;
        if w.len() > 200 {
            ok.label("emit:long_frame");
        }
    }
    let _ = j;
    ok.label("emit:server");
    Ok(ok)
}

// ---------------------------------------------------------------------------------------------
// C06: acceptance under corruption (server role)

#[derive(Clone, Debug, PartialEq, Eq, Hash, Serialize, Deserialize)]
pub enum Corruption {
    /// flip these bit positions (bit index over the whole frame)
    Bits(Vec<u32>),
    /// xor a burst pattern starting at a bit position; pattern has first and last bit set
    Burst { start: u32, pattern: u16, len: u8 },
    SwapCrcBytes,
    /// add a value to one CRC byte
    CrcByte { which: bool, delta: u8 },
}

fn apply_corruption(frame: &[u8], c: &Corruption) -> Vec<u8> {
    let mut f = frame.to_vec();
    let nbits = (f.len() * 8) as u32;
    match c {
        Corruption::Bits(bits) => {
            for b in bits {
                let b = b % nbits;
                f[(b / 8) as usize] ^= 1 << (b % 8);
            }
        }
        Corruption::Burst { start, pattern, len } => {
            let len = (*len).clamp(2, 16) as u32;
            let mut pat = *pattern as u32 & ((1u32 << len) - 1);
            pat |= 1;
            pat |= 1 << (len - 1);
            let start = start % nbits.saturating_sub(len).max(1);
            for i in 0..len {
                if pat & (1 << i) != 0 {
                    let b = start + i;
                    // bursts are contiguous in transmission order: byte by byte, LSB first
                    f[(b / 8) as usize] ^= 1 << (b % 8);
                }
            }
        }
        Corruption::SwapCrcBytes => {
            let n = f.len();
            f.swap(n - 1, n - 2);
        }
        Corruption::CrcByte { which, delta } => {
            let n = f.len();
            let i = if *which { n - 1 } else { n - 2 };
            f[i] = f[i].wrapping_add((*delta).max(1));
        }
    }
    f
}

#[derive(Clone, Debug, PartialEq, Eq, Hash, Serialize, Deserialize)]
pub struct C06Srv {
    pub cfg: SrvConfig,
    pub frame: Frame,
    pub sampled: Vec<Corruption>,
    pub select_seed: u64,
}

fn arb_corruption() -> BoxedStrategy<Corruption> {
    prop_oneof![
        4 => vec(any::<u32>(), 2..=2).prop_map(Corruption::Bits),
        4 => (any::<u32>(), any::<u16>(), 2u8..=16).prop_map(|(start, pattern, len)| Corruption::Burst { start, pattern, len }),
        1 => Just(Corruption::SwapCrcBytes),
        1 => (any::<bool>(), 1u8..=255).prop_map(|(which, delta)| Corruption::CrcByte { which, delta }),
        1 => vec(any::<u32>(), 3..=4).prop_map(Corruption::Bits),
    ]
    .boxed()
}

pub fn arb_c06_srv() -> BoxedStrategy<C06Srv> {
    // unit ids: any, with the ends of the range (1, 247, 255) over-represented: address bytes whose
    // corruption lands on a special address (0 = broadcast) are where an address-dependent
    // mistake in the CRC input would show
    (arb_unit_state(), prop_oneof![5 => arb_unit_id(), 1 => Just(255u8), 1 => Just(1u8), 1 => Just(247u8)], arb_decode(), any::<u64>())
        .prop_flat_map(|(st, unit, decode, select_seed)| {
            let unit = if unit == 0 { 1 } else { unit };
            let hint = WinHint::of(Some(&st));
            (arb_pdu_rtu(hint), vec(arb_corruption(), 8..24), prop_oneof![4 => Just(unit), 1 => Just(0u8)]).prop_map(
                move |(pdu, sampled, addr)| C06Srv {
                    cfg: SrvConfig {
                        framing: Fr::Rtu,
                        units: vec![(unit, st.clone())],
                        auth: None,
                        decode,
                        aliases: vec![],
                    },
                    frame: Frame {
                        tx: 0,
                        unit: addr,
                        pdu,
                    },
                    sampled,
                    select_seed,
                },
            )
        })
        .boxed()
}

fn deliver_alone(cfg: &SrvConfig, bytes: &[u8], seed: u64) -> SrvRun {
    run_server(
        cfg,
        &[Step::Bytes(bytes.to_vec()), Step::Pause, Step::Eof],
        &SrvOptions {
            select_seed: seed,
            probe_shutdown: false,
            ..Default::default()
        },
    )
}

pub fn check_c06_srv(case: &C06Srv) -> CaseResult {
    let mut ok = CaseOk::new();
    let good = rtu_frame(case.frame.unit, &case.frame.pdu);
    // the uncorrupted frame must be one frame for the reference (generator contract)
    let (frames, end) = deframe_rtu(Direction::Request, &good);
    if frames.len() != 1 || end != RtuEnd::Clean {
        return Err("harness: generated request is not one RTU frame".to_string());
    }
    let baseline = deliver_alone(&case.cfg, &good, case.select_seed);
    let acts = !baseline.writes.is_empty() || !baseline.calls.is_empty();
    if acts {
        ok.label("baseline:acts");
    }
    let nbits = (good.len() * 8) as u32;
    let mut judged = 0u32;
    let mut keep_len = 0u32;
    let mut judge = |bad: &[u8], what: &str| -> Result<(), String> {
        let (frames, _end) = deframe_rtu(Direction::Request, bad);
        let run = deliver_alone(&case.cfg, bad, case.select_seed);
        judged += 1;
        if frames.is_empty() {
            // no frame with a verifying CRC: nothing may happen
            if !run.writes.is_empty() || !run.calls.is_empty() {
                return Err(format!(
                    "{}: corrupted frame [{}] was acted on: {} bytes written, calls {:?}",
                    what,
                    hex(bad),
                    run.written_bytes().len(),
                    &run.calls[..run.calls.len().min(3)]
                ));
            }
        } else {
            // the corruption produced a frame whose CRC verifies (only possible when the derived
            // length changed): the reference deframer accepts it, so acting on it is allowed
        }
        Ok(())
    };
    // every single-bit error
    for b in 0..nbits {
        let bad = apply_corruption(&good, &Corruption::Bits(vec![b]));
        // length-determining bytes intact?
        let len_intact = bad[1] == good[1] && (good.len() <= 8 || bad[6] == good[6]);
        if len_intact {
            keep_len += 1;
            // the CRC guarantee: the reference itself must reject
            let (frames, _) = deframe_rtu(Direction::Request, &bad);
            if !frames.is_empty() {
                return Err("harness: reference deframer accepted a single-bit error".to_string());
            }
        }
        judge(&bad, &format!("single-bit flip at bit {}", b))?;
    }
    // all 2-bit errors on short frames
    if good.len() <= 16 {
        ok.label("pairs:exhaustive");
        for a in 0..nbits {
            for b in a + 1..nbits {
                let bad = apply_corruption(&good, &Corruption::Bits(vec![a, b]));
                judge(&bad, &format!("double-bit flip at bits {} and {}", a, b))?;
            }
        }
    }
    for c in &case.sampled {
        let bad = apply_corruption(&good, c);
        if bad == good {
            continue;
        }
        judge(&bad, &format!("{:?}", c))?;
    }
    // bursts confined to the address byte: every other address this frame could be mistaken for,
    // the broadcast address 0 and the inverted address among them
    if case.frame.unit != 0 {
        for other in [0u8, !case.frame.unit, case.frame.unit ^ 0x81, case.frame.unit.wrapping_add(1)] {
            if other == case.frame.unit {
                continue;
            }
            let mut bad = good.clone();
            bad[0] = other;
            judge(&bad, &format!("address byte {:#04X} received as {:#04X}", case.frame.unit, other))?;
            if other == 0 {
                ok.label("address_corrupted_to_broadcast");
            }
        }
    }
    ok.nontrivial = acts && keep_len > 0;
    if case.frame.unit == 0 {
        ok.label("broadcast");
    }
    let _ = judged;
    Ok(ok)
}

fn hex(b: &[u8]) -> String {
    let mut s = String::new();
    for (i, x) in b.iter().enumerate() {
        if i > 0 {
            s.push(' ');
        }
        s.push_str(&format!("{:02X}", x));
        if i > 24 {
            s.push_str(" ..");
            break;
        }
    }
    s
}

// ---------------------------------------------------------------------------------------------
// C06: acceptance under corruption (client role)

#[derive(Clone, Debug, PartialEq, Eq, Hash, Serialize, Deserialize)]
pub struct C06Cli {
    pub decode: Decode,
    pub unit: u8,
    pub req: ReqSpec,
    pub seed: u64,
    pub exception: Option<u8>,
    pub sampled: Vec<Corruption>,
    pub select_seed: u64,
}

pub fn arb_c06_cli() -> BoxedStrategy<C06Cli> {
    (
        arb_decode(),
        any::<u8>(),
        arb_valid_req(),
        any::<u64>(),
        proptest::option::weighted(0.2, any::<u8>()),
        vec(arb_corruption(), 8..24),
        any::<u64>(),
    )
        .prop_map(|(decode, unit, req, seed, exception, sampled, select_seed)| C06Cli {
            decode,
            unit,
            req,
            seed,
            exception,
            sampled,
            select_seed,
        })
        .boxed()
}

fn client_one(case: &C06Cli, wire: Vec<u8>) -> CliRun {
    run_client(&CliCase {
        cfg: CliConfig {
            framing: Fr::Rtu,
            decode: case.decode,
            max_timeouts: None,
            queue: 4,
            retry_ms: 100_000_000,
        },
        conns: vec![ConnPlan {
            peer: PeerPlan {
                per_request: vec![vec![PeerAct::Raw {
                    delay_ms: 1,
                    bytes: wire,
                }]],
                default: vec![],
            },
            fail_write_at: None,
            write_stall: None,
            unsolicited: vec![],
        }],
        ops: vec![
            COp::Submit {
                id: 0,
                style: Style::Future,
                handle: 0,
                unit: case.unit,
                timeout_ms: 100,
                req: case.req.clone(),
            },
            COp::Advance(1000),
        ],
        select_seed: case.select_seed,
        pre_enable: true,
    })
}

pub fn check_c06_cli(case: &C06Cli) -> CaseResult {
    let mut ok = CaseOk::new();
    let valid = case.req.to_valid().ok_or("invalid request generated")?;
    let pdu = match case.exception {
        Some(c) => exception_pdu(valid.kind().fc(), c),
        None => {
            let (b, r) = genuine_values(case.seed);
            genuine_reply(&valid, &b, &r)
        }
    };
    let good = rtu_frame(case.unit, &pdu);
    // emission: the request the client transmits is one valid RTU request frame
    let base = client_one(case, good.clone());
    let w = base
        .peers
        .first()
        .and_then(|p| p.writes.first())
        .map(|w| w.1.clone())
        .ok_or("client transmitted nothing")?;
    if w.len() > 256 {
        return Err(format!("client emitted an RTU frame of {} bytes", w.len()));
    }
    let n = w.len();
    let crc = crc16(&w[..n - 2]);
    if w[n - 2] != (crc & 0xFF) as u8 || w[n - 1] != (crc >> 8) as u8 {
        return Err("client request does not end with the CRC-16/MODBUS, low byte first".to_string());
    }
    match base.ledger.completions.first().map(|c| &c.res) {
        Some(Res::Ok(_)) if case.exception.is_none() => {}
        Some(Res::Exception(c)) if Some(*c) == case.exception => {}
        other => return Err(format!("uncorrupted reply not accepted: {:?}", other)),
    }
    let nbits = (good.len() * 8) as u32;
    let judge = |bad: &[u8], what: &str| -> Result<(), String> {
        let (frames, _) = deframe_rtu(Direction::Response, bad);
        let run = client_one(case, bad.to_vec());
        let res = run.ledger.completions.first().map(|c| c.res.clone());
        if run.ledger.completions.len() != 1 {
            return Err(format!("{}: request completed {} times", what, run.ledger.completions.len()));
        }
        if frames.is_empty() {
            if matches!(res, Some(Res::Ok(_)) | Some(Res::Exception(_))) {
                return Err(format!(
                    "{}: reply [{}] whose CRC does not verify was accepted: {:?}",
                    what,
                    hex(bad),
                    res
                ));
            }
        }
        Ok(())
    };
    // single-bit errors: all of them for frames up to 40 bytes, every 7th bit otherwise
    let step = if good.len() <= 40 { 1 } else { 7 };
    let mut b = 0;
    while b < nbits {
        let bad = apply_corruption(&good, &Corruption::Bits(vec![b]));
        judge(&bad, &format!("single-bit flip at bit {}", b))?;
        b += step;
    }
    if step == 1 {
        ok.label("single_bit:exhaustive");
    }
    for c in &case.sampled {
        let bad = apply_corruption(&good, c);
        if bad == good {
            continue;
        }
        judge(&bad, &format!("{:?}", c))?;
    }
    ok.nontrivial = true;
    Ok(ok)
}

// ---------------------------------------------------------------------------------------------
// C06 (c): RTU chunking, server role

#[derive(Clone, Debug, PartialEq, Eq, Hash, Serialize, Deserialize)]
pub struct C06Chunk {
    pub base: SrvCase,
    pub partitions: Vec<Partition>,
}

pub fn arb_c06_chunk() -> BoxedStrategy<C06Chunk> {
    (arb_units(3), arb_decode(), any::<u64>())
        .prop_flat_map(|(units, decode, select_seed)| {
            let ids: Vec<u8> = units.iter().map(|u| u.0).collect();
            let hint = WinHint::of(units.first().map(|u| &u.1));
            srv::arb_frames_pub(Fr::Rtu, ids, hint, 7, 16).prop_flat_map(move |frames| {
                let mut boundaries = vec![0usize];
                let mut total = 0;
                for f in &frames {
                    total += f.pdu.len() + 3;
                    boundaries.push(total);
                }
                let units = units.clone();
                vec(arb_partition(total, boundaries), 5..=7).prop_map(move |partitions| C06Chunk {
                    base: SrvCase {
                        cfg: SrvConfig {
                            framing: Fr::Rtu,
                            units: units.clone(),
                            auth: None,
                            decode,
                            aliases: vec![],
                        },
                        frames: frames.clone(),
                        select_seed,
                    },
                    partitions,
                })
            })
        })
        .boxed()
}

pub fn check_c06_chunk(case: &C06Chunk) -> CaseResult {
    let (j, reference) = srv::judge_with_run(&case.base);
    if let Some(m) = j.replies.or(j.calls).or(j.multidrop) {
        return Err(format!("reference (paced) run already disagrees with the model: {}", m));
    }
    let mut ok = CaseOk::new();
    let mut stream = Vec::new();
    for f in &case.base.frames {
        stream.extend_from_slice(&rtu_frame(f.unit, &f.pdu));
    }
    let ref_writes = reference.written_bytes();
    for p in &case.partitions {
        let parts = p.apply(&stream);
        let mut steps: Vec<Step> = parts.iter().map(|b| Step::Bytes(b.clone())).collect();
        steps.push(Step::Eof);
        let run = run_server(
            &case.base.cfg,
            &steps,
            &SrvOptions {
                select_seed: case.base.select_seed,
                ..Default::default()
            },
        );
        if run.written_bytes() != ref_writes {
            return Err(format!(
                "partition {}: reply stream differs from the one-frame-per-read run ({} vs {} bytes)",
                short_partition(p),
                run.written_bytes().len(),
                ref_writes.len()
            ));
        }
        if run.calls != reference.calls {
            return Err(format!("partition {}: handler calls differ", short_partition(p)));
        }
        if run.final_units != reference.final_units {
            return Err(format!("partition {}: final application state differs", short_partition(p)));
        }
        if !matches!(p, Partition::Whole) {
            ok.nontrivial = case.base.frames.len() >= 2;
        }
    }
    if stream.len() > 260 {
        ok.label("stream:over_260");
    }
    Ok(ok)
}


// ---------------------------------------------------------------------------------------------
// C20 over the chunked streams of C05 / C06: every partition at the highest decode level gives
// what it gives at the lowest (server: reply bytes, handler calls, end; client: results, instants)

pub fn check_c20_chunks_srv(case: &C05Srv) -> CaseResult {
    let mut ok = CaseOk::new();
    let fr = case.base.cfg.framing;
    let mut stream = Vec::new();
    for f in &case.base.frames {
        stream.extend_from_slice(&frame_bytes(fr, f));
    }
    if let Some((h, extra)) = &case.bad {
        stream.extend_from_slice(&mbap_header_raw(h.tx, h.proto, h.len, h.unit));
        for f in extra {
            stream.extend_from_slice(&frame_bytes(fr, f));
        }
    }
    for p in case.partitions.iter().take(3) {
        let mut steps: Vec<Step> = Vec::new();
        for b in p.apply(&stream) {
            steps.push(Step::Bytes(b));
            steps.push(Step::Pause);
        }
        steps.push(Step::Eof);
        let mut obs = Vec::new();
        for level in [Decode::NOTHING, Decode::MAX] {
            let mut cfg = case.base.cfg.clone();
            cfg.decode = level;
            let run = run_server(
                &cfg,
                &steps,
                &SrvOptions {
                    select_seed: case.base.select_seed,
                    ..Default::default()
                },
            );
            obs.push((run.writes.clone(), run.calls.clone(), format!("{:?}", run.end), run.final_units.clone()));
        }
        if obs[0] != obs[1] {
            return Err(format!(
                "partition {} of a {}-byte stream: the server session at the highest decode level differs from the lowest ({} vs {} writes, {} vs {} handler calls, end {} vs {})",
                short_partition(p),
                stream.len(),
                obs[1].0.len(),
                obs[0].0.len(),
                obs[1].1.len(),
                obs[0].1.len(),
                obs[1].2,
                obs[0].2
            ));
        }
    }
    ok.label("server_chunks");
    ok.nontrivial = case.base.frames.len() >= 3;
    Ok(ok)
}

pub fn check_c20_chunks_cli(case: &ChunkCli) -> CaseResult {
    let mut ok = CaseOk::new();
    for p in case.partitions.iter().take(3) {
        let mut obs = Vec::new();
        for level in [Decode::NOTHING, Decode::MAX] {
            let mut c = case.clone();
            c.decode = level;
            let run = run_chunk_cli(&c, Some(p));
            let mut comps: Vec<_> = run.ledger.completions.iter().map(|c| (c.id, c.at, c.res.clone())).collect();
            comps.sort_by_key(|x| x.0);
            let writes: Vec<_> = run.peers.iter().flat_map(|p| p.writes.iter().cloned()).collect();
            obs.push((comps, writes));
        }
        if obs[0] != obs[1] {
            return Err(format!(
                "partition {}: the client at the highest decode level differs from the lowest ({:?} vs {:?})",
                short_partition(p),
                obs[1].0.iter().map(|c| c.2.class()).collect::<Vec<_>>(),
                obs[0].0.iter().map(|c| c.2.class()).collect::<Vec<_>>()
            ));
        }
    }
    ok.label(match case.framing {
        Fr::Mbap => "framing:mbap",
        Fr::Rtu => "framing:rtu",
    });
    ok.nontrivial = case.requests.len() >= 2;
    Ok(ok)
}
