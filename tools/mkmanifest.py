#!/usr/bin/env python3
"""Regenerates /verif/MANIFEST.json from the table below (keeps the file valid at all times)."""
import json, subprocess, os

HERE = os.path.dirname(os.path.dirname(os.path.abspath(__file__)))

def hook_commits():
    try:
        out = subprocess.check_output(["git", "-C", "/repo", "log", "--format=%H %s"], text=True)
    except Exception:
        return []
    return [l.split()[0] for l in out.splitlines() if l.split(" ", 1)[1].startswith("verif hook")]

SIM_NOTE = ("Trusted base: the harness's reference models (harness/src/model, written from the Modbus spec and the "
            "property statement, no rodbus code), proptest 1.11 generation/shrinking, tokio's paused clock. The "
            "verif-hooks constructors build the production session objects; the in-memory transport replaces only the socket. "
            "Absence is never established: the verdict is 'held on everything generated'.")

CHECKS = {
 "C01": dict(engine="sim", technique="property-based testing: generated request sessions vs. a reference Modbus server (byte-exact differential oracle), proptest shrinking",
             text="Model-based property testing: 120k (quick) / 3M (thorough) generated sessions per run against the production server session over an in-memory transport; every reply byte is compared with an independent reference server. Right level because the property is a universally quantified input/output relation with an executable reference; generated search with a byte-exact oracle samples the PDU space and request sequences far beyond the fixed tests, but cannot prove absence.",
             ref="DESIGN.md section 4 C01"),
 "C02": dict(engine="sim", technique="property-based testing: instrumented handler call log vs. reference call log (model-based oracle)",
             text="Same generated sessions, oracle over the ordered log of RequestHandler calls and the final application state; exact for writes, containment for reads, zero calls for rejected inputs, with and without an authorization handler.",
             ref="DESIGN.md section 4 C02"),
 "C08": dict(engine="sim", technique="property-based testing: generated allow/deny policies and roles, model of authorize-then-dispatch plus differential re-run without authorization",
             text="Generated MBAP sessions on a session built with AuthorizationType::Handler through the hook: policy (incl. per-call flipping sequences and the built-in read-only handler) x Unicode role x requests; interleaved authorization/handler call log and replies vs. the model; allowed sub-history re-run without authorization must agree.",
             ref="DESIGN.md section 4 C08"),
 "C17": dict(engine="sim", technique="property-based testing: generated multi-drop sessions (all unit ids, broadcast) vs. reference multi-drop rules",
             text="Generated RTU/MBAP sessions with the unit-id dimension opened up; per-frame observation of written bytes and per-unit handler logs vs. the reference multi-drop rules (silence unless addressed, broadcast writes reach every unit exactly once and are never answered).",
             ref="DESIGN.md section 4 C17"),
 "C03": dict(engine="sim", technique="property-based testing: generated client requests vs. reference encoder (accept => exact frame, reject => nothing on the wire); enumeration of the AddressRange constructor grid (all 2^32 pairs in the thorough tier)",
             text="Generated client sessions over all eight request kinds, three submission styles, a (start,count) lattice around every protocol limit and value vectors up to 70000 elements; each transmitted frame is compared byte for byte with an independent encoder and every rejected request must leave the wire untouched. The AddressRange constructor is enumerated on a boundary lattice (quick) or exhaustively over u16 x u16 (thorough).",
             ref="DESIGN.md section 4 C03"),
 "C04": dict(engine="sim", technique="property-based testing: mutated reply PDUs vs. a reference reply classifier",
             text="One outstanding request x one generated reply (genuine or single-field mutation, exceptions with 0/1/2 code bytes, random bytes) on MBAP and RTU; the result must be exactly the encoded values, exactly the exception, or a non-exception error as the classifier says; exactly one completion.",
             ref="DESIGN.md section 4 C04"),
 "C05": dict(engine="sim", technique="property-based testing: metamorphic relation over partitions of one byte stream + reference MBAP deframer / reference server",
             text="Each generated stream is delivered under 6..8 chunkings (byte-per-byte, cuts inside headers/bodies, reads filling the 260-byte buffer) in both roles; all must give the same replies, handler calls, results, instants and end reason as the one-frame-per-read run, which itself is judged by the reference server; malformed headers must end the session at that point.",
             ref="DESIGN.md section 4 C05"),
 "C06": dict(engine="sim", category="fault_enumeration", technique="fault enumeration inside property-based testing: every 1-bit corruption of generated RTU frames (all 2-bit pairs on short frames, sampled bursts) vs. an independent bitwise CRC-16 and reference deframer",
             text="For generated request/reply frames: all single-bit flips, all double-bit flips on frames <=16 bytes, sampled multi-bit flips and <=16-bit bursts, CRC byte swaps; the session may act only if the reference deframer (independent CRC) finds a verifying frame. Emitted frames are checked against the same reference; RTU chunking is checked metamorphically.",
             ref="DESIGN.md section 4 C06"),
 "C07": dict(engine="sim", technique="property-based fuzzing: grammar-aware mutation of valid traffic + random bytes, panic/overflow detection, deterministic poll-budget progress monitor, shutdown probe; libFuzzer targets carry the same oracle",
             text="Mutated and random byte streams in both roles, both framings and all 36 decode levels with a formatting tracing subscriber installed, built with overflow checks and debug assertions; no panic, bounded polls per input byte, session ends or parks and then honours shutdown, client requests complete exactly once, task ends when handles are dropped.",
             ref="DESIGN.md section 4 C07"),
 "C10": dict(engine="sim", technique="stateful property-based testing: generated operation histories (Vec<Op> + interpreter) against a completion-ledger invariant and error-justification predicates",
             text="Generated histories of up to 40 operations (submit in three styles, enable/disable/shutdown/set-decode, clone/drop handles, cancel the caller, abort the task, peer faults) over scripted connections in virtual time; every accepted request must complete exactly once and every error class must be justified by the history.",
             ref="DESIGN.md section 4 C10"),
 "C11": dict(engine="sim", technique="property-based testing: scripted peer with stale/future/duplicate transaction ids vs. a reference stream model; long run across the 16-bit wrap",
             text="Queued requests against a peer that interleaves genuine, stale, future and duplicate frames around the deadlines; transmitted ids, ordering, no pipelining and per-request provenance of results are compared with a reference model in virtual time; one 70k-request run crosses the id wrap.",
             ref="DESIGN.md section 4 C11"),
 "C12": dict(engine="sim", technique="property-based testing on a paused (virtual) clock: deadline arithmetic and consecutive-timeout counter model",
             text="Per-request timeouts and reply completion instants generated around the deadline (T-1 ms / T+1 ms, replies split across the deadline), outcome sequences and limits N; completion instants must equal the model's to the millisecond and the connection must drop exactly at the N-th consecutive timeout.",
             ref="DESIGN.md section 4 C12"),
 "C20": dict(engine="sim", technique="property-based testing: metamorphic relation across decode levels and run-time level changes",
             text="Cases from the C01/C08/C11/C12 generators re-executed at decode level nothing, highest, random and with a level change injected at a generated script position; wire bytes, results, instants, handler logs and end reasons must be identical.",
             ref="DESIGN.md section 4 C20"),
 "C13": dict(engine="net", technique="stateful property-based testing in real time: generated operation/fault scripts injected at listener-gate lock-step points against the real TCP channel task; life-cycle automaton oracle",
             text="The connection-state listener parks the real TcpChannelTask at every transition while the harness injects generated operations and chooses the outcome of the next connection attempt (refused / closed / garbage / silent / served); observed state paths, request outcomes, stray connection attempts and task termination are judged by a life-cycle automaton. Black box over loopback TCP; failing scripts are re-run with longer time budgets before being reported.",
             ref="DESIGN.md section 4 C13", note="Trusted base: the harness's automaton and gate mechanism, the OS TCP stack on loopback, real time (scripts that fail are re-run twice). No hook is used. Serial (pty) channels are not exercised by this check."),
 "C14": dict(engine="net", technique="property-based testing: closed-form delay model for the public strategy object (generated call sequences) + real-time measurement of announced vs. waited delays on the TCP channel task",
             text="(a) 300k generated production-legal call sequences on doubling_retry_strategy compared with min(min*2^(k-1), max); (b) generated failing/short-lived connection sequences against the real TCP channel task: announced durations follow the model and the next attempt never starts earlier than announced.",
             ref="DESIGN.md section 4 C14", note="Trusted base: closed-form model in u128; wall-clock measurement with 1 ms tolerance, lower bound only. The RTU server's and serial client's use of the strategy is not measured by this check."),
 "C15": dict(engine="net", technique="stateful property-based testing in real time: generated connection histories against the real TCP server task, FIFO-eviction session model, sentinel/EOF probes after every step",
             text="Generated histories of connects, closes, requests, malformed headers, split requests, decode-level changes, shutdown and handle drop with max_sessions 0..4; after every step every connection is probed and must be served or closed exactly as the FIFO-eviction model says.",
             ref="DESIGN.md section 4 C15", note="Trusted base: the session model, loopback TCP, settling delays (failing histories are re-run with 2x/4x delays). TLS servers share the same session tracker code and are not separately exercised here."),
 "C09": dict(engine="net", technique="exhaustive enumeration of the TLS configuration grid (finite domain) with generated-peer handshakes against a truth-table oracle",
             text="All 252 cells of {min version} x {certificate mode} x {authz} x {role of rodbus} x {versions the peer offers} x {peer certificate variant} are exercised with real handshakes over loopback against rustls peers the harness configures itself (pinned versions, no validation of their own); served/refused, negotiated version, role string seen by the authorization handler and a plaintext probe are compared with the truth table.",
             ref="DESIGN.md section 4 C09", note="Trusted base: the truth table, the committed test PKI (tools/mkcerts.sh, fixed-date expired / not-yet-valid certificates), rustls as the peer implementation. Certificates with two role extensions are not in the grid (openssl cannot mint them)."),
 "C16": dict(engine="net", technique="property-based testing: generated wildcard strings vs. a reference grammar; generated (filter, peer address) pairs over loopback aliases vs. a reference matcher, across TCP/TLS/TLS+authz servers built through the Rust API and through the C ABI",
             text="300k generated strings for the wildcard parser; 400 (quick) generated filter/peer cases, each starting a real server (one of six variant/API combinations) and probing 5-15 loopback source addresses: matching peers must be served (after a TLS handshake where applicable), non-matching peers must receive zero bytes.",
             ref="DESIGN.md section 4 C16", note="Trusted base: reference grammar and matcher, loopback aliases in 127/8 and ::1, rustls as the probing TLS client, the committed test PKI. IPv4-mapped IPv6 peers on dual-stack listeners are not exercised."),
 "C18": dict(engine="ffi", technique="differential testing with exhaustive tables and seeded random arguments: the extern \"C\" functions of the rodbus-ffi rlib vs. the Rust API against one scripted peer; name-for-name mapping oracle; callback ledger",
             text="Every row of the mapping tables is visited on each run: 8 client operations x (random successes, all 256 exception codes, malformed / foreign / missing / truncated-connection / bad-header replies), not-connected / queue-full / runtime-destroyed conditions with exactly-once callback accounting, 4 write callbacks x 266 WriteResult values, 36 decode levels compared through captured log classes.",
             ref="DESIGN.md section 4 C18", note="Trusted base: expected enum names derived from Rust Debug names; the scripted peer; the rlib's extern functions (not the generated C/.NET/Java wrappers)."),
 "C19": dict(engine="ffi", technique="model-based property testing (generated operation sequences vs. a four-map model) + amplified stress sampling for atomicity",
             text="Generated sequences of database operations inside configure callbacks and update transactions interleaved with client reads, every return value and reply compared with a map model; atomicity is stress-sampled with transactions whose callback deliberately widens the window while three connections read all registers in single requests.",
             ref="DESIGN.md section 4 C19", note="Trusted base: the map model; the OS scheduler is not controlled, the atomicity part is sampling with amplification (thousands of overlapping replies per run), not schedule enumeration."),
}

NOT_YET = {
}

ALL = ["C%02d" % i for i in range(1, 21)]

def main():
    checks = []
    for pid in ALL:
        if pid not in CHECKS:
            continue
        c = CHECKS[pid]
        checks.append({
            "property_id": pid,
            "quick_cmd": "./check %s --tier quick" % pid,
            "thorough_cmd": "./check %s --tier thorough" % pid,
            "evidence_file": "/verif/evidence/%s.json" % pid,
            "replay_cmd_template": "./check --replay %s {path}" % pid,
            "engine": c["engine"],
            "level_claimed": {"category": c.get("category", "exploration"), "text": c["text"], "design_ref": c["ref"]},
            "level_note": c.get("note", SIM_NOTE),
            "technique": c["technique"],
        })
    na = []
    for pid in ALL:
        if pid not in CHECKS:
            na.append({"property_id": pid, "reason": NOT_YET.get(pid, "check under construction in this session (designed in DESIGN.md section 4); not claimed until it runs green on the unchanged tree")})
    m = {
        "version": 1,
        "setup_cmd": "./check --build",
        "hooks": {
            "guard": "verif-hooks",
            "enable": "cargo feature `verif-hooks` of the rodbus crate, switched on by the harness's path dependency (harness/Cargo.toml); the harness is built with --cfg tokio_unstable, overflow-checks and debug-assertions on",
            "baseline_off_cmd": "cd /repo && cargo test --workspace --no-fail-fast --offline",
            "source_commits": hook_commits(),
            "add_only": True,
        },
        "engines": [
            {"name": "sim", "path": "harness/src/sim.rs", "serves_properties": ["C01","C02","C03","C04","C05","C06","C07","C08","C10","C11","C12","C17","C20"], "kind_free_text": "deterministic in-memory transport + paused-clock current-thread tokio runtime driving the production session loops (through the verif-hooks constructors)"},
            {"name": "net", "path": "harness/src/net", "serves_properties": ["C09","C13","C14","C15","C16"], "kind_free_text": "black-box over loopback sockets, TLS and ptys against the public spawn_* API"},
            {"name": "ffi", "path": "harness/src/ffi", "serves_properties": ["C18","C19"], "kind_free_text": "the extern \"C\" functions of the rodbus-ffi rlib called from Rust"},
            {"name": "fuzz", "path": "fuzz", "serves_properties": ["C07"], "kind_free_text": "cargo-fuzz / libFuzzer targets carrying the same oracles in-target"},
        ],
        "checks": checks,
        "not_applicable": na,
        "notes": "One binary (harness/target/release/vh) decides every property; ./check rebuilds it against /repo's working tree first. Exit 2 = inconclusive (build trouble, generator-health floor, watchdog), never a violation. Known findings: known_findings.json.",
    }
    with open(os.path.join(HERE, "MANIFEST.json"), "w") as f:
        json.dump(m, f, indent=1)
    print("MANIFEST.json written: %d checks, %d not_applicable" % (len(checks), len(na)))

main()
