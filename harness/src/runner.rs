//! Search driver: sharded proptest runners with pinned seeds, statistics, shrinking, replay
//! files, known findings, evidence.

use std::collections::{BTreeMap, HashSet};
use std::fmt::Debug;
use std::hash::{Hash, Hasher};
use std::path::{Path, PathBuf};
use std::sync::atomic::{AtomicBool, AtomicU64, Ordering};
use std::sync::{Arc, Mutex};
use std::time::{Duration, Instant};

use proptest::strategy::{BoxedStrategy, Strategy};
use proptest::test_runner::{Config, RngAlgorithm, TestCaseError, TestError, TestRng, TestRunner};
use serde::de::DeserializeOwned;
use serde::Serialize;
use serde_json::{json, Value};

#[derive(Copy, Clone, Debug, PartialEq, Eq)]
pub enum Tier {
    Quick,
    Thorough,
}

impl Tier {
    pub fn name(self) -> &'static str {
        match self {
            Tier::Quick => "quick",
            Tier::Thorough => "thorough",
        }
    }
}

#[derive(Clone, Debug)]
pub struct Ctx {
    pub tier: Tier,
    pub seed: u64,
    pub scale: f64,
    pub threads: usize,
    pub verif_dir: PathBuf,
}

impl Ctx {
    pub fn cases(&self, quick: u64, thorough: u64) -> u64 {
        let base = match self.tier {
            Tier::Quick => quick,
            Tier::Thorough => thorough,
        };
        ((base as f64) * self.scale).ceil().max(1.0) as u64
    }
}

/// What a check says about one case that did not violate the property
#[derive(Clone, Debug, Default)]
pub struct CaseOk {
    pub labels: Vec<&'static str>,
    pub nontrivial: bool,
    /// number of judgements inside the case that fell into a documented don't-care class
    pub dontcare: u32,
}

impl CaseOk {
    pub fn new() -> Self {
        Self::default()
    }
    pub fn label(&mut self, l: &'static str) {
        if !self.labels.contains(&l) {
            self.labels.push(l);
        }
    }
}

pub type CaseResult = Result<CaseOk, String>;

#[derive(Clone, Debug, Default)]
pub struct Stats {
    pub evaluations: u64,
    pub nontrivial_total: u64,
    pub labels: BTreeMap<String, u64>,
    pub distinct: HashSet<u64>,
    pub samples: Vec<Value>,
    pub dontcare: u64,
    pub excluded_known: u64,
}

impl Stats {
    pub fn merge(&mut self, other: Stats) {
        self.evaluations += other.evaluations;
        self.nontrivial_total += other.nontrivial_total;
        for (k, v) in other.labels {
            *self.labels.entry(k).or_insert(0) += v;
        }
        self.distinct.extend(other.distinct);
        for s in other.samples {
            if self.samples.len() < 6 {
                self.samples.push(s);
            }
        }
        self.dontcare += other.dontcare;
        self.excluded_known += other.excluded_known;
    }
}

#[derive(Clone, Debug)]
pub struct Failure {
    pub message: String,
    pub case: Value,
    pub hang: bool,
}

#[derive(Clone, Debug)]
pub struct SearchReport {
    pub name: String,
    pub stats: Stats,
    pub failure: Option<Failure>,
    pub exhaustive: bool,
    pub wall_s: f64,
    pub rule: String,
    pub health_errors: Vec<String>,
    pub known_hits: Vec<String>,
}

impl SearchReport {
    pub fn empty(name: &str, rule: &str) -> Self {
        Self {
            name: name.to_string(),
            stats: Stats::default(),
            failure: None,
            exhaustive: false,
            wall_s: 0.0,
            rule: rule.to_string(),
            health_errors: vec![],
            known_hits: vec![],
        }
    }
}

pub fn hash_of<T: Hash>(t: &T) -> u64 {
    // SipHash with fixed keys: deterministic across runs
    #[allow(deprecated)]
    let mut h = std::hash::SipHasher::new_with_keys(0x7665726966, 0x726f64627573);
    t.hash(&mut h);
    h.finish()
}

thread_local! {
    static PANIC_MSG: std::cell::RefCell<Option<String>> = std::cell::RefCell::new(None);
    static QUIET_PANICS: std::cell::Cell<bool> = std::cell::Cell::new(false);
}

/// Install a panic hook that records message + location for threads running checks and keeps
/// stderr quiet for them
pub fn install_panic_hook() {
    let prev = std::panic::take_hook();
    std::panic::set_hook(Box::new(move |info| {
        let quiet = QUIET_PANICS.with(|q| q.get());
        let msg = {
            let payload = info.payload();
            let s = if let Some(s) = payload.downcast_ref::<&str>() {
                s.to_string()
            } else if let Some(s) = payload.downcast_ref::<String>() {
                s.clone()
            } else {
                "<non-string panic>".to_string()
            };
            match info.location() {
                Some(l) => format!("{} at {}:{}", s, l.file(), l.line()),
                None => s,
            }
        };
        PANIC_MSG.with(|p| *p.borrow_mut() = Some(msg));
        if !quiet {
            prev(info);
        }
    }));
}

/// Run `f`, turning a panic into Err(message with location)
pub fn guarded<T>(f: impl FnOnce() -> T) -> Result<T, String> {
    QUIET_PANICS.with(|q| q.set(true));
    let r = std::panic::catch_unwind(std::panic::AssertUnwindSafe(f));
    QUIET_PANICS.with(|q| q.set(false));
    match r {
        Ok(x) => Ok(x),
        Err(_) => Err(PANIC_MSG
            .with(|p| p.borrow_mut().take())
            .unwrap_or_else(|| "panic".to_string())),
    }
}

/// Known-finding signature attached to a search: name + predicate over the case
pub struct KnownSig<C> {
    pub name: &'static str,
    pub matches: fn(&C) -> bool,
}

/// A proptest-driven search over cases of type C
pub struct Search<C: 'static> {
    pub name: &'static str,
    pub rule: &'static str,
    pub quick: u64,
    pub thorough: u64,
    pub strategy: fn() -> BoxedStrategy<C>,
    pub check: fn(&C) -> CaseResult,
    /// (label, minimum fraction of evaluations) generator-health floors
    pub floors: &'static [(&'static str, f64)],
    pub known: &'static [KnownSig<C>],
    /// seconds without progress on one case before the run is declared hung
    pub hang_secs: u64,
    /// cap on worker threads (real-time engines want fewer)
    pub max_threads: usize,
    /// cap on proptest shrink iterations (real-time cases are expensive to re-run)
    pub shrink_iters: u32,
}

pub trait SearchDef: Sync + Send {
    fn name(&self) -> &'static str;
    fn run(&self, ctx: &Ctx, open_known: &[String]) -> SearchReport;
    fn replay(&self, case: &Value) -> CaseResult;
}

impl<C> SearchDef for Search<C>
where
    C: Debug + Clone + Serialize + DeserializeOwned + Hash + Send + 'static,
{
    fn name(&self) -> &'static str {
        self.name
    }

    fn replay(&self, case: &Value) -> CaseResult {
        let c: C = serde_json::from_value(case.clone())
            .map_err(|e| format!("replay file does not decode as a case of {}: {}", self.name, e))?;
        match guarded(|| (self.check)(&c)) {
            Ok(r) => r,
            Err(p) => Err(format!("panic: {}", p)),
        }
    }

    fn run(&self, ctx: &Ctx, open_known: &[String]) -> SearchReport {
        let started = Instant::now();
        let total = ctx.cases(self.quick, self.thorough);
        let threads = ctx.threads.min(self.max_threads).max(1).min(total as usize);
        let stop = Arc::new(AtomicBool::new(false));
        let active_known: Vec<&KnownSig<C>> = self
            .known
            .iter()
            .filter(|k| open_known.iter().any(|o| o == k.name))
            .collect();

        struct Shard<C> {
            progress: Arc<AtomicU64>,
            current: Arc<Mutex<Option<C>>>,
            done: Arc<AtomicBool>,
            result: Arc<Mutex<Option<(Stats, Option<(String, C)>)>>>,
        }
        let mut shards: Vec<Shard<C>> = Vec::new();
        let mut handles = Vec::new();

        for shard in 0..threads {
            let n = total / threads as u64 + if (shard as u64) < total % threads as u64 { 1 } else { 0 };
            let progress = Arc::new(AtomicU64::new(0));
            let current: Arc<Mutex<Option<C>>> = Arc::new(Mutex::new(None));
            let done = Arc::new(AtomicBool::new(false));
            let result = Arc::new(Mutex::new(None));
            shards.push(Shard {
                progress: progress.clone(),
                current: current.clone(),
                done: done.clone(),
                result: result.clone(),
            });
            let stop = stop.clone();
            let strategy = self.strategy;
            let check = self.check;
            let name = self.name;
            let shrink_iters = self.shrink_iters;
            let seed = ctx.seed;
            let known: Vec<(&'static str, fn(&C) -> bool)> =
                active_known.iter().map(|k| (k.name, k.matches)).collect();
            let h = std::thread::Builder::new()
                .name(format!("{}-{}", name, shard))
                .stack_size(16 << 20)
                .spawn(move || {
                    let mut seed_bytes = [0u8; 32];
                    seed_bytes[..8].copy_from_slice(&seed.to_le_bytes());
                    seed_bytes[8..16].copy_from_slice(&(shard as u64).to_le_bytes());
                    seed_bytes[16..24].copy_from_slice(&hash_of(&name).to_le_bytes());
                    let rng = TestRng::from_seed(RngAlgorithm::ChaCha, &seed_bytes);
                    let config = Config {
                        cases: n as u32,
                        failure_persistence: None,
                        max_shrink_iters: shrink_iters,
                        max_global_rejects: 1 << 20,
                        max_local_rejects: 1 << 20,
                        ..Config::default()
                    };
                    let mut runner = TestRunner::new_with_rng(config, rng);
                    let strat = strategy();
                    let stats = std::cell::RefCell::new(Stats::default());
                    let failed = std::cell::Cell::new(false);
                    let res = runner.run(&strat, |c: C| {
                        if stop.load(Ordering::Relaxed) && !failed.get() {
                            return Ok(());
                        }
                        for (_, m) in &known {
                            if m(&c) {
                                if !failed.get() {
                                    stats.borrow_mut().excluded_known += 1;
                                }
                                return Ok(());
                            }
                        }
                        *current.lock().unwrap() = Some(c.clone());
                        let r = guarded(|| check(&c));
                        progress.fetch_add(1, Ordering::Relaxed);
                        let r = match r {
                            Ok(r) => r,
                            Err(p) => Err(format!("panic: {}", p)),
                        };
                        // trouble of the harness's own making (no free port, cannot bind, cannot
                        // open a pty) says nothing about the library: the case is skipped and
                        // counted; too many of them make the run inconclusive, never a violation
                        let r = match r {
                            Err(m) if m.contains("INFRA:") => {
                                if !failed.get() {
                                    let mut s = stats.borrow_mut();
                                    *s.labels.entry("infra:case_skipped".to_string()).or_insert(0) += 1;
                                }
                                if std::env::var("VERIF_DEBUG").is_ok() {
                                    eprintln!("[runner] case skipped: {}", m);
                                }
                                return Ok(());
                            }
                            other => other,
                        };
                        match r {
                            Ok(ok) => {
                                if !failed.get() {
                                    let mut s = stats.borrow_mut();
                                    s.evaluations += 1;
                                    s.dontcare += ok.dontcare as u64;
                                    for l in &ok.labels {
                                        *s.labels.entry(l.to_string()).or_insert(0) += 1;
                                    }
                                    if ok.nontrivial {
                                        s.nontrivial_total += 1;
                                        let h = hash_of(&c);
                                        if s.distinct.insert(h) && s.samples.len() < 2 {
                                            if let Ok(v) = serde_json::to_value(&c) {
                                                if v.to_string().len() <= 2500 {
                                                    s.samples.push(v);
                                                }
                                            }
                                        }
                                    }
                                }
                                Ok(())
                            }
                            Err(msg) => {
                                if !failed.get() {
                                    failed.set(true);
                                    stats.borrow_mut().evaluations += 1;
                                    stop.store(true, Ordering::Relaxed);
                                }
                                Err(TestCaseError::fail(msg))
                            }
                        }
                    });
                    let failure = match res {
                        Ok(()) => None,
                        Err(TestError::Fail(reason, value)) => Some((reason.message().to_string(), value)),
                        Err(TestError::Abort(reason)) => {
                            // generator could not produce cases: report as a failure of health
                            stats.borrow_mut().labels.insert(
                                format!("ABORT:{}", reason.message()),
                                1,
                            );
                            None
                        }
                    };
                    *result.lock().unwrap() = Some((stats.into_inner(), failure));
                    done.store(true, Ordering::Release);
                })
                .expect("spawn shard");
            handles.push(h);
        }

        // watchdog loop
        let mut last: Vec<(u64, Instant)> = shards.iter().map(|_| (0, Instant::now())).collect();
        let mut hang: Option<usize> = None;
        loop {
            let mut all_done = true;
            for (i, s) in shards.iter().enumerate() {
                if s.done.load(Ordering::Acquire) {
                    continue;
                }
                all_done = false;
                let p = s.progress.load(Ordering::Relaxed);
                if p != last[i].0 {
                    last[i] = (p, Instant::now());
                } else if last[i].1.elapsed() > Duration::from_secs(self.hang_secs) {
                    hang = Some(i);
                }
            }
            if all_done || hang.is_some() {
                break;
            }
            std::thread::sleep(Duration::from_millis(20));
        }

        let mut report = SearchReport::empty(self.name, self.rule);
        if let Some(i) = hang {
            stop.store(true, Ordering::Relaxed);
            let case = shards[i].current.lock().unwrap().clone();
            report.failure = Some(Failure {
                message: format!(
                    "no progress for {} s on one case (hang); the case is not shrunk",
                    self.hang_secs
                ),
                case: case
                    .map(|c| serde_json::to_value(&c).unwrap_or(Value::Null))
                    .unwrap_or(Value::Null),
                hang: true,
            });
            // the stuck thread cannot be joined; collect what finished
            for s in shards.iter() {
                if s.done.load(Ordering::Acquire) {
                    if let Some((st, _)) = s.result.lock().unwrap().take() {
                        report.stats.merge(st);
                    }
                }
            }
            report.wall_s = started.elapsed().as_secs_f64();
            return report;
        }
        for h in handles {
            let _ = h.join();
        }
        for s in shards.iter() {
            if let Some((st, f)) = s.result.lock().unwrap().take() {
                report.stats.merge(st);
                if report.failure.is_none() {
                    if let Some((msg, c)) = f {
                        report.failure = Some(Failure {
                            message: msg,
                            case: serde_json::to_value(&c).unwrap_or(Value::Null),
                            hang: false,
                        });
                    }
                }
            }
        }
        // generator health
        if report.failure.is_none() {
            let n = report.stats.evaluations.max(1) as f64;
            for (label, min) in self.floors {
                let got = *report.stats.labels.get(*label).unwrap_or(&0) as f64 / n;
                if got < *min {
                    report.health_errors.push(format!(
                        "search {}: label '{}' at {:.4} below floor {:.4}",
                        self.name, label, got, min
                    ));
                }
            }
            for (k, _) in report.stats.labels.iter() {
                if k.starts_with("ABORT:") {
                    report.health_errors.push(format!("search {}: {}", self.name, k));
                }
            }
            // cases skipped for trouble of the harness's own: a handful is tolerated
            let skipped = *report.stats.labels.get("infra:case_skipped").unwrap_or(&0) as f64;
            if skipped > 3.0 && skipped > 0.05 * (n + skipped) {
                report.health_errors.push(format!(
                    "search {}: {} cases skipped because the harness could not set them up (ports, ptys)",
                    self.name, skipped
                ));
            }
        }
        report.wall_s = started.elapsed().as_secs_f64();
        report
    }
}

/// A hand-written enumeration (finite domain walked completely or by a fixed lattice)
pub struct Enumeration {
    pub name: &'static str,
    pub run: fn(&Ctx) -> SearchReport,
    pub replay: fn(&Value) -> CaseResult,
}

impl SearchDef for Enumeration {
    fn name(&self) -> &'static str {
        self.name
    }
    fn run(&self, ctx: &Ctx, _open_known: &[String]) -> SearchReport {
        let started = Instant::now();
        let mut r = (self.run)(ctx);
        r.wall_s = started.elapsed().as_secs_f64();
        r
    }
    fn replay(&self, case: &Value) -> CaseResult {
        match guarded(|| (self.replay)(case)) {
            Ok(r) => r,
            Err(p) => Err(format!("panic: {}", p)),
        }
    }
}

/// Policy when a search reports a hang
#[derive(Copy, Clone, Debug, PartialEq, Eq)]
pub enum HangPolicy {
    /// infrastructure trouble: exit 2
    Inconclusive,
    /// the property itself forbids it (C07): re-run the case with a longer budget and report a
    /// violation if it hangs again
    Violation,
}

pub struct Property {
    pub id: &'static str,
    pub level: &'static str,
    pub rule: &'static str,
    pub assumptions: &'static [&'static str],
    pub searches: Vec<Box<dyn SearchDef>>,
    pub hang: HangPolicy,
}

#[derive(Clone, Debug, serde::Deserialize, Serialize)]
pub struct KnownFinding {
    pub property: String,
    pub status: String,
    pub signature: String,
    pub what: String,
    #[serde(default)]
    pub commit: Option<String>,
    /// search name + witness case that demonstrates the finding (open findings only)
    #[serde(default)]
    pub search: Option<String>,
    #[serde(default)]
    pub witness: Option<Value>,
}

pub fn load_known(verif_dir: &Path) -> Vec<KnownFinding> {
    let p = verif_dir.join("known_findings.json");
    match std::fs::read_to_string(&p) {
        Ok(s) => serde_json::from_str(&s).unwrap_or_else(|e| {
            eprintln!("known_findings.json does not parse: {}", e);
            std::process::exit(2);
        }),
        Err(_) => Vec::new(),
    }
}

fn write_replay(ctx: &Ctx, prop: &str, search: &str, f: &Failure) -> PathBuf {
    let dir = ctx.verif_dir.join("replays").join(prop);
    let _ = std::fs::create_dir_all(&dir);
    let body = json!({
        "property": prop,
        "search": search,
        "message": f.message,
        "hang": f.hang,
        "case": f.case,
    });
    let text = serde_json::to_string_pretty(&body).unwrap();
    let h = hash_of(&text);
    let path = dir.join(format!("{}-{:016x}.json", search, h));
    let _ = std::fs::write(&path, text);
    path
}

/// Exit code of a property check
pub fn run_property(ctx: &Ctx, prop: &'static Property) -> i32 {
    let started = Instant::now();
    let known = load_known(&ctx.verif_dir);
    let open: Vec<&KnownFinding> = known
        .iter()
        .filter(|k| k.property == prop.id && k.status == "open")
        .collect();
    let open_names: Vec<String> = open.iter().map(|k| k.signature.clone()).collect();
    let mut violations: Vec<(String, PathBuf, String)> = Vec::new();
    let mut inconclusive: Vec<String> = Vec::new();
    let mut known_lines: Vec<String> = Vec::new();

    // 1. open known findings: confirm each witness still fails, print the KNOWN-FINDING line
    for k in &open {
        let mut still = None;
        if let (Some(sname), Some(w)) = (&k.search, &k.witness) {
            if let Some(s) = prop.searches.iter().find(|s| s.name() == sname) {
                still = Some(s.replay(w).is_err());
            }
        }
        let line = format!(
            "KNOWN-FINDING: property={} {} [signature={}{}]",
            prop.id,
            k.what,
            k.signature,
            match still {
                Some(true) => ", witness still fails",
                Some(false) => ", witness no longer fails",
                None => "",
            }
        );
        println!("{}", line);
        known_lines.push(line);
    }

    // 2. regression corpus
    let mut corpus_replayed = 0u64;
    let cdir = ctx.verif_dir.join("corpus").join(prop.id);
    if let Ok(rd) = std::fs::read_dir(&cdir) {
        let mut files: Vec<PathBuf> = rd.filter_map(|e| e.ok().map(|e| e.path())).collect();
        files.sort();
        for f in files {
            if f.extension().map(|e| e != "json").unwrap_or(true) {
                continue;
            }
            let text = match std::fs::read_to_string(&f) {
                Ok(t) => t,
                Err(_) => continue,
            };
            let v: Value = match serde_json::from_str(&text) {
                Ok(v) => v,
                Err(e) => {
                    inconclusive.push(format!("corpus file {:?} does not parse: {}", f, e));
                    continue;
                }
            };
            let sname = v["search"].as_str().unwrap_or("");
            let s = match prop.searches.iter().find(|s| s.name() == sname) {
                Some(s) => s,
                None => {
                    inconclusive.push(format!("corpus file {:?}: unknown search '{}'", f, sname));
                    continue;
                }
            };
            corpus_replayed += 1;
            if let Err(msg) = s.replay(&v["case"]) {
                // a corpus case that matches an open known finding is reported as such
                let is_known = v["known_signature"]
                    .as_str()
                    .map(|sig| open_names.iter().any(|o| o == sig))
                    .unwrap_or(false);
                if !is_known {
                    violations.push((sname.to_string(), f.clone(), msg));
                }
            }
        }
    }

    // 3. searches
    let mut reports = Vec::new();
    // development aid: VERIF_ONLY=<part of a search name> runs only the searches so named
    let only = std::env::var("VERIF_ONLY").ok();
    for s in &prop.searches {
        if let Some(o) = &only {
            if !s.name().contains(o.as_str()) {
                continue;
            }
        }
        let mut r = s.run(ctx, &open_names);
        // a failure that is trouble of the harness's own making (it says so: "INFRA:") is never
        // a violation: the search is inconclusive
        if r.failure.as_ref().map(|f| f.message.contains("INFRA:")).unwrap_or(false) {
            let f = r.failure.take().unwrap();
            r.health_errors.push(format!("search {}: {}", r.name, f.message));
        }
        if let Some(f) = &r.failure {
            let path = write_replay(ctx, prop.id, &r.name, f);
            if f.hang {
                match prop.hang {
                    HangPolicy::Inconclusive => inconclusive.push(format!(
                        "search {} hung; case saved to {}",
                        r.name,
                        path.display()
                    )),
                    HangPolicy::Violation => {
                        // confirm in a fresh thread with a generous budget
                        let case = f.case.clone();
                        let sref: &dyn SearchDef = s.as_ref();
                        let confirmed = confirm_hang(sref, &case, 60);
                        if confirmed {
                            violations.push((
                                r.name.clone(),
                                path,
                                "the case does not terminate (confirmed twice)".to_string(),
                            ));
                        } else {
                            inconclusive.push(format!(
                                "search {} hung once but not on re-run; case saved to {}",
                                r.name,
                                path.display()
                            ));
                        }
                    }
                }
            } else {
                violations.push((r.name.clone(), path, f.message.clone()));
            }
        }
        for h in &r.health_errors {
            inconclusive.push(format!("generator health: {}", h));
        }
        reports.push(r);
    }

    // 4. evidence
    let mut evaluations = corpus_replayed;
    let mut distinct = 0u64;
    let mut samples: Vec<Value> = Vec::new();
    let mut per_search = Vec::new();
    let mut dontcare = 0u64;
    let mut excluded = 0u64;
    let mut all_exhaustive = !reports.is_empty();
    for r in &reports {
        evaluations += r.stats.evaluations;
        distinct += r.stats.distinct.len() as u64;
        dontcare += r.stats.dontcare;
        excluded += r.stats.excluded_known;
        all_exhaustive &= r.exhaustive;
        for s in r.stats.samples.iter().take(2) {
            samples.push(json!({"search": r.name, "case": s}));
        }
        per_search.push(json!({
            "name": r.name,
            "rule": r.rule,
            "evaluations": r.stats.evaluations,
            "nontrivial_evaluations": r.stats.nontrivial_total,
            "distinct_nontrivial": r.stats.distinct.len(),
            "dontcare_judgements": r.stats.dontcare,
            "excluded_by_known_finding": r.stats.excluded_known,
            "exhaustive": r.exhaustive,
            "labels": r.stats.labels,
            "wall_s": (r.wall_s * 1000.0).round() / 1000.0,
            "violation": r.failure.as_ref().map(|f| f.message.clone()),
        }));
    }
    if samples.is_empty() {
        samples.push(json!("no non-trivial sample small enough to print"));
    }
    let evidence = json!({
        "property_id": prop.id,
        "tier": ctx.tier.name(),
        "seed": ctx.seed,
        "level": prop.level,
        "coverage": {
            "evaluations": evaluations,
            "distinct_nontrivial": distinct,
            "rule": prop.rule,
            "samples": samples,
            "exhaustive": all_exhaustive,
            "corpus_replayed": corpus_replayed,
            "dontcare_judgements": dontcare,
            "excluded_by_known_finding": excluded,
            "searches": per_search,
            "known_findings": known_lines,
            "inconclusive": inconclusive,
        },
        "assumptions": prop.assumptions,
        "wall_s": (started.elapsed().as_secs_f64() * 1000.0).round() / 1000.0,
        "violations": violations.len(),
    });
    // mutant / sensitivity runs point this elsewhere so that committed evidence is not touched
    let edir = std::env::var("VERIF_EVIDENCE_DIR")
        .map(PathBuf::from)
        .unwrap_or_else(|_| ctx.verif_dir.join("evidence"));
    let _ = std::fs::create_dir_all(&edir);
    let epath = edir.join(format!("{}.json", prop.id));
    if let Err(e) = std::fs::write(&epath, serde_json::to_string_pretty(&evidence).unwrap()) {
        eprintln!("cannot write evidence {:?}: {}", epath, e);
        return 2;
    }

    for r in &reports {
        println!(
            "[{}] {}: {} cases, {} distinct non-trivial, {:.2}s{}",
            prop.id,
            r.name,
            r.stats.evaluations,
            r.stats.distinct.len(),
            r.wall_s,
            if r.exhaustive { " (exhaustive)" } else { "" }
        );
    }
    if !violations.is_empty() {
        for (s, p, m) in &violations {
            println!("violation in search {}: {}", s, m);
            println!("VIOLATION property={} replay={}", prop.id, p.display());
        }
        return 1;
    }
    if !inconclusive.is_empty() {
        for i in &inconclusive {
            println!("INCONCLUSIVE property={} {}", prop.id, i);
        }
        return 2;
    }
    println!("OK property={} tier={} seed={}", prop.id, ctx.tier.name(), ctx.seed);
    0
}

fn confirm_hang(s_static: &'static dyn SearchDef, case: &Value, secs: u64) -> bool {
    // SearchDef is Sync; run the replay on a scoped thread we abandon if it does not return
    let done = Arc::new(AtomicBool::new(false));
    let d2 = done.clone();
    let case = case.clone();
    std::thread::spawn(move || {
        let _ = s_static.replay(&case);
        d2.store(true, Ordering::Release);
    });
    let t0 = Instant::now();
    while t0.elapsed() < Duration::from_secs(secs) {
        if done.load(Ordering::Acquire) {
            return false;
        }
        std::thread::sleep(Duration::from_millis(50));
    }
    true
}

/// Replay one file: exit code
pub fn replay_file(prop: &Property, path: &Path) -> i32 {
    let text = match std::fs::read_to_string(path) {
        Ok(t) => t,
        Err(e) => {
            eprintln!("cannot read {:?}: {}", path, e);
            return 2;
        }
    };
    let v: Value = match serde_json::from_str(&text) {
        Ok(v) => v,
        Err(e) => {
            eprintln!("{:?} does not parse: {}", path, e);
            return 2;
        }
    };
    let sname = v["search"].as_str().unwrap_or("");
    let s = match prop.searches.iter().find(|s| s.name() == sname) {
        Some(s) => s,
        None => {
            eprintln!("unknown search '{}' for property {}", sname, prop.id);
            return 2;
        }
    };
    match s.replay(&v["case"]) {
        Ok(ok) => {
            println!("replay passes (labels: {:?})", ok.labels);
            0
        }
        Err(msg) => {
            println!("replay fails: {}", msg);
            println!("VIOLATION property={} replay={}", prop.id, path.display());
            1
        }
    }
}

/// Helper: boxed strategy from any strategy
pub fn boxed<S: Strategy + 'static>(s: S) -> BoxedStrategy<S::Value> {
    s.boxed()
}
