#!/bin/sh
# tools/mutant.sh <patch.diff> <ID> [<ID>...]   apply a patch to /repo, run quick checks, revert.
# Prints one line per check: <ID> exit=<code>. Never leaves /repo modified.
PATCH=$(realpath "$1"); shift
cd /repo || exit 2
if ! git diff --quiet; then echo "/repo has uncommitted changes"; exit 2; fi
if ! git apply "$PATCH"; then echo "patch does not apply"; exit 2; fi
# on exit: revert, and rebuild the harness so that no binary built from the patched tree is left
trap 'git -C /repo checkout -- . ; git -C /repo clean -fdq -- rodbus ffi integration 2>/dev/null; /verif/check --build >/dev/null 2>&1' EXIT
cd /verif
for id in "$@"; do
    out=$(VERIF_EVIDENCE_DIR=/tmp/verif-mutant-evidence VERIF_SCALE=${VERIF_SCALE:-1} timeout ${MUTANT_TIMEOUT:-900} ./check "$id" --tier quick 2>&1)
    code=$?
    echo "$id exit=$code $(echo "$out" | grep -E '^violation|^INCONCLUSIVE' | head -2 | cut -c1-300)"
done
