//! C18: the C ABI reports and forwards exactly what the Rust API would.
//! Differential tables: every scenario is run through the Rust API and through the extern "C"
//! functions against the same scripted peer; results are compared name for name.

use std::io::{Read, Write};
use std::net::{TcpListener, TcpStream};
use std::sync::atomic::{AtomicBool, Ordering};
use std::sync::{Arc, Mutex};
use std::time::{Duration, Instant};

use rodbus::client::{Channel, ClientState, HostAddr, Listener, RequestParam, WriteMultiple};
use rodbus::{AddressRange, DecodeLevel, Indexed, MaybeAsync, RequestError, UnitId};
use rodbus_ffi::ffi;
use serde_json::json;

use super::*;
use crate::model::framing::{deframe_mbap, mbap_frame, mbap_header_raw};
use crate::model::pdu::*;
use crate::runner::*;

// ---------------------------------------------------------------------------------------------
// scripted peer

pub const SEL_EXCEPTION: u16 = 1000;
pub const SEL_MALFORMED: u16 = 1001;
pub const SEL_SILENT: u16 = 1002;
pub const SEL_CLOSE: u16 = 1003;
pub const SEL_BAD_HEADER: u16 = 1004;
pub const SEL_OTHER_FC: u16 = 1005;

pub fn peer_bits(start: u16, i: u16) -> bool {
    (start.wrapping_add(i)) % 3 == 0
}
pub fn peer_reg(start: u16, i: u16) -> u16 {
    start.wrapping_add(i).wrapping_mul(7) ^ 0x5A5A
}

pub struct Peer {
    pub port: u16,
    /// requests seen: (unit, pdu)
    pub seen: Arc<Mutex<Vec<(u8, Vec<u8>)>>>,
    stop: Arc<AtomicBool>,
}

impl Drop for Peer {
    fn drop(&mut self) {
        self.stop.store(true, Ordering::SeqCst);
        let _ = TcpStream::connect(("127.0.0.1", self.port));
    }
}

impl Peer {
    pub fn start() -> Peer {
        let listener = TcpListener::bind("127.0.0.1:0").expect("bind");
        let port = listener.local_addr().unwrap().port();
        let seen: Arc<Mutex<Vec<(u8, Vec<u8>)>>> = Default::default();
        let stop = Arc::new(AtomicBool::new(false));
        let seen2 = seen.clone();
        let stop2 = stop.clone();
        std::thread::spawn(move || {
            for conn in listener.incoming() {
                if stop2.load(Ordering::SeqCst) {
                    return;
                }
                let mut s = match conn {
                    Ok(s) => s,
                    Err(_) => continue,
                };
                let seen = seen2.clone();
                std::thread::spawn(move || {
                    let _ = s.set_nodelay(true);
                    let mut acc: Vec<u8> = Vec::new();
                    let mut buf = [0u8; 1024];
                    loop {
                        let n = match s.read(&mut buf) {
                            Ok(0) | Err(_) => return,
                            Ok(n) => n,
                        };
                        acc.extend_from_slice(&buf[..n]);
                        let (frames, _) = deframe_mbap(&acc);
                        let mut used = 0;
                        for f in frames {
                            used += 7 + f.pdu.len();
                            seen.lock().unwrap().push((f.unit, f.pdu.clone()));
                            let req = match classify_request(&f.pdu) {
                                ReqClass::Valid(r) => r,
                                _ => continue,
                            };
                            let fc = req.kind().fc();
                            let start = req.start();
                            let genuine = match &req {
                                ValidReq::Read { kind, start, count } => match kind {
                                    Kind::ReadCoils | Kind::ReadDiscrete => read_bits_reply(
                                        fc,
                                        &(0..*count).map(|i| peer_bits(*start, i)).collect::<Vec<_>>(),
                                    ),
                                    _ => read_regs_reply(
                                        fc,
                                        &(0..*count).map(|i| peer_reg(*start, i)).collect::<Vec<_>>(),
                                    ),
                                },
                                _ => write_reply(&req),
                            };
                            let reply: Option<Vec<u8>> = match start {
                                SEL_EXCEPTION => Some(mbap_frame(f.tx, f.unit, &[fc | 0x80, f.unit])),
                                SEL_MALFORMED => {
                                    let mut g = genuine.clone();
                                    g.push(0);
                                    Some(mbap_frame(f.tx, f.unit, &g))
                                }
                                SEL_SILENT => None,
                                SEL_CLOSE => return,
                                SEL_BAD_HEADER => Some(mbap_header_raw(f.tx, 7, 3, f.unit)),
                                SEL_OTHER_FC => Some(mbap_frame(f.tx, f.unit, &[0x2B, 1, 2])),
                                _ => Some(mbap_frame(f.tx, f.unit, &genuine)),
                            };
                            if let Some(r) = reply {
                                if s.write_all(&r).is_err() {
                                    return;
                                }
                            }
                        }
                        acc.drain(..used);
                    }
                });
            }
        });
        Peer { port, seen, stop }
    }
}

// ---------------------------------------------------------------------------------------------
// operations

#[derive(Copy, Clone, Debug, PartialEq, Eq)]
pub enum Op {
    ReadCoils,
    ReadDiscrete,
    ReadHolding,
    ReadInput,
    WriteCoil,
    WriteReg,
    WriteCoils,
    WriteRegs,
}

pub const OPS: [Op; 8] = [
    Op::ReadCoils,
    Op::ReadDiscrete,
    Op::ReadHolding,
    Op::ReadInput,
    Op::WriteCoil,
    Op::WriteReg,
    Op::WriteCoils,
    Op::WriteRegs,
];

#[derive(Clone, Debug)]
pub struct Scenario {
    pub op: Op,
    pub unit: u8,
    pub start: u16,
    pub count: u16,
    pub seed: u16,
    pub timeout_ms: u64,
}

fn bits_for(s: &Scenario) -> Vec<bool> {
    (0..s.count).map(|i| (s.seed.wrapping_add(i)) % 2 == 0).collect()
}
fn regs_for(s: &Scenario) -> Vec<u16> {
    (0..s.count).map(|i| s.seed.wrapping_mul(31).wrapping_add(i)).collect()
}

/// name of the ffi::RequestError value that corresponds to a Rust RequestError, derived from the
/// NAMES of the variants (not from rodbus-ffi's conversion code)
pub fn expected_name(e: &RequestError) -> String {
    match e {
        RequestError::Io(_) => "IoError".to_string(),
        RequestError::Exception(x) => {
            let n = format!("{:?}", x);
            let n = n.split('(').next().unwrap().to_string();
            format!("ModbusException{}", n)
        }
        RequestError::BadRequest(_) => "BadRequest".to_string(),
        RequestError::BadFrame(_) => "BadFraming".to_string(),
        RequestError::BadResponse(_) => "BadResponse".to_string(),
        RequestError::Internal(_) => "InternalError".to_string(),
        RequestError::ResponseTimeout => "ResponseTimeout".to_string(),
        RequestError::NoConnection => "NoConnection".to_string(),
        RequestError::Shutdown => "Shutdown".to_string(),
    }
}

async fn rust_run(ch: &Channel, s: &Scenario) -> Got {
    let param = RequestParam::new(UnitId::new(s.unit), Duration::from_millis(s.timeout_ms));
    let range = AddressRange::try_from(s.start, s.count.max(1));
    let conv = |e: RequestError| Got::Err(expected_name(&e));
    match s.op {
        Op::ReadCoils => match ch.read_coils(param, range.unwrap()).await {
            Ok(v) => Got::Bits(v.into_iter().map(|x| (x.index, x.value)).collect()),
            Err(e) => conv(e),
        },
        Op::ReadDiscrete => match ch.read_discrete_inputs(param, range.unwrap()).await {
            Ok(v) => Got::Bits(v.into_iter().map(|x| (x.index, x.value)).collect()),
            Err(e) => conv(e),
        },
        Op::ReadHolding => match ch.read_holding_registers(param, range.unwrap()).await {
            Ok(v) => Got::Regs(v.into_iter().map(|x| (x.index, x.value)).collect()),
            Err(e) => conv(e),
        },
        Op::ReadInput => match ch.read_input_registers(param, range.unwrap()).await {
            Ok(v) => Got::Regs(v.into_iter().map(|x| (x.index, x.value)).collect()),
            Err(e) => conv(e),
        },
        Op::WriteCoil => match ch.write_single_coil(param, Indexed::new(s.start, s.seed % 2 == 0)).await {
            Ok(_) => Got::WriteOk,
            Err(e) => conv(e),
        },
        Op::WriteReg => match ch.write_single_register(param, Indexed::new(s.start, s.seed)).await {
            Ok(_) => Got::WriteOk,
            Err(e) => conv(e),
        },
        Op::WriteCoils => match ch
            .write_multiple_coils(param, WriteMultiple::from(s.start, bits_for(s)).unwrap())
            .await
        {
            Ok(_) => Got::WriteOk,
            Err(e) => conv(e),
        },
        Op::WriteRegs => match ch
            .write_multiple_registers(param, WriteMultiple::from(s.start, regs_for(s)).unwrap())
            .await
        {
            Ok(_) => Got::WriteOk,
            Err(e) => conv(e),
        },
    }
}

/// returns (return code of the call, slot)
pub fn ffi_submit(ch: *mut rodbus_ffi::ClientChannel, s: &Scenario) -> (i32, SlotRef) {
    let slot: SlotRef = Default::default();
    let param = ffi::RequestParam {
        unit_id: s.unit,
        timeout: s.timeout_ms,
    };
    let range = ffi::AddressRange {
        start: s.start,
        count: s.count,
    };
    let rc = unsafe {
        match s.op {
            Op::ReadCoils => ffi::rodbus_client_channel_read_coils(ch, param, range, bit_callback(&slot)),
            Op::ReadDiscrete => ffi::rodbus_client_channel_read_discrete_inputs(ch, param, range, bit_callback(&slot)),
            Op::ReadHolding => ffi::rodbus_client_channel_read_holding_registers(ch, param, range, reg_callback(&slot)),
            Op::ReadInput => ffi::rodbus_client_channel_read_input_registers(ch, param, range, reg_callback(&slot)),
            Op::WriteCoil => ffi::rodbus_client_channel_write_single_coil(
                ch,
                param,
                ffi::BitValue {
                    index: s.start,
                    value: s.seed % 2 == 0,
                },
                write_callback(&slot),
            ),
            Op::WriteReg => ffi::rodbus_client_channel_write_single_register(
                ch,
                param,
                ffi::RegisterValue {
                    index: s.start,
                    value: s.seed,
                },
                write_callback(&slot),
            ),
            Op::WriteCoils => {
                let l = ffi::rodbus_bit_list_create(s.count as u32);
                for b in bits_for(s) {
                    ffi::rodbus_bit_list_add(l, b);
                }
                let rc = ffi::rodbus_client_channel_write_multiple_coils(ch, param, s.start, l, write_callback(&slot));
                ffi::rodbus_bit_list_destroy(l);
                rc
            }
            Op::WriteRegs => {
                let l = ffi::rodbus_register_list_create(s.count as u32);
                for r in regs_for(s) {
                    ffi::rodbus_register_list_add(l, r);
                }
                let rc =
                    ffi::rodbus_client_channel_write_multiple_registers(ch, param, s.start, l, write_callback(&slot));
                ffi::rodbus_register_list_destroy(l);
                rc
            }
        }
    };
    (rc, slot)
}

struct RustStates {
    log: Arc<Mutex<Vec<String>>>,
}
impl Listener<ClientState> for RustStates {
    fn update(&mut self, value: ClientState) -> MaybeAsync<()> {
        let n = format!("{:?}", value);
        self.log
            .lock()
            .unwrap()
            .push(n.split('(').next().unwrap().to_string());
        MaybeAsync::ready(())
    }
}

fn connected_count(log: &Arc<Mutex<Vec<String>>>) -> usize {
    log.lock().unwrap().iter().filter(|s| s.as_str() == "Connected").count()
}

/// wait until the channel has re-established its connection after it was dropped: one more
/// Connected entry than before, and Connected is the latest state
fn wait_reconnected(log: &Arc<Mutex<Vec<String>>>, before: usize, max: Duration) -> bool {
    let t0 = Instant::now();
    loop {
        {
            let g = log.lock().unwrap();
            let n = g.iter().filter(|s| s.as_str() == "Connected").count();
            if n > before && g.last().map(|s| s == "Connected").unwrap_or(false) {
                return true;
            }
        }
        if t0.elapsed() > max {
            return false;
        }
        std::thread::sleep(Duration::from_millis(1));
    }
}

fn wait_state(log: &Arc<Mutex<Vec<String>>>, want: &str, max: Duration) -> bool {
    let t0 = Instant::now();
    loop {
        if log.lock().unwrap().last().map(|s| s == want).unwrap_or(false) {
            return true;
        }
        if t0.elapsed() > max {
            return false;
        }
        std::thread::sleep(Duration::from_millis(1));
    }
}

pub struct FfiClient {
    pub ch: *mut rodbus_ffi::ClientChannel,
    pub states: StateLog,
}

impl FfiClient {
    pub fn create(rt: &FfiRuntime, port: u16, queue: u16, level: ffi::DecodeLevel) -> Result<FfiClient, String> {
        let states: StateLog = Default::default();
        let mut out: *mut rodbus_ffi::ClientChannel = std::ptr::null_mut();
        let host = cstr("127.0.0.1");
        let rc = unsafe {
            ffi::rodbus_client_channel_create_tcp(
                rt.0,
                host.as_ptr(),
                port,
                queue,
                retry_strategy(10, 10),
                level,
                state_listener(&states),
                &mut out,
            )
        };
        if rc != 0 || out.is_null() {
            return Err(format!("rodbus_client_channel_create_tcp returned {}", rc));
        }
        Ok(FfiClient { ch: out, states })
    }
    pub fn enable(&self) -> i32 {
        unsafe { ffi::rodbus_client_channel_enable(self.ch) }
    }
    pub fn destroy(self) {
        unsafe { ffi::rodbus_client_channel_destroy(self.ch) }
    }
}

// ---------------------------------------------------------------------------------------------
// the tables

fn fail(rep: &mut SearchReport, msg: String, case: serde_json::Value) {
    if rep.failure.is_none() {
        rep.failure = Some(Failure {
            message: msg,
            case,
            hang: false,
        });
    }
}

/// Client operations x peer outcomes, Rust API vs C ABI
fn client_table(rep: &mut SearchReport, seed: u64, only: Option<&serde_json::Value>) -> Result<(), String> {
    let peer = Peer::start();
    let rt = crate::net::rt(2);
    let rust_states: Arc<Mutex<Vec<String>>> = Default::default();
    let channel = {
        let _g = rt.enter();
        rodbus::client::spawn_tcp_client_task(
            HostAddr::ip("127.0.0.1".parse().unwrap(), peer.port),
            16,
            rodbus::doubling_retry_strategy(Duration::from_millis(10), Duration::from_millis(10)),
            DecodeLevel::nothing(),
            Some(Box::new(RustStates {
                log: rust_states.clone(),
            })),
        )
    };
    rt.block_on(channel.enable()).map_err(|_| "enable failed")?;
    let frt = FfiRuntime::new(2)?;
    let fc = FfiClient::create(&frt, peer.port, 16, decode_level(0, 0, 0))?;
    if fc.enable() != 0 {
        return Err("rodbus_client_channel_enable failed".to_string());
    }
    let long = Duration::from_secs(5);

    let mut scenarios: Vec<(Scenario, &'static str)> = Vec::new();
    let mut x = seed | 1;
    let mut next = move || {
        x ^= x << 13;
        x ^= x >> 7;
        x ^= x << 17;
        x
    };
    for op in OPS {
        let lim: u16 = match op {
            Op::ReadCoils | Op::ReadDiscrete => 2000,
            Op::ReadHolding | Op::ReadInput => 125,
            Op::WriteCoils => 1968,
            Op::WriteRegs => 123,
            _ => 1,
        };
        // successes with random arguments (pass-through of unit ids, ranges, values)
        for k in 0..12 {
            let count = match k {
                0 => 1,
                1 => lim,
                _ => 1 + (next() as u16 % lim),
            };
            scenarios.push((
                Scenario {
                    op,
                    unit: next() as u8,
                    start: (next() as u16) % 900,
                    count,
                    seed: next() as u16,
                    timeout_ms: 2000,
                },
                "success",
            ));
        }
        // ranges at the top of the address space: the last address is 65535, or close to it
        for k in 0..6u16 {
            let count = match k {
                0 => 1,
                1 => lim,
                2 => 2.min(lim),
                _ => 1 + (next() as u16 % lim),
            };
            let slack = if k < 4 { 0 } else { next() as u16 % 3 };
            scenarios.push((
                Scenario {
                    op,
                    unit: next() as u8,
                    start: (65535 - (count - 1)) - slack,
                    count,
                    seed: next() as u16,
                    timeout_ms: 2000,
                },
                "success_top_of_address_space",
            ));
        }
        // every exception code
        for code in 0..=255u16 {
            scenarios.push((
                Scenario {
                    op,
                    unit: code as u8,
                    start: SEL_EXCEPTION,
                    count: 1,
                    seed: 0,
                    timeout_ms: 2000,
                },
                "exception",
            ));
        }
        for (sel, name) in [
            (SEL_MALFORMED, "malformed"),
            (SEL_OTHER_FC, "other_function"),
            (SEL_SILENT, "silent"),
            (SEL_CLOSE, "close"),
            (SEL_BAD_HEADER, "bad_header"),
        ] {
            scenarios.push((
                Scenario {
                    op,
                    unit: 1,
                    start: sel,
                    count: 1,
                    seed: 2,
                    timeout_ms: if sel == SEL_SILENT { 80 } else { 2000 },
                },
                name,
            ));
        }
    }
    for (i, (s, outcome)) in scenarios.iter().enumerate() {
        if let Some(o) = only {
            if o["index"].as_u64() != Some(i as u64) {
                continue;
            }
        }
        let case = json!({"table": "client", "index": i, "op": format!("{:?}", s.op), "unit": s.unit, "start": s.start, "count": s.count, "outcome": outcome});
        if !wait_state(&rust_states, "Connected", long) || !wait_state(&fc.states, "Connected", long) {
            return Err(format!("INFRA: channels not connected before scenario {}", i));
        }
        let drops_connection = matches!(*outcome, "close" | "bad_header");
        // Rust API
        peer.seen.lock().unwrap().clear();
        let rust_before = connected_count(&rust_states);
        let t0 = Instant::now();
        let mut rust = rt.block_on(rust_run(&channel, s));
        let rust_took = t0.elapsed();
        let mut rust_req = peer.seen.lock().unwrap().clone();
        if drops_connection && !wait_reconnected(&rust_states, rust_before, long) {
            return Err(format!("INFRA: Rust channel did not reconnect after scenario {}", i));
        }
        // C ABI
        peer.seen.lock().unwrap().clear();
        let ffi_before = connected_count(&fc.states);
        let t0 = Instant::now();
        let (rc, mut slot) = ffi_submit(fc.ch, s);
        if rc != 0 {
            fail(rep, format!("scenario {}: C call returned {:?} for a valid request", case, ffi::ParamError::from(rc)), case);
            return Ok(());
        }
        let mut got = wait_slot(&slot, long);
        let ffi_took = t0.elapsed();
        let mut ffi_req = peer.seen.lock().unwrap().clone();
        if drops_connection && !wait_reconnected(&fc.states, ffi_before, long) {
            return Err(format!("INFRA: C-ABI channel did not reconnect after scenario {}", i));
        }
        // real time: a disagreement is re-examined once after both channels are known to be
        // connected (a reconnect in progress makes one side answer NoConnection)
        if got.len() == 1 && (got[0] != rust || rust_req != ffi_req) {
            std::thread::sleep(Duration::from_millis(100));
            wait_state(&rust_states, "Connected", long);
            wait_state(&fc.states, "Connected", long);
            let rb = connected_count(&rust_states);
            peer.seen.lock().unwrap().clear();
            rust = rt.block_on(rust_run(&channel, s));
            rust_req = peer.seen.lock().unwrap().clone();
            if drops_connection {
                wait_reconnected(&rust_states, rb, long);
            }
            let fb = connected_count(&fc.states);
            peer.seen.lock().unwrap().clear();
            let (rc2, slot2) = ffi_submit(fc.ch, s);
            if rc2 == 0 {
                got = wait_slot(&slot2, long);
                slot = slot2;
            }
            ffi_req = peer.seen.lock().unwrap().clone();
            if drops_connection {
                wait_reconnected(&fc.states, fb, long);
            }
            *rep.stats.labels.entry("flaky:scenario_rerun".to_string()).or_insert(0) += 1;
        }
        rep.stats.evaluations += 1;
        if got.len() != 1 {
            fail(rep, format!("scenario {}: completion callback fired {} times", case, got.len()), case);
            return Ok(());
        }
        // give a late second invocation a chance to show up
        if i % 64 == 0 {
            std::thread::sleep(Duration::from_millis(20));
            let n = slot.lock().unwrap().completions.len();
            if n != 1 {
                fail(rep, format!("scenario {}: completion callback fired {} times", case, n), case);
                return Ok(());
            }
        }
        if got[0] != rust {
            fail(
                rep,
                format!("scenario {}: Rust API gives {:?}, the C ABI reports {:?}", case, short(&rust), short(&got[0])),
                case,
            );
            return Ok(());
        }
        if rust_req != ffi_req {
            fail(
                rep,
                format!(
                    "scenario {}: the request on the wire differs: Rust API {:?}, C ABI {:?}",
                    case,
                    rust_req.first().map(|r| (r.0, r.1.len())),
                    ffi_req.first().map(|r| (r.0, r.1.len()))
                ),
                case,
            );
            return Ok(());
        }
        if *outcome == "silent" {
            // timeouts pass through unchanged: both APIs wait for the configured time
            for (who, took) in [("Rust API", rust_took), ("C ABI", ffi_took)] {
                if took < Duration::from_millis(s.timeout_ms) || took > Duration::from_millis(s.timeout_ms + 1500) {
                    fail(rep, format!("scenario {}: {} timed out after {:?}, configured {} ms", case, who, took, s.timeout_ms), case.clone());
                    return Ok(());
                }
            }
        }
        if *outcome != "success" {
            rep.stats.nontrivial_total += 1;
            rep.stats.distinct.insert(crate::runner::hash_of(&format!("{}", case)));
            if rep.stats.samples.len() < 3 && i % 97 == 5 {
                rep.stats.samples.push(case);
            }
        }
    }
    *rep.stats.labels.entry("client_scenarios".to_string()).or_insert(0) += scenarios.len() as u64;
    if only.is_none() || only.map(|o| o["index"] == "lists").unwrap_or(false) {
        if !wait_state(&rust_states, "Connected", long) || !wait_state(&fc.states, "Connected", long) {
            return Err("INFRA: channels not connected before the list histories".to_string());
        }
        if let Some((msg, case)) = list_histories(&rt, &channel, &fc, &peer, &mut next, rep) {
            fail(rep, msg, case);
            return Ok(());
        }
    }
    // connection states by name: what the C listener saw must be what the Rust listener saw, as
    // a set of names and with the same first three states
    let a = rust_states.lock().unwrap().clone();
    let b = fc.states.lock().unwrap().clone();
    if a.iter().take(3).collect::<Vec<_>>() != b.iter().take(3).collect::<Vec<_>>() {
        fail(rep, format!("connection states differ: Rust listener {:?}, C listener {:?}", &a[..a.len().min(6)], &b[..b.len().min(6)]), json!({"table": "client", "index": "states"}));
    }
    for want in ["Disabled", "Connecting", "Connected", "WaitAfterDisconnect"] {
        if a.iter().any(|s| s == want) != b.iter().any(|s| s == want) {
            fail(rep, format!("connection state {} seen by one listener only (Rust {:?} / C {:?})", want, a.iter().any(|s| s == want), b.iter().any(|s| s == want)), json!({"table": "client", "index": "states"}));
        }
    }
    fc.destroy();
    Ok(())
}

/// A BitList / RegisterList belongs to the caller: a write sends a copy of what the list holds at
/// that moment. Histories of add / write on ONE list object, every write compared on the wire
/// with the Rust API given the same values.
fn list_histories(
    rt: &tokio::runtime::Runtime,
    channel: &Channel,
    fc: &FfiClient,
    peer: &Peer,
    next: &mut dyn FnMut() -> u64,
    rep: &mut SearchReport,
) -> Option<(String, serde_json::Value)> {
    let long = Duration::from_secs(5);
    let mk_param = || ffi::RequestParam {
        unit_id: 7,
        timeout: 2000,
    };
    let rparam = RequestParam::new(UnitId::new(7), Duration::from_millis(2000));
    for h in 0..24u32 {
        let regs = h % 2 == 1;
        let cap = (next() % 5) as u32;
        let (bl, rl) = unsafe {
            if regs {
                (std::ptr::null_mut(), ffi::rodbus_register_list_create(cap))
            } else {
                (ffi::rodbus_bit_list_create(cap), std::ptr::null_mut())
            }
        };
        let mut model: Vec<u16> = Vec::new();
        let mut writes = 0;
        let mut history: Vec<String> = Vec::new();
        let steps = 3 + (next() % 4) as usize;
        let mut failure: Option<String> = None;
        for step in 0..steps {
            // add a few values (none on some steps: the same content is written twice)
            let adds = if step == 0 { 1 + next() % 20 } else { next() % 4 } as usize;
            for _ in 0..adds {
                let v = next() as u16;
                unsafe {
                    if regs {
                        ffi::rodbus_register_list_add(rl, v);
                    } else {
                        ffi::rodbus_bit_list_add(bl, v % 2 == 1);
                    }
                }
                model.push(if regs { v } else { v % 2 });
            }
            history.push(format!("add x{}", adds));
            let start = (next() % 500) as u16;
            history.push(format!("write @{}", start));
            // Rust API with the values the list is known to hold
            peer.seen.lock().unwrap().clear();
            let rust = rt.block_on(async {
                if regs {
                    channel
                        .write_multiple_registers(rparam, WriteMultiple::from(start, model.clone()).unwrap())
                        .await
                        .map(|_| ())
                } else {
                    channel
                        .write_multiple_coils(
                            rparam,
                            WriteMultiple::from(start, model.iter().map(|x| *x == 1).collect()).unwrap(),
                        )
                        .await
                        .map(|_| ())
                }
            });
            let rust_req = peer.seen.lock().unwrap().clone();
            peer.seen.lock().unwrap().clear();
            let slot: SlotRef = Default::default();
            let rc = unsafe {
                if regs {
                    ffi::rodbus_client_channel_write_multiple_registers(fc.ch, mk_param(), start, rl, write_callback(&slot))
                } else {
                    ffi::rodbus_client_channel_write_multiple_coils(fc.ch, mk_param(), start, bl, write_callback(&slot))
                }
            };
            let got = if rc == 0 { wait_slot(&slot, long) } else { vec![] };
            let ffi_req = peer.seen.lock().unwrap().clone();
            rep.stats.evaluations += 1;
            writes += 1;
            let rust_got = match rust {
                Ok(()) => Got::WriteOk,
                Err(e) => Got::Err(expected_name(&e)),
            };
            if rc != 0 {
                failure = Some(format!(
                    "write {} of the same list ({} values held): the C call returned {:?}, the Rust API with the same values gives {:?}",
                    writes,
                    model.len(),
                    ffi::ParamError::from(rc),
                    short(&rust_got)
                ));
                break;
            }
            if got.len() != 1 || got[0] != rust_got || ffi_req != rust_req {
                failure = Some(format!(
                    "write {} of the same list ({} values held): Rust API {:?} with request {:?}, C ABI {:?} with request {:?}",
                    writes,
                    model.len(),
                    short(&rust_got),
                    rust_req.first().map(|r| (r.0, r.1.len())),
                    got.first().map(short),
                    ffi_req.first().map(|r| (r.0, r.1.len()))
                ));
                break;
            }
        }
        unsafe {
            if regs {
                ffi::rodbus_register_list_destroy(rl);
            } else {
                ffi::rodbus_bit_list_destroy(bl);
            }
        }
        let case = json!({"table": "client", "index": "lists", "kind": if regs {"registers"} else {"bits"}, "capacity": cap, "history": history});
        if let Some(f) = failure {
            return Some((format!("list history {}: {}", case, f), case));
        }
        rep.stats.nontrivial_total += 1;
        rep.stats.distinct.insert(crate::runner::hash_of(&format!("{}", case)));
        *rep.stats.labels.entry("list_histories".to_string()).or_insert(0) += 1;
    }
    None
}

fn short(g: &Got) -> String {
    match g {
        Got::Bits(v) => format!("Bits(n={}, first={:?})", v.len(), v.first()),
        Got::Regs(v) => format!("Regs(n={}, first={:?})", v.len(), v.first()),
        other => format!("{:?}", other),
    }
}

/// not connected, queue full, shutdown: call result + exactly one callback
fn client_conditions(rep: &mut SearchReport) -> Result<(), String> {
    let long = Duration::from_secs(5);
    // ---- not connected: a port nobody listens on
    {
        let frt = FfiRuntime::new(2)?;
        let port = free_port();
        let fc = FfiClient::create(&frt, port, 16, decode_level(0, 0, 0))?;
        fc.enable();
        for op in OPS {
            let s = Scenario { op, unit: 1, start: 1, count: 1, seed: 0, timeout_ms: 1000 };
            let (rc, slot) = ffi_submit(fc.ch, &s);
            let got = wait_slot(&slot, long);
            rep.stats.evaluations += 1;
            let case = json!({"table": "conditions", "what": "not_connected", "op": format!("{:?}", op)});
            if rc != 0 || got != vec![Got::Err("NoConnection".to_string())] {
                fail(rep, format!("{}: call returned {}, callback got {:?}; expected one NoConnection", case, rc, got), case);
                return Ok(());
            }
            rep.stats.nontrivial_total += 1;
            rep.stats.distinct.insert(crate::runner::hash_of(&format!("{}", case)));
        }
        if !fc.states.lock().unwrap().iter().any(|s| s == "WaitAfterFailedConnect") {
            fail(rep, format!("C listener never saw WaitAfterFailedConnect on a refused connection: {:?}", fc.states.lock().unwrap()), json!({"table": "conditions", "what": "states_refused"}));
        }
        fc.destroy();
    }
    // ---- queue full: capacity 1, silent peer
    {
        let peer = Peer::start();
        let frt = FfiRuntime::new(2)?;
        let fc = FfiClient::create(&frt, peer.port, 1, decode_level(0, 0, 0))?;
        fc.enable();
        if !wait_state(&fc.states, "Connected", long) {
            return Err("INFRA: not connected".to_string());
        }
        for op in OPS {
            let hold = Scenario { op, unit: 1, start: SEL_SILENT, count: 1, seed: 0, timeout_ms: 300 };
            let (rc1, s1) = ffi_submit(fc.ch, &hold);
            // wait until the first request has been taken from the queue (it is on the wire)
            let t0 = Instant::now();
            while peer.seen.lock().unwrap().is_empty() && t0.elapsed() < long {
                std::thread::sleep(Duration::from_millis(1));
            }
            let (rc2, s2) = ffi_submit(fc.ch, &hold);
            let (rc3, s3) = ffi_submit(fc.ch, &hold);
            let case = json!({"table": "conditions", "what": "queue_full", "op": format!("{:?}", op)});
            rep.stats.evaluations += 1;
            let full: i32 = ffi::ParamError::TooManyRequests.into();
            if rc1 != 0 || rc2 != 0 || rc3 != full {
                fail(rep, format!("{}: return codes {} {} {}, expected 0 0 TooManyRequests", case, rc1, rc2, rc3), case);
                return Ok(());
            }
            // the refused call's callback must fire exactly once
            let g3 = wait_slot(&s3, long);
            let g1 = wait_slot(&s1, long);
            let g2 = wait_slot(&s2, long);
            std::thread::sleep(Duration::from_millis(20));
            for (name, s, g) in [("first", &s1, &g1), ("second", &s2, &g2), ("refused third", &s3, &g3)] {
                let n = s.lock().unwrap().completions.len();
                if n != 1 {
                    fail(rep, format!("{}: completion callback of the {} request fired {} times ({:?})", case, name, n, g), case.clone());
                    return Ok(());
                }
            }
            if g1 != vec![Got::Err("ResponseTimeout".to_string())] || g2 != vec![Got::Err("ResponseTimeout".to_string())] {
                fail(rep, format!("{}: queued requests got {:?} / {:?}, expected timeouts", case, g1, g2), case);
                return Ok(());
            }
            peer.seen.lock().unwrap().clear();
            rep.stats.nontrivial_total += 1;
            rep.stats.distinct.insert(crate::runner::hash_of(&format!("{}", case)));
        }
        fc.destroy();
    }
    // ---- arguments the call itself rejects: the completion callback still fires exactly once
    {
        let peer = Peer::start();
        let frt = FfiRuntime::new(2)?;
        let fc = FfiClient::create(&frt, peer.port, 4, decode_level(0, 0, 0))?;
        fc.enable();
        if !wait_state(&fc.states, "Connected", long) {
            return Err("INFRA: not connected".to_string());
        }
        // (what, op, start, count)
        let rows: [(&str, Op, u16, u16); 12] = [
            ("count_zero", Op::ReadCoils, 0, 0),
            ("count_zero", Op::ReadDiscrete, 0, 0),
            ("count_zero", Op::ReadHolding, 0, 0),
            ("count_zero", Op::ReadInput, 0, 0),
            ("range_past_65535", Op::ReadCoils, 65535, 2),
            ("range_past_65535", Op::ReadDiscrete, 65535, 2),
            ("range_past_65535", Op::ReadHolding, 65535, 2),
            ("range_past_65535", Op::ReadInput, 65530, 100),
            ("empty_list", Op::WriteCoils, 5, 0),
            ("empty_list", Op::WriteRegs, 5, 0),
            ("range_past_65535", Op::WriteCoils, 65535, 2),
            ("range_past_65535", Op::WriteRegs, 65535, 2),
        ];
        for (what, op, start, count) in rows {
            let sc = Scenario { op, unit: 1, start, count, seed: 3, timeout_ms: 500 };
            peer.seen.lock().unwrap().clear();
            let (rc, slot) = ffi_submit(fc.ch, &sc);
            let got = wait_slot(&slot, Duration::from_millis(600));
            std::thread::sleep(Duration::from_millis(5));
            let n = slot.lock().unwrap().completions.len();
            let sent = peer.seen.lock().unwrap().len();
            let case = json!({"table": "conditions", "what": what, "op": format!("{:?}", op), "start": start, "count": count});
            rep.stats.evaluations += 1;
            if rc == 0 {
                fail(rep, format!("{}: the call accepted arguments the Rust API rejects", case), case);
                return Ok(());
            }
            if sent != 0 {
                fail(rep, format!("{}: the call reported {:?} but a request was transmitted", case, ffi::ParamError::from(rc)), case);
                return Ok(());
            }
            if n != 1 {
                fail(
                    rep,
                    format!(
                        "{}: the call reported {:?}; its completion callback fired {} times ({:?}), expected exactly once",
                        case,
                        ffi::ParamError::from(rc),
                        n,
                        got
                    ),
                    case,
                );
                return Ok(());
            }
            rep.stats.nontrivial_total += 1;
            rep.stats.distinct.insert(crate::runner::hash_of(&format!("{}", case)));
        }
        // null pointers: list and channel
        for (what, null_channel) in [("null_list", false), ("null_channel", true)] {
            for regs in [false, true] {
                let slot: SlotRef = Default::default();
                let param = ffi::RequestParam { unit_id: 1, timeout: 500 };
                let ch = if null_channel { std::ptr::null_mut() } else { fc.ch };
                let rc = unsafe {
                    if regs {
                        let l = if null_channel { ffi::rodbus_register_list_create(1) } else { std::ptr::null_mut() };
                        let rc = ffi::rodbus_client_channel_write_multiple_registers(ch, param, 1, l, write_callback(&slot));
                        if !l.is_null() {
                            ffi::rodbus_register_list_destroy(l);
                        }
                        rc
                    } else {
                        let l = if null_channel { ffi::rodbus_bit_list_create(1) } else { std::ptr::null_mut() };
                        let rc = ffi::rodbus_client_channel_write_multiple_coils(ch, param, 1, l, write_callback(&slot));
                        if !l.is_null() {
                            ffi::rodbus_bit_list_destroy(l);
                        }
                        rc
                    }
                };
                let got = wait_slot(&slot, Duration::from_millis(300));
                let n = slot.lock().unwrap().completions.len();
                let case = json!({"table": "conditions", "what": what, "op": if regs { "WriteRegs" } else { "WriteCoils" }});
                rep.stats.evaluations += 1;
                if rc == 0 || n != 1 {
                    fail(
                        rep,
                        format!("{}: the call returned {:?}; its completion callback fired {} times ({:?}), expected an error and exactly one completion", case, ffi::ParamError::from(rc), n, got),
                        case,
                    );
                    return Ok(());
                }
                rep.stats.nontrivial_total += 1;
                rep.stats.distinct.insert(crate::runner::hash_of(&format!("{}", case)));
            }
        }
        fc.destroy();
    }
    // ---- shutdown: runtime destroyed, then calls on the orphaned channel
    {
        let peer = Peer::start();
        let frt = FfiRuntime::new(2)?;
        let fc = FfiClient::create(&frt, peer.port, 4, decode_level(0, 0, 0))?;
        fc.enable();
        if !wait_state(&fc.states, "Connected", long) {
            return Err("INFRA: not connected".to_string());
        }
        drop(frt);
        std::thread::sleep(Duration::from_millis(50));
        for op in OPS {
            let s = Scenario { op, unit: 1, start: 1, count: 1, seed: 0, timeout_ms: 1000 };
            let (rc, slot) = ffi_submit(fc.ch, &s);
            let got = wait_slot(&slot, long);
            std::thread::sleep(Duration::from_millis(5));
            let n = slot.lock().unwrap().completions.len();
            let case = json!({"table": "conditions", "what": "runtime_destroyed", "op": format!("{:?}", op)});
            rep.stats.evaluations += 1;
            let shut: i32 = ffi::ParamError::Shutdown.into();
            if rc != shut {
                fail(rep, format!("{}: call returned {:?}, expected Shutdown", case, ffi::ParamError::from(rc)), case);
                return Ok(());
            }
            if n != 1 || got != vec![Got::Err("Shutdown".to_string())] {
                fail(rep, format!("{}: completion callback fired {} times with {:?}, expected exactly one Shutdown", case, n, got), case);
                return Ok(());
            }
            rep.stats.nontrivial_total += 1;
            rep.stats.distinct.insert(crate::runner::hash_of(&format!("{}", case)));
        }
        if fc.states.lock().unwrap().last().map(|s| s.as_str()) != Some("Shutdown") {
            // the task was cancelled with the runtime; a Shutdown notification is not required
        }
        fc.destroy();
    }
    Ok(())
}

// ---------------------------------------------------------------------------------------------
// server side: write callbacks

const STANDARD: [(ffi::ModbusException, u8); 9] = [
    (ffi::ModbusException::IllegalFunction, 1),
    (ffi::ModbusException::IllegalDataAddress, 2),
    (ffi::ModbusException::IllegalDataValue, 3),
    (ffi::ModbusException::ServerDeviceFailure, 4),
    (ffi::ModbusException::Acknowledge, 5),
    (ffi::ModbusException::ServerDeviceBusy, 6),
    (ffi::ModbusException::MemoryParityError, 8),
    (ffi::ModbusException::GatewayPathUnavailable, 10),
    (ffi::ModbusException::GatewayTargetDeviceFailedToRespond, 11),
];

/// the WriteResult the callbacks return for a selector (the index / start address)
fn result_for(sel: u16) -> ffi::WriteResult {
    if sel == 0 {
        ffi::WriteResultFields {
            success: true,
            exception: ffi::ModbusException::Unknown,
            raw_exception: 0,
        }
        .into()
    } else if (1..=9).contains(&sel) {
        ffi::WriteResultFields {
            success: false,
            exception: STANDARD[sel as usize - 1].0,
            raw_exception: 0,
        }
        .into()
    } else {
        ffi::WriteResultFields {
            success: false,
            exception: ffi::ModbusException::Unknown,
            raw_exception: (sel - 1000) as u8,
        }
        .into()
    }
}

/// what the client must receive for the selector: None = echo
fn expected_code(sel: u16) -> Option<u8> {
    if sel == 0 {
        None
    } else if (1..=9).contains(&sel) {
        Some(STANDARD[sel as usize - 1].1)
    } else {
        Some((sel - 1000) as u8)
    }
}

#[derive(Default)]
struct ServerSeen {
    calls: Vec<String>,
}

extern "C" fn h_write_single_coil(index: u16, value: bool, _db: *mut rodbus_ffi::Database, ctx: *mut c_void) -> ffi::WriteResult {
    unsafe {
        (*(ctx as *const Mutex<ServerSeen>)).lock().unwrap().calls.push(format!("coil {} {}", index, value));
    }
    result_for(index)
}
extern "C" fn h_write_single_register(index: u16, value: u16, _db: *mut rodbus_ffi::Database, ctx: *mut c_void) -> ffi::WriteResult {
    unsafe {
        (*(ctx as *const Mutex<ServerSeen>)).lock().unwrap().calls.push(format!("reg {} {}", index, value));
    }
    result_for(index)
}
extern "C" fn h_write_multiple_coils(start: u16, it: *mut rodbus_ffi::BitValueIterator<'_>, _db: *mut rodbus_ffi::Database, ctx: *mut c_void) -> ffi::WriteResult {
    let mut v = Vec::new();
    unsafe {
        loop {
            let p = ffi::rodbus_bit_value_iterator_next(it);
            if p.is_null() {
                break;
            }
            v.push(((*p).index, (*p).value));
        }
        (*(ctx as *const Mutex<ServerSeen>)).lock().unwrap().calls.push(format!("coils {} {:?}", start, v));
    }
    result_for(start)
}
extern "C" fn h_write_multiple_registers(start: u16, it: *mut rodbus_ffi::RegisterValueIterator<'_>, _db: *mut rodbus_ffi::Database, ctx: *mut c_void) -> ffi::WriteResult {
    let mut v = Vec::new();
    unsafe {
        loop {
            let p = ffi::rodbus_register_value_iterator_next(it);
            if p.is_null() {
                break;
            }
            v.push(((*p).index, (*p).value));
        }
        (*(ctx as *const Mutex<ServerSeen>)).lock().unwrap().calls.push(format!("regs {} {:?}", start, v));
    }
    result_for(start)
}
extern "C" fn h_destroy(_ctx: *mut c_void) {}
extern "C" fn db_configure(db: *mut rodbus_ffi::Database, _ctx: *mut c_void) {
    unsafe {
        for i in 0..10 {
            ffi::rodbus_database_add_holding_register(db, i, 100 + i);
            ffi::rodbus_database_add_coil(db, i, i % 2 == 0);
        }
    }
}

pub struct FfiServer {
    pub server: *mut rodbus_ffi::Server,
    pub port: u16,
    seen: Arc<Mutex<ServerSeen>>,
}

impl FfiServer {
    pub fn create(rt: &FfiRuntime, level: ffi::DecodeLevel) -> Result<FfiServer, String> {
        Self::create_with(rt, level, 8)
    }
    pub fn create_with(rt: &FfiRuntime, level: ffi::DecodeLevel, max_sessions: u16) -> Result<FfiServer, String> {
        let seen: Arc<Mutex<ServerSeen>> = Default::default();
        unsafe {
            let map = ffi::rodbus_device_map_create();
            let handler = ffi::WriteHandler {
                write_single_coil: Some(h_write_single_coil),
                write_single_register: Some(h_write_single_register),
                write_multiple_coils: Some(h_write_multiple_coils),
                write_multiple_registers: Some(h_write_multiple_registers),
                on_destroy: Some(h_destroy),
                ctx: Arc::into_raw(seen.clone()) as *mut c_void,
            };
            let cfg = ffi::DatabaseCallback {
                callback: Some(db_configure),
                on_destroy: Some(h_destroy),
                ctx: std::ptr::null_mut(),
            };
            if !ffi::rodbus_device_map_add_endpoint(map, 1, handler, cfg) {
                return Err("device_map_add_endpoint failed".to_string());
            }
            let filter = ffi::rodbus_address_filter_any();
            let port = free_port();
            let mut out: *mut rodbus_ffi::Server = std::ptr::null_mut();
            let ip = cstr("127.0.0.1");
            let rc = ffi::rodbus_server_create_tcp(rt.0, ip.as_ptr(), port, filter, max_sessions, map, level, &mut out);
            ffi::rodbus_address_filter_destroy(filter);
            ffi::rodbus_device_map_destroy(map);
            if rc != 0 || out.is_null() {
                return Err(format!("INFRA: rodbus_server_create_tcp returned {}", rc));
            }
            Ok(FfiServer {
                server: out,
                port,
                seen,
            })
        }
    }
    pub fn destroy(self) {
        unsafe { ffi::rodbus_server_destroy(self.server) }
    }
}

fn roundtrip(s: &mut TcpStream, tx: u16, unit: u8, pdu: &[u8]) -> Result<Vec<u8>, String> {
    s.write_all(&mbap_frame(tx, unit, pdu)).map_err(|e| e.to_string())?;
    let mut acc = Vec::new();
    let mut buf = [0u8; 512];
    s.set_read_timeout(Some(Duration::from_secs(3))).ok();
    loop {
        let n = s.read(&mut buf).map_err(|e| format!("no reply: {}", e))?;
        if n == 0 {
            return Err("connection closed".to_string());
        }
        acc.extend_from_slice(&buf[..n]);
        let (frames, _) = deframe_mbap(&acc);
        if let Some(f) = frames.first() {
            if f.tx != tx || f.unit != unit {
                return Err(format!("reply header mismatch tx {} unit {}", f.tx, f.unit));
            }
            return Ok(f.pdu.clone());
        }
    }
}

/// max_sessions passes through the C ABI unchanged: with n sessions allowed, the (n+1)-th
/// connection closes the first one and nothing else (what the Rust API does, C15)
fn max_sessions_passthrough(rep: &mut SearchReport) -> Result<(), String> {
    let frt = FfiRuntime::new(2)?;
    for n in [1u16, 2, 3, 5] {
        let case = json!({"table": "server_max_sessions", "max_sessions": n});
        let srv = FfiServer::create_with(&frt, decode_level(0, 0, 0), n)?;
        let mut conns: Vec<TcpStream> = Vec::new();
        for _ in 0..=n {
            let s = TcpStream::connect(("127.0.0.1", srv.port)).map_err(|e| format!("INFRA: connect {}", e))?;
            s.set_nodelay(true).ok();
            conns.push(s);
            std::thread::sleep(Duration::from_millis(30));
        }
        rep.stats.evaluations += 1;
        let mut verdict = None;
        for (i, c) in conns.iter_mut().enumerate() {
            let r = roundtrip(c, 100 + i as u16, 1, &[3, 0, 0, 0, 1]);
            let alive = r.is_ok();
            let expect_alive = i != 0;
            if alive != expect_alive {
                verdict = Some(format!(
                    "{} sessions allowed, {} connections made: connection {} is {} ({:?})",
                    n,
                    n + 1,
                    i,
                    if alive { "still served" } else { "not served" },
                    r.err()
                ));
                break;
            }
        }
        srv.destroy();
        if let Some(v) = verdict {
            fail(rep, format!("{}: {}", case, v), case);
            return Ok(());
        }
        rep.stats.nontrivial_total += 1;
        rep.stats.distinct.insert(crate::runner::hash_of(&format!("{}", case)));
    }
    Ok(())
}

fn server_table(rep: &mut SearchReport) -> Result<(), String> {
    let frt = FfiRuntime::new(2)?;
    let srv = FfiServer::create(&frt, decode_level(0, 0, 0))?;
    let mut s = TcpStream::connect(("127.0.0.1", srv.port)).map_err(|e| format!("INFRA: connect {}", e))?;
    s.set_nodelay(true).ok();
    let mut sels: Vec<u16> = (0..=9).collect();
    for raw in 0..=255u16 {
        sels.push(1000 + raw);
    }
    let mut tx = 0u16;
    for fc in [5u8, 6, 15, 16] {
        for sel in &sels {
            tx = tx.wrapping_add(1);
            let pdu: Vec<u8> = match fc {
                5 => vec![5, (sel >> 8) as u8, *sel as u8, 0xFF, 0x00],
                6 => vec![6, (sel >> 8) as u8, *sel as u8, 0x12, 0x34],
                15 => vec![15, (sel >> 8) as u8, *sel as u8, 0, 3, 1, 0b101],
                _ => vec![16, (sel >> 8) as u8, *sel as u8, 0, 2, 4, 0xCA, 0xFE, 0xBB, 0xDD],
            };
            let case = json!({"table": "server_write_results", "function": fc, "selector": sel});
            let reply = roundtrip(&mut s, tx, 1, &pdu).map_err(|e| format!("INFRA: {} ({})", e, case))?;
            rep.stats.evaluations += 1;
            let expected = match expected_code(*sel) {
                None => match fc {
                    5 | 6 => pdu.clone(),
                    _ => pdu[..5].to_vec(),
                },
                Some(code) => vec![fc | 0x80, code],
            };
            if reply != expected {
                fail(
                    rep,
                    format!(
                        "write callback returned {} for function {:#04x}: client received {:02X?}, expected {:02X?}",
                        describe_sel(*sel),
                        fc,
                        reply,
                        expected
                    ),
                    case,
                );
                return Ok(());
            }
            if *sel != 0 {
                rep.stats.nontrivial_total += 1;
                rep.stats.distinct.insert(crate::runner::hash_of(&format!("{}", case)));
                if rep.stats.samples.len() < 5 && *sel == 1003 {
                    rep.stats.samples.push(case);
                }
            }
        }
    }
    // values reach the callbacks unchanged
    let calls = srv.seen.lock().unwrap().calls.clone();
    for want in ["coil 0 true", "reg 0 4660", "coils 0 [(0, true), (1, false), (2, true)]", "regs 0 [(0, 51966), (1, 48093)]"] {
        if !calls.iter().any(|c| c == want) {
            fail(rep, format!("write callback never saw '{}' (saw e.g. {:?})", want, &calls[..calls.len().min(3)]), json!({"table": "server_write_results", "what": "arguments"}));
        }
    }
    drop(s);
    srv.destroy();
    Ok(())
}

fn describe_sel(sel: u16) -> String {
    if sel == 0 {
        "success".to_string()
    } else if sel <= 9 {
        format!("exception {:?}", STANDARD[sel as usize - 1].0)
    } else {
        format!("raw exception {}", sel - 1000)
    }
}

// ---------------------------------------------------------------------------------------------
// decode levels by name: log classes produced by the C ABI server / client equal those of the
// Rust API at the same-named level

fn log_classes(text: &str) -> Vec<String> {
    // the events of interest start with one of these markers; keep the marker and the first line
    let mut out = Vec::new();
    for marker in ["PHYS RX", "PHYS TX", "MBAP RX", "MBAP TX", "PDU RX", "PDU TX"] {
        let mut rest = text;
        while let Some(i) = rest.find(marker) {
            let tail = &rest[i..];
            // an event's text runs until the next log record (a line starting with a level)
            let mut end = tail.len();
            for lvl in ["\n INFO", "\n WARN", "\nDEBUG", "\nTRACE", "\nERROR", "\n  INFO", "\n  WARN"] {
                if let Some(j) = tail.find(lvl) {
                    end = end.min(j);
                }
            }
            out.push(tail[..end].trim_end().to_string());
            rest = &rest[i + marker.len()..];
        }
    }
    out.sort();
    out
}

struct Plain;
impl rodbus::server::RequestHandler for Plain {
    fn read_holding_register(&self, address: u16) -> Result<u16, rodbus::ExceptionCode> {
        if address < 10 {
            Ok(100 + address)
        } else {
            Err(rodbus::ExceptionCode::IllegalDataAddress)
        }
    }
}

fn decode_table(rep: &mut SearchReport) -> Result<(), String> {
    let rt = crate::net::rt(2);
    for app in 0..4u8 {
        for frame in 0..3u8 {
            for phys in 0..3u8 {
                let case = json!({"table": "decode_levels", "app": app, "frame": frame, "phys": phys});
                let rust_level = crate::simsrv::Decode { app, frame, phys }.to_rodbus();
                // ---- Rust API server
                let listener = rt
                    .block_on(tokio::net::TcpListener::bind("127.0.0.1:0"))
                    .map_err(|e| format!("INFRA: {}", e))?;
                let port = listener.local_addr().unwrap().port();
                let (handle, task) = rodbus::server::create_tcp_server_task(
                    2,
                    listener,
                    rodbus::server::ServerHandlerMap::single(UnitId::new(1), rodbus::server::RequestHandler::wrap(Plain)),
                    rodbus::server::AddressFilter::Any,
                    rust_level,
                );
                let join = rt.spawn(task.run());
                crate::trace::capture_global(true);
                {
                    let mut s = TcpStream::connect(("127.0.0.1", port)).map_err(|e| format!("INFRA: {}", e))?;
                    roundtrip(&mut s, 1, 1, &[3, 0, 0, 0, 2]).map_err(|e| format!("INFRA: {}", e))?;
                }
                std::thread::sleep(Duration::from_millis(15));
                let rust_log = crate::trace::take_global();
                crate::trace::capture_global(false);
                drop(handle);
                let _ = rt.block_on(async { tokio::time::timeout(Duration::from_secs(2), join).await });
                // ---- C ABI server at the same-named level
                let frt = FfiRuntime::new(1)?;
                let srv = FfiServer::create(&frt, decode_level(app, frame, phys))?;
                crate::trace::capture_global(true);
                {
                    let mut s = TcpStream::connect(("127.0.0.1", srv.port)).map_err(|e| format!("INFRA: {}", e))?;
                    roundtrip(&mut s, 1, 1, &[3, 0, 0, 0, 2]).map_err(|e| format!("INFRA: {}", e))?;
                }
                std::thread::sleep(Duration::from_millis(15));
                let ffi_log = crate::trace::take_global();
                crate::trace::capture_global(false);
                srv.destroy();
                drop(frt);
                rep.stats.evaluations += 1;
                let a = log_classes(&rust_log);
                let b = log_classes(&ffi_log);
                if a != b {
                    fail(
                        rep,
                        format!(
                            "decode level {}: the Rust API server logs {:?}, the C ABI server at the same-named level logs {:?}",
                            case, a, b
                        ),
                        case,
                    );
                    return Ok(());
                }
                if app + frame + phys > 0 {
                    if a.is_empty() {
                        fail(rep, format!("harness: no decode output captured at level {}", case), case);
                        return Ok(());
                    }
                    rep.stats.nontrivial_total += 1;
                    rep.stats.distinct.insert(crate::runner::hash_of(&format!("{}", case)));
                }
            }
        }
    }
    Ok(())
}

// ---------------------------------------------------------------------------------------------
// configuration pass-through: retry strategy (timing of reconnect attempts) and serial settings
// (termios of a pty opened through the C ABI vs. through the Rust API with same-named values)

extern "C" fn timed_state_change(state: c_int, ctx: *mut c_void) {
    unsafe {
        let p = ctx as *const Mutex<Vec<(Instant, i32)>>;
        if let Ok(mut g) = (*p).lock() {
            g.push((Instant::now(), state));
        }
    }
}

fn retry_passthrough(rep: &mut SearchReport) -> Result<(), String> {
    let frt = FfiRuntime::new(2)?;
    let port = free_port();
    let log: Arc<Mutex<Vec<(Instant, i32)>>> = Default::default();
    let listener = ffi::ClientStateListener {
        on_change: Some(timed_state_change),
        on_destroy: Some(h_destroy),
        ctx: Arc::into_raw(log.clone()) as *mut c_void,
    };
    let mut out: *mut rodbus_ffi::ClientChannel = std::ptr::null_mut();
    let host = cstr("127.0.0.1");
    let (min_ms, max_ms) = (40u64, 130u64);
    let rc = unsafe {
        ffi::rodbus_client_channel_create_tcp(frt.0, host.as_ptr(), port, 4, retry_strategy(min_ms, max_ms), decode_level(0, 0, 0), listener, &mut out)
    };
    if rc != 0 {
        return Err(format!("create_tcp returned {}", rc));
    }
    unsafe { ffi::rodbus_client_channel_enable(out) };
    std::thread::sleep(Duration::from_millis(40 + 80 + 130 + 130 + 120));
    let states = log.lock().unwrap().clone();
    unsafe { ffi::rodbus_client_channel_destroy(out) };
    // gaps between a WaitAfterFailedConnect (3) and the next Connecting (1)
    let mut gaps = Vec::new();
    for w in states.windows(2) {
        if w[0].1 == 3 && w[1].1 == 1 {
            gaps.push(w[1].0.duration_since(w[0].0));
        }
    }
    rep.stats.evaluations += 1;
    let expect = [40u64, 80, 130, 130];
    let case = json!({"table": "retry_strategy", "min_ms": min_ms, "max_ms": max_ms});
    if gaps.len() < 3 {
        return Err(format!("INFRA: only {} reconnect waits observed through the C listener", gaps.len()));
    }
    for (i, g) in gaps.iter().take(4).enumerate() {
        let e = Duration::from_millis(expect[i]);
        if *g + Duration::from_millis(2) < e || *g > e + Duration::from_millis(60) {
            fail(
                rep,
                format!(
                    "retry strategy (min {} ms, max {} ms) passed through the C ABI: wait no. {} lasted {:?}, the Rust strategy with the same values waits {:?}",
                    min_ms, max_ms, i + 1, g, e
                ),
                case,
            );
            return Ok(());
        }
    }
    rep.stats.nontrivial_total += 1;
    rep.stats.distinct.insert(crate::runner::hash_of(&format!("{}", case)));
    Ok(())
}

struct PortRec {
    tx: std::sync::mpsc::Sender<String>,
}
impl Listener<rodbus::client::PortState> for PortRec {
    fn update(&mut self, value: rodbus::client::PortState) -> MaybeAsync<()> {
        let _ = self.tx.send(format!("{:?}", value));
        MaybeAsync::ready(())
    }
}

extern "C" fn port_state_change(state: c_int, ctx: *mut c_void) {
    unsafe {
        let p = ctx as *const Mutex<Vec<i32>>;
        if let Ok(mut g) = (*p).lock() {
            g.push(state);
        }
    }
}

fn serial_settings_table(rep: &mut SearchReport) -> Result<(), String> {
    use crate::net::pty::Pty;
    let rt = crate::net::rt(2);
    let frt = FfiRuntime::new(2)?;
    let bauds = [9600u32, 19200, 115200];
    for (bi, baud) in bauds.iter().enumerate() {
        for db in 0..4u8 {
            for par in 0..3u8 {
                for sb in 0..2u8 {
                    for fl in 0..3u8 {
                        // keep the table at 72 rows per baud rate but only sweep flow control on one
                        if bi != 0 && fl != 0 {
                            continue;
                        }
                        let case = json!({"table": "serial_settings", "baud": baud, "data_bits": db, "parity": par, "stop_bits": sb, "flow": fl});
                        // ---- Rust API with the same-named values
                        let rust_settings = rodbus::SerialSettings {
                            baud_rate: *baud,
                            data_bits: [rodbus::DataBits::Five, rodbus::DataBits::Six, rodbus::DataBits::Seven, rodbus::DataBits::Eight][db as usize],
                            flow_control: [rodbus::FlowControl::None, rodbus::FlowControl::Software, rodbus::FlowControl::Hardware][fl as usize],
                            stop_bits: [rodbus::StopBits::One, rodbus::StopBits::Two][sb as usize],
                            parity: [rodbus::Parity::None, rodbus::Parity::Odd, rodbus::Parity::Even][par as usize],
                        };
                        let pty_a = Pty::open()?;
                        let (tx, rx) = std::sync::mpsc::channel();
                        let ch = {
                            let _g = rt.enter();
                            rodbus::client::spawn_rtu_client_task(
                                &pty_a.slave_path,
                                rust_settings,
                                4,
                                rodbus::doubling_retry_strategy(Duration::from_millis(50), Duration::from_millis(50)),
                                DecodeLevel::nothing(),
                                Some(Box::new(PortRec { tx })),
                            )
                        };
                        rt.block_on(ch.enable()).map_err(|_| "enable failed")?;
                        let mut opened = false;
                        let t0 = Instant::now();
                        while t0.elapsed() < Duration::from_secs(3) {
                            if let Ok(s) = rx.recv_timeout(Duration::from_millis(50)) {
                                if s == "Open" {
                                    opened = true;
                                    break;
                                }
                            }
                        }
                        if !opened {
                            return Err(format!("INFRA: Rust serial channel did not open the pty for {}", case));
                        }
                        let a = pty_a.termios();
                        drop(ch);
                        // ---- C ABI
                        let pty_b = Pty::open()?;
                        let states: Arc<Mutex<Vec<i32>>> = Default::default();
                        let listener = ffi::PortStateListener {
                            on_change: Some(port_state_change),
                            on_destroy: Some(h_destroy),
                            ctx: Arc::into_raw(states.clone()) as *mut c_void,
                        };
                        let settings: ffi::SerialPortSettings = ffi::SerialPortSettingsFields {
                            baud_rate: *baud,
                            data_bits: [ffi::DataBits::Five, ffi::DataBits::Six, ffi::DataBits::Seven, ffi::DataBits::Eight][db as usize],
                            flow_control: [ffi::FlowControl::None, ffi::FlowControl::Software, ffi::FlowControl::Hardware][fl as usize],
                            parity: [ffi::Parity::None, ffi::Parity::Odd, ffi::Parity::Even][par as usize],
                            stop_bits: [ffi::StopBits::One, ffi::StopBits::Two][sb as usize],
                        }
                        .into();
                        let mut out: *mut rodbus_ffi::ClientChannel = std::ptr::null_mut();
                        let path = cstr(&pty_b.slave_path);
                        let rc = unsafe {
                            ffi::rodbus_client_channel_create_rtu(frt.0, path.as_ptr(), settings, 4, retry_strategy(50, 50), decode_level(0, 0, 0), listener, &mut out)
                        };
                        if rc != 0 {
                            return Err(format!("rodbus_client_channel_create_rtu returned {}", rc));
                        }
                        unsafe { ffi::rodbus_client_channel_enable(out) };
                        let t0 = Instant::now();
                        let open_val: i32 = ffi::PortState::Open.into();
                        let mut opened = false;
                        while t0.elapsed() < Duration::from_secs(3) {
                            if states.lock().unwrap().contains(&open_val) {
                                opened = true;
                                break;
                            }
                            std::thread::sleep(Duration::from_millis(2));
                        }
                        let b = pty_b.termios();
                        unsafe { ffi::rodbus_client_channel_destroy(out) };
                        if !opened {
                            return Err(format!("INFRA: C-ABI serial channel did not open the pty for {}", case));
                        }
                        rep.stats.evaluations += 1;
                        if a != b || a.is_none() {
                            fail(
                                rep,
                                format!(
                                    "serial settings {}: the line opened through the Rust API has (iflag, cflag, speed) = {:x?}, through the C ABI with the same-named values {:x?}",
                                    case, a, b
                                ),
                                case,
                            );
                            return Ok(());
                        }
                        rep.stats.nontrivial_total += 1;
                        rep.stats.distinct.insert(crate::runner::hash_of(&format!("{}", case)));
                    }
                }
            }
        }
    }
    Ok(())
}


// ---------------------------------------------------------------------------------------------
// TLS configuration passes through the C ABI unchanged: minimum version, certificate mode,
// expected server name (and the '*' wildcard switch), certificate paths

fn tls_config_table(rep: &mut SearchReport) -> Result<(), String> {
    use crate::net::c09::{min_tls, path, peer_client_config, peer_server_config, Offer};
    use crate::net::c16::{c_allow_index, c_allow_range, c_configure, c_noop, c_write_coil};
    use tokio::io::{AsyncReadExt, AsyncWriteExt};
    let rt = crate::net::rt(2);
    let frt = FfiRuntime::new(2)?;
    let long = Duration::from_secs(3);
    let offers = [Offer::V12, Offer::V13, Offer::Both];
    let p = |name: &str, ext: &str| cstr(path(name, ext).to_str().unwrap());

    // ---- the C ABI creates the client
    // (mode, dns_name, allow wildcard, configured peer certificate, certificate the peer presents, valid)
    let client_cases: [(&str, &str, bool, &str, &str, bool); 9] = [
        ("authority", "test.com", false, "ca1", "server_ok", true),
        ("authority", "other.com", false, "ca1", "server_ok", false),
        ("authority", "test.com", true, "ca1", "server_othername", false),
        ("authority", "*", true, "ca1", "server_othername", true),
        ("authority", "*", false, "ca1", "server_ok", false),
        ("authority", "test.com", false, "ca1", "server_ca2", false),
        ("authority", "test.com", false, "ca2", "server_ca2", true),
        ("self-signed", "ignored.example", false, "ss_server", "ss_server", true),
        ("self-signed", "test.com", false, "ss_server", "ss_server_other", false),
    ];
    for min in [12u8, 13] {
        for offer in offers {
            for (mode, dns, wildcard, configured, presented, valid) in client_cases {
                let case = json!({"table": "tls_config", "c_abi_creates": "client", "min_version": format!("1.{}", min - 10), "peer_offers": offer.name(),
                    "mode": mode, "dns_name": dns, "allow_server_name_wildcard": wildcard, "peer_cert_path": configured, "peer_presents": presented});
                // what the Rust API says about the same configuration
                let rust_cfg = if mode == "authority" {
                    let name = if wildcard && dns == "*" { None } else { Some(dns.to_string()) };
                    rodbus::client::TlsClientConfig::full_pki(name, &path(configured, "pem"), &path("client_operator", "pem"), &path("client_operator", "key"), None, min_tls(min))
                } else {
                    rodbus::client::TlsClientConfig::self_signed(&path(configured, "pem"), &path("ss_client", "pem"), &path("ss_client", "key"), None, min_tls(min))
                };
                // the peer
                let (port, server) = rt.block_on(async {
                    let listener = tokio::net::TcpListener::bind("127.0.0.1:0").await.map_err(|e| format!("INFRA: {}", e))?;
                    let port = listener.local_addr().unwrap().port();
                    let acceptor = tokio_rustls::TlsAcceptor::from(peer_server_config(offer, presented));
                    let server = tokio::spawn(async move {
                        loop {
                            let (tcp, _) = match listener.accept().await {
                                Ok(x) => x,
                                Err(_) => return,
                            };
                            let acceptor = acceptor.clone();
                            tokio::spawn(async move {
                                if let Ok(mut tls) = acceptor.accept(tcp).await {
                                    let mut buf = [0u8; 256];
                                    let mut acc = Vec::new();
                                    loop {
                                        let n = match tls.read(&mut buf).await {
                                            Ok(0) | Err(_) => break,
                                            Ok(n) => n,
                                        };
                                        acc.extend_from_slice(&buf[..n]);
                                        let (frames, _) = crate::model::framing::deframe_mbap(&acc);
                                        let mut used = 0;
                                        for f in frames {
                                            used += 7 + f.pdu.len();
                                            if tls.write_all(&crate::model::framing::mbap_frame(f.tx, f.unit, &[3, 2, 0xBE, 0xEF])).await.is_err() {
                                                return;
                                            }
                                        }
                                        acc.drain(..used);
                                    }
                                }
                            });
                        }
                    });
                    Ok::<_, String>((port, server))
                })?;
                let (local, key) = if mode == "authority" { ("client_operator", "client_operator") } else { ("ss_client", "ss_client") };
                let dns_c = cstr(dns);
                let peer_c = p(configured, "pem");
                let local_c = p(local, "pem");
                let key_c = p(key, "key");
                let pw = cstr("");
                let tls_cfg = ffi::TlsClientConfig {
                    dns_name: dns_c.as_ptr(),
                    peer_cert_path: peer_c.as_ptr(),
                    local_cert_path: local_c.as_ptr(),
                    private_key_path: key_c.as_ptr(),
                    password: pw.as_ptr(),
                    min_tls_version: if min == 12 { ffi::MinTlsVersion::V12 } else { ffi::MinTlsVersion::V13 }.into(),
                    certificate_mode: if mode == "authority" { ffi::CertificateMode::AuthorityBased } else { ffi::CertificateMode::SelfSigned }.into(),
                    allow_server_name_wildcard: wildcard,
                };
                let states: StateLog = Default::default();
                let mut out: *mut rodbus_ffi::ClientChannel = std::ptr::null_mut();
                let host = cstr("127.0.0.1");
                let rc = unsafe {
                    ffi::rodbus_client_channel_create_tls(frt.0, host.as_ptr(), port, 4, retry_strategy(5000, 5000), tls_cfg, decode_level(0, 0, 0), state_listener(&states), &mut out)
                };
                rep.stats.evaluations += 1;
                let mut verdict: Option<String> = None;
                if (rc == 0) != rust_cfg.is_ok() {
                    verdict = Some(format!(
                        "the Rust API {} this configuration, the C call returned {:?}",
                        if rust_cfg.is_ok() { "accepts" } else { "rejects" },
                        ffi::ParamError::from(rc)
                    ));
                } else if rc == 0 {
                    let expect = valid && offer.max() >= min;
                    unsafe { ffi::rodbus_client_channel_enable(out) };
                    let t0 = Instant::now();
                    let mut connected = None;
                    while t0.elapsed() < long && connected.is_none() {
                        {
                            let g = states.lock().unwrap();
                            if g.iter().any(|s| s == "Connected") {
                                connected = Some(true);
                            } else if g.iter().any(|s| s.starts_with("WaitAfter")) {
                                connected = Some(false);
                            }
                        }
                        std::thread::sleep(Duration::from_millis(2));
                    }
                    let mut served = false;
                    if connected == Some(true) {
                        let sc = Scenario {
                            op: Op::ReadHolding,
                            unit: 1,
                            start: 0,
                            count: 1,
                            seed: 0,
                            timeout_ms: 1500,
                        };
                        let (rc2, slot) = ffi_submit(out, &sc);
                        if rc2 == 0 {
                            served = wait_slot(&slot, long) == vec![Got::Regs(vec![(0, 0xBEEF)])];
                        }
                    }
                    if served != expect {
                        verdict = Some(format!(
                            "the channel was {} but the same configuration through the Rust API {} this peer (connection state seen: {:?})",
                            if served { "served" } else { "not served" },
                            if expect { "admits" } else { "refuses" },
                            states.lock().unwrap().iter().take(4).collect::<Vec<_>>()
                        ));
                    }
                }
                if !out.is_null() {
                    unsafe { ffi::rodbus_client_channel_destroy(out) };
                }
                server.abort();
                if let Some(v) = verdict {
                    fail(rep, format!("TLS configuration {}: {}", case, v), case);
                    return Ok(());
                }
                rep.stats.nontrivial_total += 1;
                rep.stats.distinct.insert(crate::runner::hash_of(&format!("{}", case)));
            }
        }
    }
    *rep.stats.labels.entry("tls_client_config_rows".to_string()).or_insert(0) += 2 * 3 * client_cases.len() as u64;

    // ---- configurations neither API accepts: the C call reports the same-named error
    // (dns_name, peer certificate file, local certificate file, key file)
    let bad_cases: [(&str, &str, &str, &str); 6] = [
        ("bad name", "ca1.pem", "client_operator.pem", "client_operator.key"),
        ("test.com", "does_not_exist.pem", "client_operator.pem", "client_operator.key"),
        ("test.com", "ca1.pem", "does_not_exist.pem", "client_operator.key"),
        ("test.com", "ca1.pem", "client_operator.pem", "does_not_exist.key"),
        ("test.com", "ca1.pem", "client_operator.pem", "client_operator.pem"),
        ("test.com", "client_operator.key", "client_operator.pem", "client_operator.key"),
    ];
    for (dns, peer, local, key) in bad_cases {
        let case = json!({"table": "tls_config", "c_abi_creates": "client", "rejected": true, "dns_name": dns, "peer_cert_path": peer, "local_cert_path": local, "private_key_path": key});
        let dir = crate::net::c09::certs_dir();
        let rust = rodbus::client::TlsClientConfig::full_pki(Some(dns.to_string()), &dir.join(peer), &dir.join(local), &dir.join(key), None, min_tls(12));
        let want = match &rust {
            Ok(_) => "Ok".to_string(),
            Err(e) => {
                let n = format!("{:?}", e);
                let n = n.split('(').next().unwrap().to_string();
                if n == "BadConfig" {
                    "BadTlsConfig".to_string()
                } else {
                    n
                }
            }
        };
        let dns_c = cstr(dns);
        let peer_c = cstr(dir.join(peer).to_str().unwrap());
        let local_c = cstr(dir.join(local).to_str().unwrap());
        let key_c = cstr(dir.join(key).to_str().unwrap());
        let pw = cstr("");
        let tls_cfg = ffi::TlsClientConfig {
            dns_name: dns_c.as_ptr(),
            peer_cert_path: peer_c.as_ptr(),
            local_cert_path: local_c.as_ptr(),
            private_key_path: key_c.as_ptr(),
            password: pw.as_ptr(),
            min_tls_version: ffi::MinTlsVersion::V12.into(),
            certificate_mode: ffi::CertificateMode::AuthorityBased.into(),
            allow_server_name_wildcard: false,
        };
        let states: StateLog = Default::default();
        let mut out: *mut rodbus_ffi::ClientChannel = std::ptr::null_mut();
        let host = cstr("127.0.0.1");
        let rc = unsafe {
            ffi::rodbus_client_channel_create_tls(frt.0, host.as_ptr(), 1, 4, retry_strategy(5000, 5000), tls_cfg, decode_level(0, 0, 0), state_listener(&states), &mut out)
        };
        if !out.is_null() {
            unsafe { ffi::rodbus_client_channel_destroy(out) };
        }
        let got = if rc == 0 { "Ok".to_string() } else { format!("{:?}", ffi::ParamError::from(rc)) };
        rep.stats.evaluations += 1;
        if got != want {
            fail(rep, format!("TLS configuration {}: the Rust API gives {}, the C call reports {}", case, want, got), case);
            return Ok(());
        }
        rep.stats.nontrivial_total += 1;
        rep.stats.distinct.insert(crate::runner::hash_of(&format!("{}", case)));
    }

    // ---- the C ABI creates the server
    // (mode, authz, configured peer certificate, local certificate, certificate the client presents, valid)
    let server_cases: [(&str, bool, &str, &str, &str, bool); 8] = [
        ("authority", false, "ca1", "server_ok", "client_operator", true),
        ("authority", false, "ca1", "server_ok", "client_ca2", false),
        ("authority", false, "ca2", "server_ca2", "client_ca2", true),
        ("authority", false, "ca1", "server_ok", "client_norole", true),
        ("authority", true, "ca1", "server_ok", "client_norole", false),
        ("authority", true, "ca1", "server_ok", "client_viewer", true),
        ("self-signed", false, "ss_client", "ss_server", "ss_client", true),
        ("self-signed", false, "ss_client", "ss_server", "ss_client_other", false),
    ];
    for min in [12u8, 13] {
        for offer in offers {
            for (mode, authz, configured, local, presented, valid) in server_cases {
                let case = json!({"table": "tls_config", "c_abi_creates": "server", "min_version": format!("1.{}", min - 10), "peer_offers": offer.name(),
                    "mode": mode, "authz": authz, "peer_cert_path": configured, "local_cert": local, "peer_presents": presented});
                let mut server: *mut rodbus_ffi::Server = std::ptr::null_mut();
                let mut port = 0u16;
                unsafe {
                    let filter = ffi::rodbus_address_filter_any();
                    for _ in 0..8 {
                        let map = ffi::rodbus_device_map_create();
                        let handler = ffi::WriteHandler {
                            write_single_coil: Some(c_write_coil),
                            write_single_register: None,
                            write_multiple_coils: None,
                            write_multiple_registers: None,
                            on_destroy: Some(c_noop),
                            ctx: std::ptr::null_mut(),
                        };
                        let cfgcb = ffi::DatabaseCallback {
                            callback: Some(c_configure),
                            on_destroy: Some(c_noop),
                            ctx: std::ptr::null_mut(),
                        };
                        ffi::rodbus_device_map_add_endpoint(map, 1, handler, cfgcb);
                        port = free_port();
                        let ip = cstr("127.0.0.1");
                        let peer_c = p(configured, "pem");
                        let local_c = p(local, "pem");
                        let key_c = p(local, "key");
                        let pw = cstr("");
                        let tls_cfg = ffi::TlsServerConfig {
                            peer_cert_path: peer_c.as_ptr(),
                            local_cert_path: local_c.as_ptr(),
                            private_key_path: key_c.as_ptr(),
                            password: pw.as_ptr(),
                            min_tls_version: if min == 12 { ffi::MinTlsVersion::V12 } else { ffi::MinTlsVersion::V13 }.into(),
                            certificate_mode: if mode == "authority" { ffi::CertificateMode::AuthorityBased } else { ffi::CertificateMode::SelfSigned }.into(),
                        };
                        let rc = if authz {
                            let auth = ffi::AuthorizationHandler {
                                read_coils: Some(c_allow_range),
                                read_discrete_inputs: Some(c_allow_range),
                                read_holding_registers: Some(c_allow_range),
                                read_input_registers: Some(c_allow_range),
                                write_single_coil: Some(c_allow_index),
                                write_single_register: Some(c_allow_index),
                                write_multiple_coils: Some(c_allow_range),
                                write_multiple_registers: Some(c_allow_range),
                                on_destroy: Some(c_noop),
                                ctx: std::ptr::null_mut(),
                            };
                            ffi::rodbus_server_create_tls_with_authz(frt.0, ip.as_ptr(), port, filter, 4, map, tls_cfg, auth, decode_level(0, 0, 0), &mut server)
                        } else {
                            ffi::rodbus_server_create_tls(frt.0, ip.as_ptr(), port, filter, 4, map, tls_cfg, decode_level(0, 0, 0), &mut server)
                        };
                        ffi::rodbus_device_map_destroy(map);
                        if rc == 0 && !server.is_null() {
                            break;
                        }
                    }
                    ffi::rodbus_address_filter_destroy(filter);
                }
                if server.is_null() {
                    return Err(format!("INFRA: could not create the C-ABI TLS server for {}", case));
                }
                let expect = valid && offer.max() >= min;
                let served = rt.block_on(async {
                    let connector = tokio_rustls::TlsConnector::from(peer_client_config(offer, Some(presented)));
                    let tcp = match tokio::time::timeout(long, tokio::net::TcpStream::connect(("127.0.0.1", port))).await {
                        Ok(Ok(t)) => t,
                        _ => return Err("INFRA: connect to the C-ABI TLS server failed".to_string()),
                    };
                    let name = tokio_rustls::rustls::pki_types::ServerName::try_from("test.com").unwrap();
                    let mut served = false;
                    if let Ok(Ok(mut tls)) = tokio::time::timeout(long, connector.connect(name, tcp)).await {
                        if tls.write_all(&crate::model::framing::mbap_frame(9, 1, &[3, 0, 0, 0, 1])).await.is_ok() {
                            let mut buf = [0u8; 64];
                            let mut got = Vec::new();
                            loop {
                                match tokio::time::timeout(long, tls.read(&mut buf)).await {
                                    Ok(Ok(0)) | Ok(Err(_)) | Err(_) => break,
                                    Ok(Ok(n)) => {
                                        got.extend_from_slice(&buf[..n]);
                                        if got.len() >= 11 {
                                            break;
                                        }
                                    }
                                }
                            }
                            served = got == crate::model::framing::mbap_frame(9, 1, &[3, 2, 0xBE, 0xEF]);
                        }
                    }
                    Ok(served)
                });
                unsafe { ffi::rodbus_server_destroy(server) };
                let served = served?;
                rep.stats.evaluations += 1;
                if served != expect {
                    fail(
                        rep,
                        format!(
                            "TLS configuration {}: the peer was {} but the same configuration through the Rust API {} it",
                            case,
                            if served { "served" } else { "not served" },
                            if expect { "admits" } else { "refuses" }
                        ),
                        case,
                    );
                    return Ok(());
                }
                rep.stats.nontrivial_total += 1;
                rep.stats.distinct.insert(crate::runner::hash_of(&format!("{}", case)));
            }
        }
    }
    *rep.stats.labels.entry("tls_server_config_rows".to_string()).or_insert(0) += 2 * 3 * server_cases.len() as u64;
    Ok(())
}


// ---------------------------------------------------------------------------------------------
// authorization through the C ABI: the callback of the SAME kind sees the unit id, the range or
// index and the role of the request unchanged, and its answer is what the client gets

type AuthLog = Arc<Mutex<Vec<(String, u8, u16, u16, String)>>>;

fn auth_record(name: &str, unit: u8, start: u16, count: u16, role: *const std::os::raw::c_char, ctx: *mut c_void) -> c_int {
    let role = if role.is_null() {
        "<null>".to_string()
    } else {
        unsafe { std::ffi::CStr::from_ptr(role) }.to_string_lossy().into_owned()
    };
    unsafe {
        let log = &*(ctx as *const Mutex<Vec<(String, u8, u16, u16, String)>>);
        if let Ok(mut g) = log.lock() {
            g.push((name.to_string(), unit, start, count, role));
        }
    }
    if start % 3 == 2 {
        ffi::Authorization::Deny.into()
    } else {
        ffi::Authorization::Allow.into()
    }
}
extern "C" fn az_read_coils(u: u8, r: ffi::AddressRange, role: *const std::os::raw::c_char, ctx: *mut c_void) -> c_int {
    auth_record("read_coils", u, r.start, r.count, role, ctx)
}
extern "C" fn az_read_discrete(u: u8, r: ffi::AddressRange, role: *const std::os::raw::c_char, ctx: *mut c_void) -> c_int {
    auth_record("read_discrete_inputs", u, r.start, r.count, role, ctx)
}
extern "C" fn az_read_holding(u: u8, r: ffi::AddressRange, role: *const std::os::raw::c_char, ctx: *mut c_void) -> c_int {
    auth_record("read_holding_registers", u, r.start, r.count, role, ctx)
}
extern "C" fn az_read_input(u: u8, r: ffi::AddressRange, role: *const std::os::raw::c_char, ctx: *mut c_void) -> c_int {
    auth_record("read_input_registers", u, r.start, r.count, role, ctx)
}
extern "C" fn az_write_coil(u: u8, i: u16, role: *const std::os::raw::c_char, ctx: *mut c_void) -> c_int {
    auth_record("write_single_coil", u, i, 0, role, ctx)
}
extern "C" fn az_write_reg(u: u8, i: u16, role: *const std::os::raw::c_char, ctx: *mut c_void) -> c_int {
    auth_record("write_single_register", u, i, 0, role, ctx)
}
extern "C" fn az_write_coils(u: u8, r: ffi::AddressRange, role: *const std::os::raw::c_char, ctx: *mut c_void) -> c_int {
    auth_record("write_multiple_coils", u, r.start, r.count, role, ctx)
}
extern "C" fn az_write_regs(u: u8, r: ffi::AddressRange, role: *const std::os::raw::c_char, ctx: *mut c_void) -> c_int {
    auth_record("write_multiple_registers", u, r.start, r.count, role, ctx)
}
extern "C" fn az_db(db: *mut rodbus_ffi::Database, _ctx: *mut c_void) {
    unsafe {
        for i in 0..64u16 {
            ffi::rodbus_database_add_coil(db, i, false);
            ffi::rodbus_database_add_discrete_input(db, i, i % 2 == 0);
            ffi::rodbus_database_add_holding_register(db, i, i);
            ffi::rodbus_database_add_input_register(db, i, 1000 + i);
        }
    }
}
fn az_ok() -> ffi::WriteResult {
    ffi::WriteResultFields {
        success: true,
        exception: ffi::ModbusException::IllegalFunction,
        raw_exception: 0,
    }
    .into()
}
extern "C" fn azw_coil(_i: u16, _v: bool, _db: *mut rodbus_ffi::Database, _ctx: *mut c_void) -> ffi::WriteResult {
    az_ok()
}
extern "C" fn azw_reg(_i: u16, _v: u16, _db: *mut rodbus_ffi::Database, _ctx: *mut c_void) -> ffi::WriteResult {
    az_ok()
}
extern "C" fn azw_coils(_s: u16, _it: *mut rodbus_ffi::BitValueIterator<'_>, _db: *mut rodbus_ffi::Database, _ctx: *mut c_void) -> ffi::WriteResult {
    az_ok()
}
extern "C" fn azw_regs(_s: u16, _it: *mut rodbus_ffi::RegisterValueIterator<'_>, _db: *mut rodbus_ffi::Database, _ctx: *mut c_void) -> ffi::WriteResult {
    az_ok()
}

fn authz_table(rep: &mut SearchReport, seed: u64) -> Result<(), String> {
    use crate::net::c09::{path, peer_client_config, Offer};
    use tokio::io::{AsyncReadExt, AsyncWriteExt};
    let rt = crate::net::rt(2);
    let frt = FfiRuntime::new(2)?;
    let log: AuthLog = Default::default();
    let p = |name: &str, ext: &str| cstr(path(name, ext).to_str().unwrap());
    let mut server: *mut rodbus_ffi::Server = std::ptr::null_mut();
    let mut port = 0u16;
    unsafe {
        let filter = ffi::rodbus_address_filter_any();
        for _ in 0..8 {
            let map = ffi::rodbus_device_map_create();
            for unit in [1u8, 7] {
                let handler = ffi::WriteHandler {
                    write_single_coil: Some(azw_coil),
                    write_single_register: Some(azw_reg),
                    write_multiple_coils: Some(azw_coils),
                    write_multiple_registers: Some(azw_regs),
                    on_destroy: Some(h_destroy),
                    ctx: std::ptr::null_mut(),
                };
                let cfgcb = ffi::DatabaseCallback {
                    callback: Some(az_db),
                    on_destroy: Some(h_destroy),
                    ctx: std::ptr::null_mut(),
                };
                ffi::rodbus_device_map_add_endpoint(map, unit, handler, cfgcb);
            }
            port = free_port();
            let ip = cstr("127.0.0.1");
            let peer_c = p("ca1", "pem");
            let local_c = p("server_ok", "pem");
            let key_c = p("server_ok", "key");
            let pw = cstr("");
            let tls_cfg = ffi::TlsServerConfig {
                peer_cert_path: peer_c.as_ptr(),
                local_cert_path: local_c.as_ptr(),
                private_key_path: key_c.as_ptr(),
                password: pw.as_ptr(),
                min_tls_version: ffi::MinTlsVersion::V12.into(),
                certificate_mode: ffi::CertificateMode::AuthorityBased.into(),
            };
            let auth = ffi::AuthorizationHandler {
                read_coils: Some(az_read_coils),
                read_discrete_inputs: Some(az_read_discrete),
                read_holding_registers: Some(az_read_holding),
                read_input_registers: Some(az_read_input),
                write_single_coil: Some(az_write_coil),
                write_single_register: Some(az_write_reg),
                write_multiple_coils: Some(az_write_coils),
                write_multiple_registers: Some(az_write_regs),
                on_destroy: Some(h_destroy),
                ctx: Arc::as_ptr(&log) as *mut c_void,
            };
            let rc = ffi::rodbus_server_create_tls_with_authz(frt.0, ip.as_ptr(), port, filter, 4, map, tls_cfg, auth, decode_level(0, 0, 0), &mut server);
            ffi::rodbus_device_map_destroy(map);
            if rc == 0 && !server.is_null() {
                break;
            }
        }
        ffi::rodbus_address_filter_destroy(filter);
    }
    if server.is_null() {
        return Err("INFRA: could not create the C-ABI TLS server with authorization".to_string());
    }
    let role = "Bediener Ölförderung 操作员";
    let mut x = seed | 1;
    let mut next = move || {
        x ^= x << 13;
        x ^= x >> 7;
        x ^= x << 17;
        x
    };
    // (callback name, unit, start, count-or-0, pdu)
    let mut rows: Vec<(&str, u8, u16, u16, Vec<u8>)> = Vec::new();
    for round in 0..6 {
        for kind in 0..8u8 {
            let unit = if next() % 2 == 0 { 1u8 } else { 7 };
            let start = if round < 3 { round as u16 } else { (next() % 40) as u16 };
            let count = 1 + (next() % 9) as u16;
            let be = |v: u16| [(v >> 8) as u8, v as u8];
            let (name, c, pdu): (&str, u16, Vec<u8>) = match kind {
                0 => ("read_coils", count, [vec![1], be(start).to_vec(), be(count).to_vec()].concat()),
                1 => ("read_discrete_inputs", count, [vec![2], be(start).to_vec(), be(count).to_vec()].concat()),
                2 => ("read_holding_registers", count, [vec![3], be(start).to_vec(), be(count).to_vec()].concat()),
                3 => ("read_input_registers", count, [vec![4], be(start).to_vec(), be(count).to_vec()].concat()),
                4 => ("write_single_coil", 0, [vec![5], be(start).to_vec(), vec![0xFF, 0]].concat()),
                5 => ("write_single_register", 0, [vec![6], be(start).to_vec(), be(next() as u16).to_vec()].concat()),
                6 => (
                    "write_multiple_coils",
                    count,
                    [vec![15], be(start).to_vec(), be(count).to_vec(), vec![((count + 7) / 8) as u8], vec![0x55; ((count + 7) / 8) as usize]].concat(),
                ),
                _ => (
                    "write_multiple_registers",
                    count,
                    [vec![16], be(start).to_vec(), be(count).to_vec(), vec![(2 * count) as u8], vec![0x11; 2 * count as usize]].concat(),
                ),
            };
            rows.push((name, unit, start, c, pdu));
        }
    }
    let log2 = log.clone();
    let outcome: Result<Option<(String, serde_json::Value)>, String> = rt.block_on(async move {
        let connector = tokio_rustls::TlsConnector::from(peer_client_config(Offer::Both, Some("client_utf8role")));
        let tcp = tokio::net::TcpStream::connect(("127.0.0.1", port)).await.map_err(|e| format!("INFRA: connect {}", e))?;
        let name = tokio_rustls::rustls::pki_types::ServerName::try_from("test.com").unwrap();
        let mut tls = tokio::time::timeout(Duration::from_secs(3), connector.connect(name, tcp))
            .await
            .map_err(|_| "INFRA: TLS handshake timed out".to_string())?
            .map_err(|e| format!("INFRA: TLS handshake failed: {}", e))?;
        for (i, (cb, unit, start, count, pdu)) in rows.iter().enumerate() {
            let case = json!({"table": "authorization", "callback": cb, "unit": unit, "start": start, "count": count});
            log2.lock().unwrap().clear();
            let tx = 0x100 + i as u16;
            tls.write_all(&mbap_frame(tx, *unit, pdu)).await.map_err(|e| format!("INFRA: write {}", e))?;
            let _ = tls.flush().await;
            let mut acc = Vec::new();
            let mut buf = [0u8; 512];
            let reply = loop {
                let n = match tokio::time::timeout(Duration::from_secs(3), tls.read(&mut buf)).await {
                    Ok(Ok(n)) if n > 0 => n,
                    _ => return Ok(Some((format!("row {}: no reply", case), case))),
                };
                acc.extend_from_slice(&buf[..n]);
                let (frames, _) = deframe_mbap(&acc);
                if let Some(f) = frames.first() {
                    break f.pdu.clone();
                }
            };
            let calls = log2.lock().unwrap().clone();
            let want = (cb.to_string(), *unit, *start, *count, role.to_string());
            if calls != vec![want.clone()] {
                return Ok(Some((
                    format!("row {}: the authorization callbacks saw {:?}, the request was {:?}", case, calls, want),
                    case,
                )));
            }
            let deny = start % 3 == 2;
            let fc = pdu[0];
            if deny {
                if reply != vec![fc | 0x80, 1] {
                    return Ok(Some((format!("row {}: the callback answered Deny, the client received {:02X?}", case, reply), case)));
                }
            } else if reply.first() != Some(&fc) {
                return Ok(Some((format!("row {}: the callback answered Allow, the client received {:02X?}", case, reply), case)));
            }
        }
        Ok(None)
    });
    // a role that a C string cannot carry: the certificate says "oper\0tor". Whatever the library
    // does with it, a C callback must never be shown a role the certificate does not contain
    // (the Rust API hands its handler the string as it is)
    let log3 = log.clone();
    let outcome = match outcome {
        Ok(None) => rt.block_on(async move {
            let connector = tokio_rustls::TlsConnector::from(peer_client_config(Offer::Both, Some("client_nulrole")));
            let tcp = tokio::net::TcpStream::connect(("127.0.0.1", port)).await.map_err(|e| format!("INFRA: connect {}", e))?;
            let name = tokio_rustls::rustls::pki_types::ServerName::try_from("test.com").unwrap();
            log3.lock().unwrap().clear();
            let case = json!({"table": "authorization", "certificate_role": "oper<NUL>tor"});
            if let Ok(Ok(mut tls)) = tokio::time::timeout(Duration::from_secs(3), connector.connect(name, tcp)).await {
                let _ = tls.write_all(&mbap_frame(0x77, 1, &[3, 0, 0, 0, 1])).await;
                let _ = tls.flush().await;
                let mut buf = [0u8; 64];
                let _ = tokio::time::timeout(Duration::from_millis(500), tls.read(&mut buf)).await;
            }
            let calls = log3.lock().unwrap().clone();
            if let Some(c) = calls.iter().find(|c| c.4 != "oper\u{0}tor") {
                return Ok(Some((
                    format!(
                        "the client certificate carries the role \"oper\\0tor\" (a NUL inside the string); the C authorization callback {} was shown the role {:?}",
                        c.0, c.4
                    ),
                    case,
                )));
            }
            Ok(None)
        }),
        other => other,
    };
    unsafe { ffi::rodbus_server_destroy(server) };
    let n = 49u64;
    rep.stats.evaluations += n;
    match outcome? {
        Some((m, c)) => fail(rep, m, c),
        None => {
            rep.stats.nontrivial_total += n;
            for i in 0..n {
                rep.stats.distinct.insert(crate::runner::hash_of(&format!("authz-{}-{}", seed, i)));
            }
            *rep.stats.labels.entry("authorization_rows".to_string()).or_insert(0) += n;
        }
    }
    Ok(())
}


// ---------------------------------------------------------------------------------------------
// every enum value that crosses the boundary arrives as its same-named counterpart: the
// library's own conversions (the ones its creation functions and listeners use) applied to
// every member. Needed besides the behavioural tables because some settings leave no trace the
// harness can observe (a pseudo-terminal ignores data bits and parity).

fn conversion_table(rep: &mut SearchReport) -> Result<(), String> {
    let mut rows = 0u64;
    let mut bad: Option<(String, serde_json::Value)> = None;
    let check = |what: &str, c_name: String, rust_name: String, rows: &mut u64, bad: &mut Option<(String, serde_json::Value)>| {
        *rows += 1;
        if c_name != rust_name && bad.is_none() {
            *bad = Some((
                format!("{}: the C value {} becomes the Rust value {}", what, c_name, rust_name),
                json!({"table": "conversions", "what": what, "c": c_name, "rust": rust_name}),
            ));
        }
    };
    // serial settings: 4 x 3 x 2 x 3 combinations, each field on its own
    let dbs = [ffi::DataBits::Five, ffi::DataBits::Six, ffi::DataBits::Seven, ffi::DataBits::Eight];
    let fls = [ffi::FlowControl::None, ffi::FlowControl::Software, ffi::FlowControl::Hardware];
    let pars = [ffi::Parity::None, ffi::Parity::Odd, ffi::Parity::Even];
    let sbs = [ffi::StopBits::One, ffi::StopBits::Two];
    for db in dbs {
        for fl in fls {
            for par in pars {
                for sb in sbs {
                    for baud in [300u32, 9600, 4_000_000] {
                        let c: ffi::SerialPortSettings = ffi::SerialPortSettingsFields {
                            baud_rate: baud,
                            data_bits: db,
                            flow_control: fl,
                            parity: par,
                            stop_bits: sb,
                        }
                        .into();
                        let r: rodbus::SerialSettings = c.into();
                        check("serial data bits", format!("{:?}", db), format!("{:?}", r.data_bits), &mut rows, &mut bad);
                        check("serial flow control", format!("{:?}", fl), format!("{:?}", r.flow_control), &mut rows, &mut bad);
                        check("serial parity", format!("{:?}", par), format!("{:?}", r.parity), &mut rows, &mut bad);
                        check("serial stop bits", format!("{:?}", sb), format!("{:?}", r.stop_bits), &mut rows, &mut bad);
                        check("serial baud rate", format!("{}", baud), format!("{}", r.baud_rate), &mut rows, &mut bad);
                    }
                }
            }
        }
    }
    // decode levels: all 36
    let apps = [ffi::AppDecodeLevel::Nothing, ffi::AppDecodeLevel::FunctionCode, ffi::AppDecodeLevel::DataHeaders, ffi::AppDecodeLevel::DataValues];
    let frames = [ffi::FrameDecodeLevel::Nothing, ffi::FrameDecodeLevel::Header, ffi::FrameDecodeLevel::Payload];
    let physs = [ffi::PhysDecodeLevel::Nothing, ffi::PhysDecodeLevel::Length, ffi::PhysDecodeLevel::Data];
    for a in apps {
        for f in frames {
            for ph in physs {
                let c: ffi::DecodeLevel = ffi::DecodeLevelFields {
                    app: a,
                    frame: f,
                    physical: ph,
                }
                .into();
                let r: DecodeLevel = c.into();
                check("decode level (app)", format!("{:?}", a), format!("{:?}", r.app), &mut rows, &mut bad);
                check("decode level (frame)", format!("{:?}", f), format!("{:?}", r.frame), &mut rows, &mut bad);
                check("decode level (physical)", format!("{:?}", ph), format!("{:?}", r.physical), &mut rows, &mut bad);
            }
        }
    }
    // connection states and port states: Rust -> C
    let d = Duration::from_millis(7);
    for st in [
        ClientState::Disabled,
        ClientState::Connecting,
        ClientState::Connected,
        ClientState::WaitAfterFailedConnect(d),
        ClientState::WaitAfterDisconnect(d),
        ClientState::Shutdown,
    ] {
        let c: ffi::ClientState = st.into();
        let rn = format!("{:?}", st);
        check("client state", format!("{:?}", c), rn.split('(').next().unwrap().to_string(), &mut rows, &mut bad);
    }
    for st in [
        rodbus::client::PortState::Disabled,
        rodbus::client::PortState::Wait(d),
        rodbus::client::PortState::Open,
        rodbus::client::PortState::Shutdown,
    ] {
        let c: ffi::PortState = st.into();
        let rn = format!("{:?}", st);
        check("port state", format!("{:?}", c), rn.split('(').next().unwrap().to_string(), &mut rows, &mut bad);
    }
    // authorization answers, TLS enums
    for (c, name) in [(ffi::Authorization::Allow, "Allow"), (ffi::Authorization::Deny, "Deny")] {
        let r: rodbus::server::Authorization = c.into();
        check("authorization", name.to_string(), format!("{:?}", r), &mut rows, &mut bad);
    }
    for (c, name) in [(ffi::MinTlsVersion::V12, "V1_2"), (ffi::MinTlsVersion::V13, "V1_3")] {
        let r: rodbus::client::MinTlsVersion = c.into();
        check("minimum TLS version", name.to_string(), format!("{:?}", r), &mut rows, &mut bad);
    }
    for (c, name) in [(ffi::CertificateMode::AuthorityBased, "AuthorityBased"), (ffi::CertificateMode::SelfSigned, "SelfSigned")] {
        let r: rodbus::client::CertificateMode = c.into();
        check("certificate mode", name.to_string(), format!("{:?}", r), &mut rows, &mut bad);
    }
    // retry strategy: the delays a converted strategy hands out are those of the Rust strategy
    for (min, max) in [(1u64, 1u64), (40, 130), (100, 100_000), (7, 8)] {
        let mut c: Box<dyn rodbus::RetryStrategy> = retry_strategy(min, max).into();
        let mut r = rodbus::doubling_retry_strategy(Duration::from_millis(min), Duration::from_millis(max));
        for k in 0..14 {
            let (a, b) = if k == 9 {
                c.reset();
                r.reset();
                (c.after_disconnect(), r.after_disconnect())
            } else {
                (c.after_failed_connect(), r.after_failed_connect())
            };
            check(&format!("retry strategy ({} ms, {} ms), call {}", min, max, k), format!("{:?}", a), format!("{:?}", b), &mut rows, &mut bad);
        }
    }
    rep.stats.evaluations += rows;
    if let Some((m, c)) = bad {
        fail(rep, m, c);
        return Ok(());
    }
    rep.stats.nontrivial_total += rows;
    rep.stats.distinct.insert(crate::runner::hash_of(&"conversion_table".to_string()));
    *rep.stats.labels.entry("conversion_rows".to_string()).or_insert(0) += rows;
    Ok(())
}

// ---------------------------------------------------------------------------------------------
// call order: a setting and a request issued one after the other are processed in that order

struct OrderCtx {
    ch: *mut rodbus_ffi::ClientChannel,
    write_slot: SlotRef,
    read_done: Arc<Mutex<Vec<Got>>>,
    rcs: Arc<Mutex<Vec<i32>>>,
}

extern "C" fn order_read_complete(it: *mut rodbus_ffi::RegisterValueIterator<'_>, ctx: *mut c_void) {
    unsafe {
        let mut v = Vec::new();
        loop {
            let p = ffi::rodbus_register_value_iterator_next(it);
            if p.is_null() {
                break;
            }
            v.push(((*p).index, (*p).value));
        }
        let c = &*(ctx as *const OrderCtx);
        c.read_done.lock().unwrap().push(Got::Regs(v));
        // from inside the completion callback (the only runtime thread is busy with it):
        // disable the channel, then submit a write
        let rc1 = ffi::rodbus_client_channel_disable(c.ch);
        let rc2 = ffi::rodbus_client_channel_write_single_register(
            c.ch,
            ffi::RequestParam { unit_id: 1, timeout: 1000 },
            ffi::RegisterValue { index: 7, value: 0xCAFE },
            write_callback(&c.write_slot),
        );
        c.rcs.lock().unwrap().extend_from_slice(&[rc1, rc2]);
        std::thread::sleep(Duration::from_millis(30));
    }
}

extern "C" fn order_read_failure(err: c_int, ctx: *mut c_void) {
    unsafe {
        let c = &*(ctx as *const OrderCtx);
        c.read_done.lock().unwrap().push(Got::Err(format!("{}", err)));
    }
}

extern "C" fn order_destroy(_ctx: *mut c_void) {}

/// Rust API: `disable().await` followed by a write gives NoConnection and nothing on the wire,
/// because settings and requests travel through one queue. The same two calls through the C
/// ABI - made from a completion callback on a one-thread runtime, where nothing else can run in
/// between - must have the same outcome.
fn call_order_table(rep: &mut SearchReport) -> Result<(), String> {
    let long = Duration::from_secs(5);
    // ---- Rust API
    let peer = Peer::start();
    let rt = crate::net::rt(1);
    let states: Arc<Mutex<Vec<String>>> = Default::default();
    let channel = {
        let _g = rt.enter();
        rodbus::client::spawn_tcp_client_task(
            HostAddr::ip("127.0.0.1".parse().unwrap(), peer.port),
            16,
            rodbus::doubling_retry_strategy(Duration::from_millis(10), Duration::from_millis(10)),
            DecodeLevel::nothing(),
            Some(Box::new(RustStates { log: states.clone() })),
        )
    };
    rt.block_on(channel.enable()).map_err(|_| "enable failed")?;
    if !wait_state(&states, "Connected", long) {
        return Err("INFRA: Rust channel not connected".to_string());
    }
    let rust: Got = rt.block_on(async {
        let param = RequestParam::new(UnitId::new(1), Duration::from_millis(1000));
        let _ = channel.read_holding_registers(param, AddressRange::try_from(1, 1).unwrap()).await;
        let _ = channel.disable().await;
        match channel.write_single_register(param, Indexed::new(7, 0xCAFE)).await {
            Ok(_) => Got::WriteOk,
            Err(e) => Got::Err(expected_name(&e)),
        }
    });
    let rust_writes = peer.seen.lock().unwrap().iter().filter(|(_, pdu)| pdu.first() == Some(&6)).count();
    drop(channel);
    drop(rt);
    drop(peer);
    // ---- C ABI
    let peer = Peer::start();
    let frt = FfiRuntime::new(1)?;
    let fc = FfiClient::create(&frt, peer.port, 16, decode_level(0, 0, 0))?;
    if fc.enable() != 0 {
        return Err("rodbus_client_channel_enable failed".to_string());
    }
    if !wait_state(&fc.states, "Connected", long) {
        return Err("INFRA: C-ABI channel not connected".to_string());
    }
    let write_slot: SlotRef = Default::default();
    let ctx = Box::leak(Box::new(OrderCtx {
        ch: fc.ch,
        write_slot: write_slot.clone(),
        read_done: Default::default(),
        rcs: Default::default(),
    }));
    let cb = ffi::RegisterReadCallback {
        on_complete: Some(order_read_complete),
        on_failure: Some(order_read_failure),
        on_destroy: Some(order_destroy),
        ctx: ctx as *mut OrderCtx as *mut c_void,
    };
    let rc = unsafe {
        ffi::rodbus_client_channel_read_holding_registers(
            fc.ch,
            ffi::RequestParam { unit_id: 1, timeout: 1000 },
            ffi::AddressRange { start: 1, count: 1 },
            cb,
        )
    };
    if rc != 0 {
        return Err(format!("read_holding_registers through the C ABI returned {}", rc));
    }
    let got = wait_slot(&write_slot, long);
    std::thread::sleep(Duration::from_millis(50));
    let c_writes = peer.seen.lock().unwrap().iter().filter(|(_, pdu)| pdu.first() == Some(&6)).count();
    let rcs = ctx.rcs.lock().unwrap().clone();
    let read_done = ctx.read_done.lock().unwrap().clone();
    let case = json!({"table": "call_order"});
    rep.stats.evaluations += 1;
    if !matches!(read_done.first(), Some(Got::Regs(_))) {
        return Err(format!("INFRA: the read that carries the callback completed with {:?}", read_done));
    }
    if rcs != vec![0, 0] {
        fail(rep, format!("call order: disable and write issued from a completion callback returned {:?}", rcs), case);
        return Ok(());
    }
    if got.len() != 1 || got[0] != rust || c_writes != rust_writes {
        fail(
            rep,
            format!(
                "call order: disable() followed by write_single_register: the Rust API gives {:?} with {} write requests on the wire; the same two calls through the C ABI (from a completion callback, one runtime thread) give {:?} with {} write requests on the wire",
                short(&rust),
                rust_writes,
                got.iter().map(short).collect::<Vec<_>>(),
                c_writes
            ),
            case,
        );
        return Ok(());
    }
    rep.stats.nontrivial_total += 1;
    rep.stats.distinct.insert(crate::runner::hash_of(&"call_order".to_string()));
    *rep.stats.labels.entry("call_order_rows".to_string()).or_insert(0) += 1;
    fc.destroy();
    Ok(())
}

pub fn c18_tables(ctx: &Ctx) -> SearchReport {
    let mut rep = SearchReport::empty(
        "c18_tables",
        "differential tables, every row visited: (1) 8 client operations x {12 successes with random unit/range/values, each of the 256 exception codes, malformed reply, reply of another function, silence (timeout), close, malformed MBAP header} through the Rust API and through the extern \"C\" functions against the same scripted peer: identical request bytes on the wire, identical values, error reported as the same-named ffi::RequestError value, exactly one completion callback; (2) not connected / queue full (capacity 1, silent peer) / runtime destroyed: return code and exactly one callback; call order: disable followed by a write, issued from a completion callback on a one-thread runtime, has the outcome the Rust API gives for disable().await followed by the write (no-connection, nothing on the wire); (3) 4 write callbacks x WriteResult {success, 9 standard exceptions, raw 0..255}: the raw TCP client must receive the echo or [fc|0x80, code]; (4) all 36 decode levels: log classes of a C-ABI server equal those of a Rust server at the same-named level; (5) configuration pass-through: reconnect waits of a C-ABI client with retry (40 ms, 130 ms) measured through its listener; 120 serial-setting combinations (baud x data bits x parity x stop bits x flow control): termios of a pty opened through the C ABI equals termios of a pty opened through the Rust API with the same-named values; 54 TLS client and 48 TLS server configurations created through the C ABI (minimum version x versions the peer offers x certificate mode x expected name incl. the '*' switch x configured / presented certificates x authorization): created iff the Rust API accepts the same-named configuration, and a rustls peer is served iff the Rust API would serve it; max_sessions of a C-ABI server in {1,2,3,5}: one connection too many closes exactly the first; 48 requests of all eight kinds to a C-ABI TLS server with authorization callbacks: exactly the callback of that kind runs, with the unit id, range or index and the (UTF-8) role of the client certificate unchanged, Deny gives exception 01 and Allow the normal reply; the library's own enum conversions applied to every member (serial settings 216 combinations, 36 decode levels, connection and port states, authorization answers, TLS enums) and the delays of converted retry strategies. Non-trivial = every row other than a plain success.",
    );
    let steps: Vec<(&str, Box<dyn Fn(&mut SearchReport) -> Result<(), String>>)> = vec![
        ("client_table", Box::new({
            let seed = ctx.seed;
            move |r: &mut SearchReport| client_table(r, seed, None)
        })),
        ("client_conditions", Box::new(client_conditions)),
        ("call_order_table", Box::new(call_order_table)),
        ("server_table", Box::new(server_table)),
        ("decode_table", Box::new(decode_table)),
        ("retry_passthrough", Box::new(retry_passthrough)),
        ("serial_settings_table", Box::new(serial_settings_table)),
        ("tls_config_table", Box::new(tls_config_table)),
        ("max_sessions_passthrough", Box::new(max_sessions_passthrough)),
        ("conversion_table", Box::new(conversion_table)),
        ("authz_table", Box::new({
            let seed = ctx.seed;
            move |r: &mut SearchReport| authz_table(r, seed)
        })),
    ];
    for (name, f) in steps {
        let r = match guarded(|| f(&mut rep)) {
            Ok(r) => r,
            Err(p) => Err(format!("panic in {}: {}", name, p)),
        };
        if let Err(e) = r {
            if rep.failure.is_none() {
                if e.starts_with("INFRA:") {
                    rep.health_errors.push(format!("{}: {}", name, e));
                } else {
                    rep.failure = Some(Failure {
                        message: format!("{}: {}", name, e),
                        case: json!({"table": name}),
                        hang: false,
                    });
                }
            }
        }
        if rep.failure.is_some() {
            break;
        }
    }
    if rep.failure.is_none() && rep.health_errors.is_empty() {
        rep.exhaustive = true;
    }
    if rep.stats.samples.is_empty() {
        rep.stats.samples.push(json!({"table": "client", "op": "ReadCoils", "outcome": "exception", "unit": 2}));
    }
    rep
}

pub fn c18_replay(_v: &serde_json::Value) -> CaseResult {
    // the tables are cheap: replay = run them all again
    let ctx = Ctx {
        tier: Tier::Quick,
        seed: 1,
        scale: 1.0,
        threads: 1,
        verif_dir: std::path::PathBuf::from("/verif"),
    };
    let rep = c18_tables(&ctx);
    match rep.failure {
        Some(f) => Err(f.message),
        None => Ok(CaseOk::new()),
    }
}
