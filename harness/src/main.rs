use std::path::PathBuf;

use vh::runner::{self, Ctx, Tier};

fn usage() -> ! {
    eprintln!("usage: vh check <ID> [--tier quick|thorough] [--seed N] [--threads N]\n       vh replay <ID> <file>");
    std::process::exit(2);
}

fn main() {
    let args: Vec<String> = std::env::args().collect();
    if args.len() < 3 {
        usage();
    }
    runner::install_panic_hook();
    vh::trace::init();
    let verif_dir = PathBuf::from(std::env::var("VERIF_DIR").unwrap_or_else(|_| "/verif".to_string()));
    let mut tier = match std::env::var("VERIF_TIER").ok().as_deref() {
        Some("thorough") => Tier::Thorough,
        _ => Tier::Quick,
    };
    let mut seed: u64 = std::env::var("VERIF_SEED")
        .ok()
        .and_then(|s| s.parse().ok())
        .unwrap_or(1);
    let scale: f64 = std::env::var("VERIF_SCALE")
        .ok()
        .and_then(|s| s.parse().ok())
        .unwrap_or(1.0);
    let mut threads: usize = std::env::var("VERIF_THREADS")
        .ok()
        .and_then(|s| s.parse().ok())
        .unwrap_or_else(|| std::thread::available_parallelism().map(|n| n.get()).unwrap_or(8));
    let cmd = args[1].as_str();
    if cmd == "export-fuzz-seeds" {
        let dir = PathBuf::from(&args[2]);
        let n: usize = args.get(3).and_then(|s| s.parse().ok()).unwrap_or(200);
        match vh::props::robust::export_fuzz_seeds(&dir, n, seed) {
            Ok(k) => {
                println!("wrote {} seed files under {}", k, dir.display());
                std::process::exit(0);
            }
            Err(e) => {
                eprintln!("{}", e);
                std::process::exit(2);
            }
        }
    }
    let id = args[2].as_str();
    let prop = match vh::props::property(id) {
        Some(p) => p,
        None => {
            eprintln!("unknown property {}", id);
            std::process::exit(2);
        }
    };
    let prop: &'static runner::Property = Box::leak(Box::new(prop));
    match cmd {
        "check" => {
            let mut i = 3;
            while i < args.len() {
                match args[i].as_str() {
                    "--tier" => {
                        i += 1;
                        tier = match args.get(i).map(|s| s.as_str()) {
                            Some("quick") => Tier::Quick,
                            Some("thorough") => Tier::Thorough,
                            _ => usage(),
                        };
                    }
                    "--seed" => {
                        i += 1;
                        seed = args.get(i).and_then(|s| s.parse().ok()).unwrap_or_else(|| usage());
                    }
                    "--threads" => {
                        i += 1;
                        threads = args.get(i).and_then(|s| s.parse().ok()).unwrap_or_else(|| usage());
                    }
                    _ => usage(),
                }
                i += 1;
            }
            let ctx = Ctx {
                tier,
                seed,
                scale,
                threads,
                verif_dir,
            };
            let code = runner::run_property(&ctx, prop);
            std::process::exit(code);
        }
        "replay" => {
            let file = match args.get(3) {
                Some(f) => PathBuf::from(f),
                None => usage(),
            };
            std::process::exit(runner::replay_file(prop, &file));
        }
        _ => usage(),
    }
}
