#![allow(deprecated)]
//! Driver for the production client request loop over the in-memory transport, with a scripted
//! (reactive) peer, a completion ledger and an emulated connect / reconnect outer loop.

use std::num::NonZeroUsize;
use std::sync::{Arc, Mutex};
use std::time::Duration;

use rodbus::client::{CallbackSession, Channel, FfiChannel, RequestParam, WriteMultiple};
use rodbus::verif::{client_session, ClientSessionEnd, WaitEnd};
use rodbus::{AddressRange, Indexed, RequestError, UnitId};
use serde::{Deserialize, Serialize};

use crate::model::crc::{crc16, rtu_frame};
use crate::model::framing::{deframe_mbap, deframe_rtu, mbap_frame, Direction};
use crate::model::pdu::*;
use crate::sim::{self, IoHandle, IoKind, Peer, ReadEv};
use crate::simsrv::{Decode, Fr};

/// A request as the API user states it (arguments may be invalid)
#[derive(Clone, Debug, PartialEq, Eq, Hash, Serialize, Deserialize)]
pub enum ReqSpec {
    Read { kind: Kind, start: u16, count: u16 },
    WriteCoil { addr: u16, value: bool },
    WriteReg { addr: u16, value: u16 },
    WriteCoils { start: u16, values: Vec<bool> },
    WriteRegs { start: u16, values: Vec<u16> },
}

impl ReqSpec {
    pub fn kind(&self) -> Kind {
        match self {
            ReqSpec::Read { kind, .. } => *kind,
            ReqSpec::WriteCoil { .. } => Kind::WriteCoil,
            ReqSpec::WriteReg { .. } => Kind::WriteReg,
            ReqSpec::WriteCoils { .. } => Kind::WriteCoils,
            ReqSpec::WriteRegs { .. } => Kind::WriteRegs,
        }
    }
    pub fn start(&self) -> u16 {
        match self {
            ReqSpec::Read { start, .. } => *start,
            ReqSpec::WriteCoil { addr, .. } | ReqSpec::WriteReg { addr, .. } => *addr,
            ReqSpec::WriteCoils { start, .. } | ReqSpec::WriteRegs { start, .. } => *start,
        }
    }
    /// number of points as a usize (value vectors may exceed u16)
    pub fn len(&self) -> usize {
        match self {
            ReqSpec::Read { count, .. } => *count as usize,
            ReqSpec::WriteCoil { .. } | ReqSpec::WriteReg { .. } => 1,
            ReqSpec::WriteCoils { values, .. } => values.len(),
            ReqSpec::WriteRegs { values, .. } => values.len(),
        }
    }
    /// The reference says: must this request be accepted (transmitted)?
    pub fn model_accepts(&self) -> bool {
        let n = self.len();
        n >= 1 && self.start() as usize + n <= 65536 && n as u64 <= self.kind().limit() as u64
    }
    /// as a valid request of the reference grammar (only if the model accepts)
    pub fn to_valid(&self) -> Option<ValidReq> {
        if !self.model_accepts() {
            return None;
        }
        Some(match self {
            ReqSpec::Read { kind, start, count } => ValidReq::Read {
                kind: *kind,
                start: *start,
                count: *count,
            },
            ReqSpec::WriteCoil { addr, value } => ValidReq::WriteCoil {
                addr: *addr,
                value: *value,
            },
            ReqSpec::WriteReg { addr, value } => ValidReq::WriteReg {
                addr: *addr,
                value: *value,
            },
            ReqSpec::WriteCoils { start, values } => ValidReq::WriteCoils {
                start: *start,
                values: values.clone(),
            },
            ReqSpec::WriteRegs { start, values } => ValidReq::WriteRegs {
                start: *start,
                values: values.clone(),
            },
        })
    }
}

#[derive(Copy, Clone, Debug, PartialEq, Eq, Hash, Serialize, Deserialize)]
pub enum Style {
    Future,
    Callback,
    Ffi,
}

/// serde mirror of the outcome of a request
#[derive(Clone, Debug, PartialEq, Eq, Hash, Serialize, Deserialize)]
pub enum Res {
    Ok(ReplyValue),
    Exception(u8),
    Io(String),
    BadRequest(String),
    BadFrame(String),
    BadResponse(String),
    Internal(String),
    ResponseTimeout,
    NoConnection,
    Shutdown,
}

impl Res {
    pub fn from_err(e: RequestError) -> Res {
        match e {
            RequestError::Io(k) => Res::Io(format!("{:?}", k)),
            RequestError::Exception(x) => Res::Exception(u8::from(x)),
            RequestError::BadRequest(x) => Res::BadRequest(format!("{:?}", x)),
            RequestError::BadFrame(x) => Res::BadFrame(format!("{:?}", x)),
            RequestError::BadResponse(x) => Res::BadResponse(format!("{:?}", x)),
            RequestError::Internal(x) => Res::Internal(format!("{:?}", x)),
            RequestError::ResponseTimeout => Res::ResponseTimeout,
            RequestError::NoConnection => Res::NoConnection,
            RequestError::Shutdown => Res::Shutdown,
        }
    }
    pub fn is_ok(&self) -> bool {
        matches!(self, Res::Ok(_))
    }
    pub fn class(&self) -> &'static str {
        match self {
            Res::Ok(_) => "ok",
            Res::Exception(_) => "exception",
            Res::Io(_) => "io",
            Res::BadRequest(_) => "bad_request",
            Res::BadFrame(_) => "bad_frame",
            Res::BadResponse(_) => "bad_response",
            Res::Internal(_) => "internal",
            Res::ResponseTimeout => "timeout",
            Res::NoConnection => "no_connection",
            Res::Shutdown => "shutdown",
        }
    }
}

/// How a call was refused before a request existed
#[derive(Clone, Debug, PartialEq, Eq, Hash, Serialize, Deserialize)]
pub enum Refusal {
    /// a public constructor (AddressRange::try_from / WriteMultiple::from) returned an error
    Constructor(String),
    /// FfiChannel returned an error from the call
    FfiFull,
    FfiClosed,
    FfiBadRange,
}

#[derive(Clone, Debug, PartialEq, Eq)]
pub struct Completion {
    pub id: usize,
    pub at: Duration,
    pub res: Res,
}

#[derive(Clone, Debug, Default)]
pub struct Ledger {
    pub completions: Vec<Completion>,
    pub refusals: Vec<(usize, Duration, Refusal)>,
    /// ids whose caller future was dropped by the script (completion is unobservable)
    pub cancelled: Vec<usize>,
    pub submitted: Vec<(usize, Duration)>,
}

pub type SharedLedger = Arc<Mutex<Ledger>>;

/// How the peer chooses the transaction id of a frame it sends
#[derive(Copy, Clone, Debug, PartialEq, Eq, Hash, Serialize, Deserialize)]
pub enum TxSel {
    Echo,
    /// tx of the request plus this offset (mod 65536); 0 is Echo
    Offset(u16),
}

#[derive(Clone, Debug, PartialEq, Eq, Hash, Serialize, Deserialize)]
pub enum PduSel {
    /// the genuine reply, values derived from the seed
    Genuine(u64),
    Exception(u8),
    /// these bytes as the PDU
    Bytes(Vec<u8>),
    /// a well-framed reply of another supported function (write-single echo)
    OtherFunction,
}

#[derive(Clone, Debug, PartialEq, Eq, Hash, Serialize, Deserialize)]
pub enum PeerAct {
    /// a well-formed frame `delay_ms` after the request was written; optionally split in two
    /// parts, the second `gap_ms` later
    Frame {
        delay_ms: u32,
        tx: TxSel,
        pdu: PduSel,
        split: Option<(u16, u32)>,
    },
    Raw {
        delay_ms: u32,
        bytes: Vec<u8>,
    },
    Eof {
        delay_ms: u32,
    },
    Err {
        delay_ms: u32,
        kind: IoKind,
    },
}

/// What the peer does when it receives the k-th request on a connection
#[derive(Clone, Debug, Default, PartialEq, Eq, Hash, Serialize, Deserialize)]
pub struct PeerPlan {
    pub per_request: Vec<Vec<PeerAct>>,
    /// used when the index is beyond `per_request`
    pub default: Vec<PeerAct>,
}

#[derive(Clone, Debug, PartialEq, Eq, Hash, Serialize, Deserialize)]
pub struct ConnPlan {
    pub peer: PeerPlan,
    pub fail_write_at: Option<(usize, IoKind)>,
    /// bytes the peer sends unsolicited right after the connection is up: (delay_ms, bytes)
    pub unsolicited: Vec<(u32, Vec<u8>)>,
    /// back-pressure: after this many bytes the transport accepts nothing for this many ms (only
    /// meaningful with a peer that never answers: it then sees requests in fragments)
    #[serde(default)]
    pub write_stall: Option<(u32, u32)>,
}

/// Everything the peer saw and did, for the oracles
#[derive(Clone, Debug, Default)]
pub struct PeerLog {
    /// (virtual time, raw bytes of one write)
    pub writes: Vec<(Duration, Vec<u8>)>,
    /// decoded requests in order: (time, tx, unit, pdu)
    pub requests: Vec<(Duration, Option<u16>, u8, Vec<u8>)>,
    /// frames the peer scheduled: (request ordinal, scheduled completion time, tx used, pdu)
    pub sent: Vec<(usize, Duration, Option<u16>, Vec<u8>)>,
}

struct PlanPeer {
    /// absolute virtual time at which the connection was created
    base: Duration,
    fr: Fr,
    plan: PeerPlan,
    seen: usize,
    log: Arc<Mutex<PeerLog>>,
    /// bytes of a request that has not arrived completely yet (a transport under back-pressure
    /// accepts a frame in pieces)
    acc: Vec<u8>,
}

pub fn genuine_values(seed: u64) -> (Vec<bool>, Vec<u16>) {
    let mut x = seed | 1;
    let mut bits = Vec::with_capacity(64);
    let mut regs = Vec::with_capacity(16);
    for _ in 0..64 {
        x ^= x << 13;
        x ^= x >> 7;
        x ^= x << 17;
        bits.push(x & 1 == 1);
    }
    for _ in 0..16 {
        x ^= x << 13;
        x ^= x >> 7;
        x ^= x << 17;
        regs.push(x as u16);
    }
    (bits, regs)
}

pub fn frame_reply(fr: Fr, tx: u16, unit: u8, pdu: &[u8]) -> Vec<u8> {
    match fr {
        Fr::Mbap => mbap_frame(tx, unit, pdu),
        Fr::Rtu => rtu_frame(unit, pdu),
    }
}

impl Peer for PlanPeer {
    fn on_write(&mut self, now: Duration, data: &[u8]) -> Vec<(Duration, ReadEv)> {
        self.log.lock().unwrap().writes.push((now + self.base, data.to_vec()));
        if self.acc.is_empty() {
            // the usual case: one write, one frame (or something the deframer cannot place:
            // handled as one request as before)
            let whole = match self.fr {
                Fr::Mbap => matches!(deframe_mbap(data).1, crate::model::framing::MbapEnd::Partial(_)),
                Fr::Rtu => matches!(deframe_rtu(Direction::Request, data).1, crate::model::framing::RtuEnd::Partial(_)),
            };
            if !whole {
                return self.on_request(now, data);
            }
        }
        // a frame arriving in pieces: act when it is complete
        self.acc.extend_from_slice(data);
        let partial = match self.fr {
            Fr::Mbap => matches!(deframe_mbap(&self.acc).1, crate::model::framing::MbapEnd::Partial(_)),
            Fr::Rtu => matches!(deframe_rtu(Direction::Request, &self.acc).1, crate::model::framing::RtuEnd::Partial(_)),
        };
        if partial {
            return Vec::new();
        }
        let whole = std::mem::take(&mut self.acc);
        self.on_request(now, &whole)
    }
}

impl PlanPeer {
    fn on_request(&mut self, now: Duration, data: &[u8]) -> Vec<(Duration, ReadEv)> {
        // the logs carry absolute times
        let now = now + self.base;
        let k = self.seen;
        self.seen += 1;
        let mut log = self.log.lock().unwrap();
        // decode what was written with the reference deframer
        let (tx, unit, pdu) = match self.fr {
            Fr::Mbap => {
                let (frames, _) = deframe_mbap(data);
                match frames.first() {
                    Some(f) => (Some(f.tx), f.unit, f.pdu.clone()),
                    None => (None, 0, Vec::new()),
                }
            }
            Fr::Rtu => {
                let (frames, _) = deframe_rtu(Direction::Request, data);
                match frames.first() {
                    Some(f) => (None, f.addr, f.pdu.clone()),
                    None => (None, 0, Vec::new()),
                }
            }
        };
        log.requests.push((now, tx, unit, pdu.clone()));
        let acts = self
            .plan
            .per_request
            .get(k)
            .cloned()
            .unwrap_or_else(|| self.plan.default.clone());
        let req = match classify_request(&pdu) {
            ReqClass::Valid(r) => Some(r),
            _ => None,
        };
        let mut out: Vec<(Duration, ReadEv)> = Vec::new();
        let last = std::cell::Cell::new(Duration::ZERO);
        let push = |d: Duration, ev: ReadEv, out: &mut Vec<(Duration, ReadEv)>| {
            let d = if d < last.get() { last.get() } else { d };
            last.set(d);
            out.push((d, ev));
        };
        for a in acts {
            match a {
                PeerAct::Frame {
                    delay_ms,
                    tx: txsel,
                    pdu: sel,
                    split,
                } => {
                    let reply_pdu = match sel {
                        PduSel::Genuine(seed) => match &req {
                            Some(r) => {
                                let (b, g) = genuine_values(seed);
                                genuine_reply(r, &b, &g)
                            }
                            None => vec![pdu.first().copied().unwrap_or(0) | 0x80, 1],
                        },
                        PduSel::Exception(code) => {
                            vec![pdu.first().copied().unwrap_or(0) | 0x80, code]
                        }
                        PduSel::Bytes(b) => b,
                        PduSel::OtherFunction => {
                            if pdu.first().copied() == Some(6) {
                                vec![5, 0, 0, 0, 0]
                            } else {
                                vec![6, 0, 0, 0, 0]
                            }
                        }
                    };
                    let txv = match txsel {
                        TxSel::Echo => tx.unwrap_or(0),
                        TxSel::Offset(o) => tx.unwrap_or(0).wrapping_add(o),
                    };
                    let bytes = frame_reply(self.fr, txv, unit, &reply_pdu);
                    let d = Duration::from_millis(delay_ms as u64);
                    match split {
                        Some((cut, gap)) if (cut as usize) > 0 && (cut as usize) < bytes.len() => {
                            let c = cut as usize;
                            push(d, ReadEv::Chunk(bytes[..c].to_vec()), &mut out);
                            let d2 = d + Duration::from_millis(gap as u64);
                            push(d2, ReadEv::Chunk(bytes[c..].to_vec()), &mut out);
                            log.sent.push((
                                k,
                                now + last.get(),
                                if self.fr == Fr::Mbap { Some(txv) } else { None },
                                reply_pdu,
                            ));
                        }
                        _ => {
                            push(d, ReadEv::Chunk(bytes), &mut out);
                            log.sent.push((
                                k,
                                now + last.get(),
                                if self.fr == Fr::Mbap { Some(txv) } else { None },
                                reply_pdu,
                            ));
                        }
                    }
                }
                PeerAct::Raw { delay_ms, bytes } => {
                    push(
                        Duration::from_millis(delay_ms as u64),
                        ReadEv::Chunk(bytes),
                        &mut out,
                    );
                }
                PeerAct::Eof { delay_ms } => {
                    push(Duration::from_millis(delay_ms as u64), ReadEv::Eof, &mut out);
                }
                PeerAct::Err { delay_ms, kind } => {
                    push(
                        Duration::from_millis(delay_ms as u64),
                        ReadEv::Err(kind),
                        &mut out,
                    );
                }
            }
        }
        out
    }
}

#[derive(Clone, Debug, PartialEq, Eq, Hash, Serialize, Deserialize)]
pub struct CliConfig {
    pub framing: Fr,
    pub decode: Decode,
    pub max_timeouts: Option<u16>,
    pub queue: usize,
    /// delay the emulated outer loop waits after a failed connect / lost connection
    pub retry_ms: u32,
}

#[derive(Clone, Debug, PartialEq, Eq, Hash, Serialize, Deserialize)]
pub enum COp {
    Submit {
        id: usize,
        style: Style,
        handle: usize,
        unit: u8,
        timeout_ms: u32,
        req: ReqSpec,
    },
    /// the peer sends bytes on the current connection now
    PeerBytes(Vec<u8>),
    PeerEof,
    PeerErr(IoKind),
    Advance(u32),
    Enable(usize),
    Disable(usize),
    SetDecode(usize, Decode),
    Shutdown(usize),
    CloneHandle(usize),
    DropHandle(usize),
    /// drop the caller's future of a Future-style submission
    DropFuture(usize),
    AbortTask,
    /// yield to the runtime without advancing time
    Yield,
}

#[derive(Clone, Debug, PartialEq, Eq)]
pub enum LoopEvent {
    WaitEnabled,
    Connected(usize),
    SessionEnd(usize, String),
    FailedConnect,
    WaitEnd(String),
    TaskEnd,
}

#[derive(Clone, Debug)]
pub struct CliRun {
    pub ledger: Ledger,
    /// one peer log per connection
    pub peers: Vec<PeerLog>,
    /// (time, event) of the emulated outer loop
    pub events: Vec<(Duration, LoopEvent)>,
    pub task_ended: bool,
    pub aborted: bool,
    pub final_time: Duration,
    /// ops that reported Err(Shutdown) from a handle: (op index, time)
    pub handle_shutdown_errors: Vec<(usize, Duration)>,
    pub op_times: Vec<Duration>,
    /// how often the client task future was polled
    pub polls: u64,
}

fn record(ledger: &SharedLedger, start: tokio::time::Instant, id: usize, res: Res) {
    let at = tokio::time::Instant::now() - start;
    ledger
        .lock()
        .unwrap()
        .completions
        .push(Completion { id, at, res });
}

fn bits_value(v: Vec<Indexed<bool>>) -> ReplyValue {
    ReplyValue::Bits(v.into_iter().map(|x| (x.index, x.value)).collect())
}

fn regs_value(v: Vec<Indexed<u16>>) -> ReplyValue {
    ReplyValue::Regs(v.into_iter().map(|x| (x.index, x.value)).collect())
}

/// Build the request arguments through the public constructors only
enum Built {
    Read(Kind, AddressRange),
    WriteCoil(Indexed<bool>),
    WriteReg(Indexed<u16>),
    WriteCoils(WriteMultiple<bool>),
    WriteRegs(WriteMultiple<u16>),
}

fn build(req: &ReqSpec) -> Result<Built, String> {
    Ok(match req {
        ReqSpec::Read { kind, start, count } => match AddressRange::try_from(*start, *count) {
            Ok(r) => Built::Read(*kind, r),
            // the fields of AddressRange are public: half of the ranges the constructor refuses
            // are handed to the channel as a struct literal, as any caller can do
            Err(_) if (start ^ count) & 1 == 0 => Built::Read(
                *kind,
                AddressRange {
                    start: *start,
                    count: *count,
                },
            ),
            Err(e) => return Err(format!("{:?}", e)),
        },
        ReqSpec::WriteCoil { addr, value } => Built::WriteCoil(Indexed::new(*addr, *value)),
        ReqSpec::WriteReg { addr, value } => Built::WriteReg(Indexed::new(*addr, *value)),
        ReqSpec::WriteCoils { start, values } => Built::WriteCoils(
            WriteMultiple::from(*start, values.clone()).map_err(|e| format!("{:?}", e))?,
        ),
        ReqSpec::WriteRegs { start, values } => Built::WriteRegs(
            WriteMultiple::from(*start, values.clone()).map_err(|e| format!("{:?}", e))?,
        ),
    })
}

async fn submit_future(ch: Channel, param: RequestParam, built: Built) -> Res {
    match built {
        Built::Read(Kind::ReadCoils, r) => match ch.read_coils(param, r).await {
            Ok(v) => Res::Ok(bits_value(v)),
            Err(e) => Res::from_err(e),
        },
        Built::Read(Kind::ReadDiscrete, r) => match ch.read_discrete_inputs(param, r).await {
            Ok(v) => Res::Ok(bits_value(v)),
            Err(e) => Res::from_err(e),
        },
        Built::Read(Kind::ReadHolding, r) => match ch.read_holding_registers(param, r).await {
            Ok(v) => Res::Ok(regs_value(v)),
            Err(e) => Res::from_err(e),
        },
        Built::Read(_, r) => match ch.read_input_registers(param, r).await {
            Ok(v) => Res::Ok(regs_value(v)),
            Err(e) => Res::from_err(e),
        },
        Built::WriteCoil(x) => match ch.write_single_coil(param, x).await {
            Ok(v) => Res::Ok(ReplyValue::EchoCoil(v.index, v.value)),
            Err(e) => Res::from_err(e),
        },
        Built::WriteReg(x) => match ch.write_single_register(param, x).await {
            Ok(v) => Res::Ok(ReplyValue::EchoReg(v.index, v.value)),
            Err(e) => Res::from_err(e),
        },
        Built::WriteCoils(x) => match ch.write_multiple_coils(param, x).await {
            Ok(v) => Res::Ok(ReplyValue::EchoRange(v.start, v.count)),
            Err(e) => Res::from_err(e),
        },
        Built::WriteRegs(x) => match ch.write_multiple_registers(param, x).await {
            Ok(v) => Res::Ok(ReplyValue::EchoRange(v.start, v.count)),
            Err(e) => Res::from_err(e),
        },
    }
}

/// One request through the future-style API of any channel (used by the real-socket searches)
pub async fn do_request(ch: &Channel, unit: u8, timeout: Duration, req: &ReqSpec) -> Res {
    match build(req) {
        Ok(b) => submit_future(ch.clone(), RequestParam::new(UnitId::new(unit), timeout), b).await,
        Err(e) => Res::BadRequest(e),
    }
}

fn bit_iter_value(
    r: Result<rodbus::BitIterator, RequestError>,
) -> Res {
    match r {
        Ok(it) => Res::Ok(ReplyValue::Bits(it.map(|x| (x.index, x.value)).collect())),
        Err(e) => Res::from_err(e),
    }
}

fn reg_iter_value(
    r: Result<rodbus::RegisterIterator, RequestError>,
) -> Res {
    match r {
        Ok(it) => Res::Ok(ReplyValue::Regs(it.map(|x| (x.index, x.value)).collect())),
        Err(e) => Res::from_err(e),
    }
}

#[allow(deprecated)]
async fn submit_callback(
    ch: Channel,
    param: RequestParam,
    built: Built,
    ledger: SharedLedger,
    start: tokio::time::Instant,
    id: usize,
) {
    let mut s = CallbackSession::new(ch, param);
    let l = ledger.clone();
    match built {
        Built::Read(Kind::ReadCoils, r) => {
            s.read_coils(r, move |x| record(&l, start, id, bit_iter_value(x))).await
        }
        Built::Read(Kind::ReadDiscrete, r) => {
            s.read_discrete_inputs(r, move |x| record(&l, start, id, bit_iter_value(x)))
                .await
        }
        Built::Read(Kind::ReadHolding, r) => {
            s.read_holding_registers(r, move |x| record(&l, start, id, reg_iter_value(x)))
                .await
        }
        Built::Read(_, r) => {
            s.read_input_registers(r, move |x| record(&l, start, id, reg_iter_value(x)))
                .await
        }
        Built::WriteCoil(v) => {
            s.write_single_coil(v, move |x| {
                record(
                    &l,
                    start,
                    id,
                    match x {
                        Ok(v) => Res::Ok(ReplyValue::EchoCoil(v.index, v.value)),
                        Err(e) => Res::from_err(e),
                    },
                )
            })
            .await
        }
        Built::WriteReg(v) => {
            s.write_single_register(v, move |x| {
                record(
                    &l,
                    start,
                    id,
                    match x {
                        Ok(v) => Res::Ok(ReplyValue::EchoReg(v.index, v.value)),
                        Err(e) => Res::from_err(e),
                    },
                )
            })
            .await
        }
        Built::WriteCoils(v) => {
            s.write_multiple_coils(v, move |x| {
                record(
                    &l,
                    start,
                    id,
                    match x {
                        Ok(v) => Res::Ok(ReplyValue::EchoRange(v.start, v.count)),
                        Err(e) => Res::from_err(e),
                    },
                )
            })
            .await
        }
        Built::WriteRegs(v) => {
            s.write_multiple_registers(v, move |x| {
                record(
                    &l,
                    start,
                    id,
                    match x {
                        Ok(v) => Res::Ok(ReplyValue::EchoRange(v.start, v.count)),
                        Err(e) => Res::from_err(e),
                    },
                )
            })
            .await
        }
    }
}

fn submit_ffi(
    ch: Channel,
    param: RequestParam,
    built: Built,
    ledger: SharedLedger,
    start: tokio::time::Instant,
    id: usize,
) -> Result<(), Refusal> {
    use rodbus::client::FfiChannelError;
    let mut s = FfiChannel::new(ch);
    let l = ledger.clone();
    let r = match built {
        Built::Read(Kind::ReadCoils, r) => {
            s.read_coils(param, r, move |x| record(&l, start, id, bit_iter_value(x)))
        }
        Built::Read(Kind::ReadDiscrete, r) => {
            s.read_discrete_inputs(param, r, move |x| record(&l, start, id, bit_iter_value(x)))
        }
        Built::Read(Kind::ReadHolding, r) => {
            s.read_holding_registers(param, r, move |x| record(&l, start, id, reg_iter_value(x)))
        }
        Built::Read(_, r) => {
            s.read_input_registers(param, r, move |x| record(&l, start, id, reg_iter_value(x)))
        }
        Built::WriteCoil(v) => s.write_single_coil(param, v, move |x| {
            record(
                &l,
                start,
                id,
                match x {
                    Ok(v) => Res::Ok(ReplyValue::EchoCoil(v.index, v.value)),
                    Err(e) => Res::from_err(e),
                },
            )
        }),
        Built::WriteReg(v) => s.write_single_register(param, v, move |x| {
            record(
                &l,
                start,
                id,
                match x {
                    Ok(v) => Res::Ok(ReplyValue::EchoReg(v.index, v.value)),
                    Err(e) => Res::from_err(e),
                },
            )
        }),
        Built::WriteCoils(v) => s.write_multiple_coils(param, v, move |x| {
            record(
                &l,
                start,
                id,
                match x {
                    Ok(v) => Res::Ok(ReplyValue::EchoRange(v.start, v.count)),
                    Err(e) => Res::from_err(e),
                },
            )
        }),
        Built::WriteRegs(v) => s.write_multiple_registers(param, v, move |x| {
            record(
                &l,
                start,
                id,
                match x {
                    Ok(v) => Res::Ok(ReplyValue::EchoRange(v.start, v.count)),
                    Err(e) => Res::from_err(e),
                },
            )
        }),
    };
    match r {
        Ok(()) => Ok(()),
        Err(FfiChannelError::ChannelFull) => Err(Refusal::FfiFull),
        Err(FfiChannelError::ChannelClosed) => Err(Refusal::FfiClosed),
        Err(FfiChannelError::BadRange(_)) => Err(Refusal::FfiBadRange),
    }
}

#[derive(Clone, Debug, PartialEq, Eq, Hash, Serialize, Deserialize)]
pub struct CliCase {
    pub cfg: CliConfig,
    pub conns: Vec<ConnPlan>,
    pub ops: Vec<COp>,
    pub select_seed: u64,
    /// whether the first handle enables the channel before the script starts
    pub pre_enable: bool,
}

/// Run the production client loop against the script
pub fn run_client(case: &CliCase) -> CliRun {
    crate::trace::init();
    let rt = sim::runtime(case.select_seed);
    let fr = case.cfg.framing;
    let ledger: SharedLedger = Arc::new(Mutex::new(Ledger::default()));
    let events: Arc<Mutex<Vec<(Duration, LoopEvent)>>> = Arc::new(Mutex::new(Vec::new()));
    let peer_logs: Arc<Mutex<Vec<Arc<Mutex<PeerLog>>>>> = Arc::new(Mutex::new(Vec::new()));
    let cur_io: Arc<Mutex<Option<IoHandle>>> = Arc::new(Mutex::new(None));

    let out = rt.block_on(async {
        let start = tokio::time::Instant::now();
        let (channel, mut sess) = client_session(
            fr.rodbus(),
            case.cfg.decode.to_rodbus(),
            case.cfg
                .max_timeouts
                .and_then(|n| NonZeroUsize::new(n as usize)),
            case.cfg.queue.max(1),
        );
        let conns = case.conns.clone();
        let retry = Duration::from_millis(case.cfg.retry_ms as u64);
        let ev = events.clone();
        let pl = peer_logs.clone();
        let cio = cur_io.clone();
        // the emulated outer loop: the same shape as TcpChannelTask::run_inner
        let (task_fut, polls) = sim::PollCounted::new(async move {
            let log = |e: LoopEvent| {
                ev.lock()
                    .unwrap()
                    .push((tokio::time::Instant::now() - start, e));
            };
            let mut attempt = 0usize;
            loop {
                log(LoopEvent::WaitEnabled);
                if sess.wait_for_enabled().await.is_err() {
                    break;
                }
                let k = attempt;
                attempt += 1;
                let wait_end = if let Some(plan) = conns.get(k) {
                    let plog = Arc::new(Mutex::new(PeerLog::default()));
                    pl.lock().unwrap().push(plog.clone());
                    let peer = PlanPeer {
                        base: tokio::time::Instant::now() - start,
                        fr,
                        plan: plan.peer.clone(),
                        seen: 0,
                        log: plog,
                        acc: Vec::new(),
                    };
                    let script: Vec<(Duration, ReadEv)> = {
                        let mut t = 0u64;
                        let mut v = Vec::new();
                        for (d, b) in &plan.unsolicited {
                            let d = *d as u64;
                            let rel = d.saturating_sub(t);
                            t = t.max(d);
                            v.push((Duration::from_millis(rel), ReadEv::Chunk(b.clone())));
                        }
                        v
                    };
                    let (io, ioh) = sim::script_io(script, plan.fail_write_at, Some(Box::new(peer)));
                    if let Some((after, ms)) = plan.write_stall {
                        ioh.set_write_stall(after as usize, Duration::from_millis(ms as u64));
                    }
                    *cio.lock().unwrap() = Some(ioh);
                    log(LoopEvent::Connected(k));
                    let end = sess.run(Box::new(io)).await;
                    *cio.lock().unwrap() = None;
                    log(LoopEvent::SessionEnd(k, format!("{:?}", end)));
                    match end {
                        ClientSessionEnd::Shutdown => break,
                        ClientSessionEnd::Disabled => continue,
                        _ => sess.fail_requests_for(retry).await,
                    }
                } else {
                    log(LoopEvent::FailedConnect);
                    sess.fail_requests_for(retry).await
                };
                log(LoopEvent::WaitEnd(format!("{:?}", wait_end)));
                if wait_end == WaitEnd::Shutdown {
                    break;
                }
            }
            log(LoopEvent::TaskEnd);
        });
        let task = tokio::spawn(task_fut);

        let mut handles: Vec<Option<Channel>> = vec![Some(channel)];
        let mut futures: std::collections::BTreeMap<usize, tokio::task::JoinHandle<()>> =
            Default::default();
        let mut handle_shutdown_errors = Vec::new();
        let mut op_times = Vec::new();
        let mut aborted = false;

        if case.pre_enable {
            if let Some(Some(h)) = handles.first() {
                let _ = h.enable().await;
            }
            tokio::task::yield_now().await;
        }

        for (opi, op) in case.ops.iter().enumerate() {
            op_times.push(tokio::time::Instant::now() - start);
            match op {
                COp::Submit {
                    id,
                    style,
                    handle,
                    unit,
                    timeout_ms,
                    req,
                } => {
                    let ch = match handles.get(*handle % handles.len()).and_then(|h| h.clone()) {
                        Some(c) => c,
                        None => match handles.iter().flatten().next() {
                            Some(c) => c.clone(),
                            None => continue,
                        },
                    };
                    let param = RequestParam::new(
                        UnitId::new(*unit),
                        // u32::MAX stands for "no timeout": the largest Duration there is
                        if *timeout_ms == u32::MAX { Duration::MAX } else { Duration::from_millis(*timeout_ms as u64) },
                    );
                    let now = tokio::time::Instant::now() - start;
                    let built = match build(req) {
                        Ok(b) => b,
                        Err(e) => {
                            ledger
                                .lock()
                                .unwrap()
                                .refusals
                                .push((*id, now, Refusal::Constructor(e)));
                            continue;
                        }
                    };
                    ledger.lock().unwrap().submitted.push((*id, now));
                    let id = *id;
                    match style {
                        Style::Future => {
                            let l = ledger.clone();
                            let jh = tokio::spawn(async move {
                                let res = submit_future(ch, param, built).await;
                                record(&l, start, id, res);
                            });
                            futures.insert(id, jh);
                        }
                        Style::Callback => {
                            let l = ledger.clone();
                            let jh = tokio::spawn(async move {
                                submit_callback(ch, param, built, l, start, id).await;
                            });
                            // the send itself may wait for queue capacity; completion is through
                            // the callback, so dropping this task later only matters before send
                            futures.insert(1_000_000 + id, jh);
                        }
                        Style::Ffi => {
                            if let Err(r) = submit_ffi(ch, param, built, ledger.clone(), start, id) {
                                ledger.lock().unwrap().refusals.push((id, now, r));
                            }
                        }
                    }
                    tokio::task::yield_now().await;
                }
                COp::PeerBytes(b) => {
                    if let Some(io) = cur_io.lock().unwrap().as_ref() {
                        io.push(Duration::ZERO, ReadEv::Chunk(b.clone()));
                    }
                    tokio::task::yield_now().await;
                }
                COp::PeerEof => {
                    if let Some(io) = cur_io.lock().unwrap().as_ref() {
                        io.push(Duration::ZERO, ReadEv::Eof);
                    }
                    tokio::task::yield_now().await;
                }
                COp::PeerErr(k) => {
                    if let Some(io) = cur_io.lock().unwrap().as_ref() {
                        io.push(Duration::ZERO, ReadEv::Err(*k));
                    }
                    tokio::task::yield_now().await;
                }
                COp::Advance(ms) => {
                    tokio::time::sleep(Duration::from_millis(*ms as u64)).await;
                }
                COp::Yield => tokio::task::yield_now().await,
                COp::Enable(h) | COp::Disable(h) | COp::Shutdown(h) | COp::SetDecode(h, _) => {
                    let ch = handles.get(*h % handles.len()).and_then(|x| x.clone());
                    if let Some(ch) = ch {
                        // a full queue must not block the script: run the call in its own task
                        let op = op.clone();
                        let errs_at = tokio::time::Instant::now() - start;
                        let jh = tokio::spawn(async move {
                            let r = match op {
                                COp::Enable(_) => ch.enable().await,
                                COp::Disable(_) => ch.disable().await,
                                COp::Shutdown(_) => ch.shutdown().await,
                                COp::SetDecode(_, d) => ch.set_decode_level(d.to_rodbus()).await,
                                _ => Ok(()),
                            };
                            r.is_err()
                        });
                        tokio::task::yield_now().await;
                        if jh.is_finished() {
                            if let Ok(true) = jh.await {
                                handle_shutdown_errors.push((opi, errs_at));
                            }
                        }
                    }
                }
                COp::CloneHandle(h) => {
                    let c = handles.get(*h % handles.len()).and_then(|x| x.clone());
                    if let Some(c) = c {
                        handles.push(Some(c));
                    }
                }
                COp::DropHandle(h) => {
                    let n = handles.len();
                    handles[*h % n] = None;
                    tokio::task::yield_now().await;
                }
                COp::DropFuture(id) => {
                    if let Some(jh) = futures.remove(id) {
                        if !jh.is_finished() {
                            jh.abort();
                            ledger.lock().unwrap().cancelled.push(*id);
                        }
                    }
                    tokio::task::yield_now().await;
                }
                COp::AbortTask => {
                    task.abort();
                    aborted = true;
                    tokio::task::yield_now().await;
                }
            }
        }
        // quiesce: drop every handle, let time run past every deadline
        handles.clear();
        tokio::time::sleep(Duration::from_secs(200_000)).await;
        let task_ended = task.is_finished();
        // pending submit tasks hold channel clones (a Future-style submit blocked on a full
        // queue); they are dropped here, after which the task must end
        for (_, jh) in futures.iter() {
            if !jh.is_finished() {
                jh.abort();
            }
        }
        tokio::time::sleep(Duration::from_secs(200_000)).await;
        let task_ended = task_ended || task.is_finished();
        let final_time = tokio::time::Instant::now() - start;
        (
            task_ended,
            aborted,
            final_time,
            handle_shutdown_errors,
            op_times,
            polls.load(std::sync::atomic::Ordering::Relaxed),
        )
    });
    drop(rt);
    let ledger = ledger.lock().unwrap().clone();
    let peers = peer_logs
        .lock()
        .unwrap()
        .iter()
        .map(|p| p.lock().unwrap().clone())
        .collect();
    let events = events.lock().unwrap().clone();
    CliRun {
        ledger,
        peers,
        events,
        task_ended: out.0,
        aborted: out.1,
        final_time: out.2,
        handle_shutdown_errors: out.3,
        op_times: out.4,
        polls: out.5,
    }
}

/// Expected request frame for a valid request
pub fn expected_request_frame(fr: Fr, tx: u16, unit: u8, req: &ValidReq) -> Vec<u8> {
    let pdu = encode_request(req);
    match fr {
        Fr::Mbap => mbap_frame(tx, unit, &pdu),
        Fr::Rtu => {
            let mut v = vec![unit];
            v.extend_from_slice(&pdu);
            let c = crc16(&v);
            v.push((c & 0xFF) as u8);
            v.push((c >> 8) as u8);
            v
        }
    }
}
