//! C20 on the real TCP and TLS server tasks: bursts of decode-level changes sent through the
//! ServerHandle while a transaction is outstanding (the handler is still running). The sim hook
//! runs one session without the listener task that forwards level changes to the sessions, so
//! only a real server shows what that forwarding does to a busy session.

use std::sync::atomic::{AtomicU64, Ordering};
use std::sync::Arc;
use std::time::Duration;

use proptest::collection::vec;
use proptest::prelude::*;
use rodbus::server::{AddressFilter, RequestHandler, ServerHandlerMap, TlsServerConfig};
use rodbus::{ExceptionCode, UnitId};
use serde::{Deserialize, Serialize};
use tokio::io::AsyncWriteExt;
use tokio::net::{TcpListener, TcpStream};
use tokio_rustls::rustls::pki_types::ServerName;

use super::c09::{path, peer_client_config, Offer};
use super::*;
use crate::gen::arb_decode_any;
use crate::model::framing::mbap_frame;
use crate::runner::{CaseOk, CaseResult};
use crate::simsrv::Decode;

#[derive(Clone, Debug, PartialEq, Eq, Hash, Serialize, Deserialize)]
pub struct BurstCase {
    pub tls: bool,
    pub initial: Decode,
    pub sessions: u8,
    /// (session the slow request goes to, level changes sent while it is outstanding, the level,
    /// how long the handler takes in ms)
    pub rounds: Vec<(u8, u8, Decode, u8)>,
}

pub fn arb_burst() -> BoxedStrategy<BurstCase> {
    (
        prop::bool::weighted(0.35),
        arb_decode_any(),
        1u8..=3,
        vec(
            (
                any::<u8>(),
                prop_oneof![2 => 0u8..=8, 3 => 9u8..=20, 1 => Just(40u8)],
                arb_decode_any(),
                prop::sample::select(vec![10u8, 25, 60]),
            ),
            1..4,
        ),
    )
        .prop_map(|(tls, initial, sessions, rounds)| BurstCase {
            tls,
            initial,
            sessions,
            rounds,
        })
        .boxed()
}

struct Slow {
    hold_ms: Arc<AtomicU64>,
    calls: Arc<AtomicU64>,
}

impl RequestHandler for Slow {
    fn read_holding_register(&self, address: u16) -> Result<u16, ExceptionCode> {
        self.calls.fetch_add(1, Ordering::SeqCst);
        match address {
            0 => Ok(0xBEEF),
            1 => {
                std::thread::sleep(Duration::from_millis(self.hold_ms.load(Ordering::SeqCst)));
                Ok(0x1234)
            }
            _ => Err(ExceptionCode::IllegalDataAddress),
        }
    }
}

pub fn check_burst(case: &BurstCase) -> CaseResult {
    retry3(|slow| run_once(case, slow))
}

fn run_once(case: &BurstCase, slow: u32) -> CaseResult {
    let rt = rt(4);
    let wait = Duration::from_millis(2000 * slow as u64);
    let case = case.clone();
    rt.block_on(async move {
        let listener = TcpListener::bind("127.0.0.1:0").await.map_err(|e| format!("INFRA: bind: {}", e))?;
        let addr = listener.local_addr().unwrap();
        let hold_ms = Arc::new(AtomicU64::new(10));
        let calls = Arc::new(AtomicU64::new(0));
        let map = ServerHandlerMap::single(
            UnitId::new(1),
            Slow {
                hold_ms: hold_ms.clone(),
                calls: calls.clone(),
            }
            .wrap(),
        );
        let (mut handle, task) = if case.tls {
            let cfg = TlsServerConfig::new(
                &path("ca1", "pem"),
                &path("server_ok", "pem"),
                &path("server_ok", "key"),
                None,
                super::c09::min_tls(12),
                rodbus::client::CertificateMode::AuthorityBased,
            )
            .map_err(|e| format!("INFRA: tls config {}", e))?;
            rodbus::server::create_tls_server_task(8, listener, map, cfg, AddressFilter::Any, case.initial.to_rodbus())
        } else {
            rodbus::server::create_tcp_server_task(8, listener, map, AddressFilter::Any, case.initial.to_rodbus())
        };
        let join = tokio::spawn(task.run());
        let connector = tokio_rustls::TlsConnector::from(peer_client_config(Offer::Both, Some("client_operator")));
        let mut conns: Vec<Link> = Vec::new();
        for _ in 0..case.sessions {
            let s = TcpStream::connect(addr).await.map_err(|e| format!("INFRA: connect {}", e))?;
            let _ = s.set_nodelay(true);
            if case.tls {
                let name = ServerName::try_from("test.com").unwrap();
                match tokio::time::timeout(wait, connector.connect(name, s)).await {
                    Ok(Ok(t)) => conns.push(Box::new(t)),
                    _ => return Err("INFRA: TLS handshake with the server failed".to_string()),
                }
            } else {
                conns.push(Box::new(s));
            }
        }
        let mut tx: u16 = 0;
        let mut sent: u64 = 0;
        // every session answers before anything else happens
        for (i, c) in conns.iter_mut().enumerate() {
            tx = tx.wrapping_add(1);
            sent += 1;
            match probe(c, 1, tx, wait).await {
                Probe::Answered(0xBEEF) => {}
                other => return Err(format!("INFRA: fresh session {} did not answer the sentinel: {:?}", i, other)),
            }
        }
        let mut ok = CaseOk::new();
        ok.label(if case.tls { "transport:tls" } else { "transport:tcp" });
        let mut big = false;
        for (ri, (si, n, level, hold)) in case.rounds.iter().enumerate() {
            let i = *si as usize % conns.len();
            hold_ms.store(*hold as u64 * slow as u64, Ordering::SeqCst);
            tx = tx.wrapping_add(1);
            sent += 1;
            let before = calls.load(Ordering::SeqCst);
            conns[i]
                .write_all(&mbap_frame(tx, 1, &[3, 0, 1, 0, 1]))
                .await
                .map_err(|e| format!("round {}: writing the request on session {} failed: {}", ri, i, e))?;
            // the transaction is outstanding once the handler has been entered
            let t0 = std::time::Instant::now();
            while calls.load(Ordering::SeqCst) == before {
                if t0.elapsed() > wait {
                    return Err(format!("round {}: the request on session {} never reached the handler", ri, i));
                }
                tokio::time::sleep(Duration::from_millis(1)).await;
            }
            for k in 0..*n {
                let l = if k % 2 == 0 { level.to_rodbus() } else { case.initial.to_rodbus() };
                match tokio::time::timeout(wait, handle.set_decode_level(l)).await {
                    Ok(Ok(())) => {}
                    Ok(Err(_)) => return Err(format!("round {}: set_decode_level failed on a running server", ri)),
                    Err(_) => return Err(format!("round {}: set_decode_level call {} of {} did not return", ri, k + 1, n)),
                }
            }
            if *n > 8 {
                big = true;
            }
            let describe = format!(
                "round {}: {} level changes sent through the ServerHandle while the request on session {} was in the handler ({} ms)",
                ri, n, i, *hold as u64 * slow as u64
            );
            match read_reply(&mut conns[i], tx, wait + Duration::from_millis(*hold as u64 * slow as u64)).await {
                Probe::Answered(0x1234) => {}
                other => return Err(format!("{}: the outstanding request got {:?} instead of its reply", describe, other)),
            }
            // every session, the busy one included, goes on as if nothing had happened
            for (j, c) in conns.iter_mut().enumerate() {
                tx = tx.wrapping_add(1);
                sent += 1;
                match probe(c, 1, tx, wait).await {
                    Probe::Answered(0xBEEF) => {}
                    other => {
                        return Err(format!(
                            "{}: afterwards session {}{} got {:?} for the sentinel request",
                            describe,
                            j,
                            if j == i { " (the one that was busy)" } else { "" },
                            other
                        ))
                    }
                }
            }
        }
        let seen = calls.load(Ordering::SeqCst);
        if seen != sent {
            return Err(format!("{} requests were sent and answered, the handler was invoked {} times", sent, seen));
        }
        drop(conns);
        drop(handle);
        let _ = tokio::time::timeout(wait, join).await;
        if big {
            ok.label("more_changes_than_a_session_queue_holds");
        }
        ok.nontrivial = big;
        Ok(ok)
    })
}
