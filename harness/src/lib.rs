pub mod app;
pub mod gen;
pub mod model;
pub mod props;
pub mod runner;
pub mod sim;
pub mod simsrv;
pub mod trace;
