//! C16-b: only peers matching the address filter are ever served, in every server variant and
//! through both the Rust API and the C ABI.

use std::net::{IpAddr, Ipv4Addr, SocketAddr};
use std::os::raw::{c_char, c_int, c_void};
use std::pin::Pin;
use std::sync::atomic::{AtomicU64, Ordering};
use std::sync::Arc;
use std::task::{Context, Poll};
use std::time::Duration;

use proptest::collection::vec;
use proptest::prelude::*;
use rodbus::server::{AddressFilter, Authorization, AuthorizationHandler, RequestHandler, ServerHandlerMap, TlsServerConfig};
use rodbus::{AddressRange, DecodeLevel, ExceptionCode, UnitId};
use rodbus_ffi::ffi;
use serde::{Deserialize, Serialize};
use tokio::io::{AsyncRead, AsyncReadExt, AsyncWrite, AsyncWriteExt, ReadBuf};
use tokio::net::{TcpListener, TcpSocket, TcpStream};
use tokio_rustls::rustls::pki_types::ServerName;

use super::c09::{path, peer_client_config, Offer};
use super::*;
use crate::ffi::{cstr, decode_level, free_port, FfiRuntime};
use crate::model::framing::mbap_frame;
use crate::runner::CaseResult;

#[derive(Clone, Debug, PartialEq, Eq, Hash, Serialize, Deserialize)]
pub enum FilterSpec {
    Any,
    Exact([u8; 4]),
    AnyOf(Vec<[u8; 4]>),
    /// None = '*'
    Wildcard([Option<u8>; 4]),
}

#[derive(Copy, Clone, Debug, PartialEq, Eq, Hash, Serialize, Deserialize)]
pub enum Variant {
    TcpRust,
    TlsRust,
    TlsAuthzRust,
    TcpC,
    TlsC,
    TlsAuthzC,
}

#[derive(Clone, Debug, PartialEq, Eq, Hash, Serialize, Deserialize)]
pub struct C16Case {
    pub variant: Variant,
    pub filter: FilterSpec,
    pub peers: Vec<[u8; 4]>,
    pub ipv6_peer: bool,
    /// after the one-by-one probes: rounds in which up to six peers connect within microseconds
    /// of each other, so that the server finds several of them waiting in its accept queue
    #[serde(default)]
    pub burst_rounds: u8,
}

const LATTICE: [u8; 7] = [0, 1, 2, 127, 128, 254, 255];

fn arb_octet() -> BoxedStrategy<u8> {
    prop_oneof![6 => prop::sample::select(LATTICE.to_vec()), 1 => any::<u8>()].boxed()
}

fn arb_addr() -> BoxedStrategy<[u8; 4]> {
    // peers must live in 127/8 to be usable as loopback source addresses; filters may name others
    (arb_octet(), arb_octet(), arb_octet()).prop_map(|(a, b, c)| [127, a, b, c]).boxed()
}

pub fn arb_c16() -> BoxedStrategy<C16Case> {
    let filter = prop_oneof![
        1 => Just(FilterSpec::Any),
        3 => arb_addr().prop_map(FilterSpec::Exact),
        3 => vec(arb_addr(), 1..=4).prop_map(FilterSpec::AnyOf),
        6 => (
            prop_oneof![3 => Just(Some(127u8)), 2 => Just(None), 1 => Just(Some(128u8)), 1 => Just(Some(126u8))],
            proptest::option::weighted(0.6, arb_octet()),
            proptest::option::weighted(0.6, arb_octet()),
            proptest::option::weighted(0.6, arb_octet()),
        )
            .prop_map(|(a, b, c, d)| FilterSpec::Wildcard([a, b, c, d])),
    ];
    (
        prop::sample::select(vec![Variant::TcpRust, Variant::TlsRust, Variant::TlsAuthzRust, Variant::TcpC, Variant::TlsC, Variant::TlsAuthzC]),
        filter,
        vec((arb_addr(), 0u8..4, arb_octet()), 4..10),
        prop::bool::weighted(0.3),
        prop_oneof![1 => Just(0u8), 2 => 1u8..=3],
    )
        .prop_map(|(variant, filter, raw_peers, ipv6_peer, burst_rounds)| {
            // peers: random ones plus neighbours of addresses the filter names (one octet off)
            let mut named: Vec<[u8; 4]> = match &filter {
                FilterSpec::Any => vec![],
                FilterSpec::Exact(a) => vec![*a],
                FilterSpec::AnyOf(v) => v.clone(),
                FilterSpec::Wildcard(w) => vec![[w[0].unwrap_or(127), w[1].unwrap_or(7), w[2].unwrap_or(8), w[3].unwrap_or(9)]],
            };
            named.retain(|a| a[0] == 127);
            let mut peers: Vec<[u8; 4]> = Vec::new();
            for (p, pos, oct) in raw_peers {
                peers.push(p);
                if let Some(n) = named.first() {
                    let mut m = *n;
                    if pos > 0 {
                        m[pos as usize] = oct;
                    }
                    peers.push(m);
                }
            }
            for n in named {
                peers.push(n);
            }
            peers.retain(|p| *p != [127, 0, 0, 0] && *p != [127, 255, 255, 255]);
            peers.sort();
            peers.dedup();
            peers.truncate(14);
            C16Case {
                variant,
                filter,
                peers,
                ipv6_peer,
                burst_rounds,
            }
        })
        .boxed()
}

fn model_matches(f: &FilterSpec, peer: IpAddr) -> bool {
    match (f, peer) {
        (FilterSpec::Any, _) => true,
        (FilterSpec::Exact(a), IpAddr::V4(p)) => p.octets() == *a,
        (FilterSpec::AnyOf(v), IpAddr::V4(p)) => v.iter().any(|a| p.octets() == *a),
        (FilterSpec::Wildcard(w), IpAddr::V4(p)) => {
            let o = p.octets();
            (0..4).all(|i| w[i].map(|x| x == o[i]).unwrap_or(true))
        }
        (_, IpAddr::V6(_)) => false,
    }
}

fn filter_strings(f: &FilterSpec) -> Vec<String> {
    let ip = |a: &[u8; 4]| format!("{}.{}.{}.{}", a[0], a[1], a[2], a[3]);
    match f {
        FilterSpec::Any => vec![],
        FilterSpec::Exact(a) => vec![ip(a)],
        FilterSpec::AnyOf(v) => v.iter().map(ip).collect(),
        FilterSpec::Wildcard(w) => vec![w
            .iter()
            .map(|o| o.map(|x| x.to_string()).unwrap_or_else(|| "*".to_string()))
            .collect::<Vec<_>>()
            .join(".")],
    }
}

fn rust_filter(f: &FilterSpec) -> Result<AddressFilter, String> {
    Ok(match f {
        FilterSpec::Any => AddressFilter::Any,
        FilterSpec::Exact(a) => AddressFilter::Exact(IpAddr::V4(Ipv4Addr::from(*a))),
        FilterSpec::AnyOf(v) => AddressFilter::AnyOf(v.iter().map(|a| IpAddr::V4(Ipv4Addr::from(*a))).collect()),
        FilterSpec::Wildcard(_) => {
            use std::str::FromStr;
            let s = &filter_strings(f)[0];
            AddressFilter::WildcardIpv4(
                rodbus::server::WildcardIPv4::from_str(s).map_err(|_| format!("valid wildcard {:?} rejected by the parser", s))?,
            )
        }
    })
}

struct Sentinel;
impl RequestHandler for Sentinel {
    fn read_holding_register(&self, address: u16) -> Result<u16, ExceptionCode> {
        if address == 0 {
            Ok(0xBEEF)
        } else {
            Err(ExceptionCode::IllegalDataAddress)
        }
    }
}

struct AllowAll;
impl AuthorizationHandler for AllowAll {
    fn read_holding_registers(&self, _u: UnitId, _r: AddressRange, _role: &str) -> Authorization {
        Authorization::Allow
    }
}

/// counts the bytes received from the server
struct Counting {
    inner: TcpStream,
    read: Arc<AtomicU64>,
}

impl AsyncRead for Counting {
    fn poll_read(mut self: Pin<&mut Self>, cx: &mut Context<'_>, buf: &mut ReadBuf<'_>) -> Poll<std::io::Result<()>> {
        let before = buf.filled().len();
        let r = Pin::new(&mut self.inner).poll_read(cx, buf);
        let n = buf.filled().len() - before;
        self.read.fetch_add(n as u64, Ordering::SeqCst);
        r
    }
}

impl AsyncWrite for Counting {
    fn poll_write(mut self: Pin<&mut Self>, cx: &mut Context<'_>, data: &[u8]) -> Poll<std::io::Result<usize>> {
        Pin::new(&mut self.inner).poll_write(cx, data)
    }
    fn poll_flush(mut self: Pin<&mut Self>, cx: &mut Context<'_>) -> Poll<std::io::Result<()>> {
        Pin::new(&mut self.inner).poll_flush(cx)
    }
    fn poll_shutdown(mut self: Pin<&mut Self>, cx: &mut Context<'_>) -> Poll<std::io::Result<()>> {
        Pin::new(&mut self.inner).poll_shutdown(cx)
    }
}

pub(crate) extern "C" fn c_write_coil(_i: u16, _v: bool, _db: *mut rodbus_ffi::Database, _ctx: *mut c_void) -> ffi::WriteResult {
    ffi::WriteResultFields { success: false, exception: ffi::ModbusException::IllegalFunction, raw_exception: 0 }.into()
}
pub(crate) extern "C" fn c_noop(_ctx: *mut c_void) {}
pub(crate) extern "C" fn c_configure(db: *mut rodbus_ffi::Database, _ctx: *mut c_void) {
    unsafe {
        ffi::rodbus_database_add_holding_register(db, 0, 0xBEEF);
    }
}
pub(crate) extern "C" fn c_allow_range(_u: u8, _r: ffi::AddressRange, _role: *const c_char, _ctx: *mut c_void) -> c_int {
    ffi::Authorization::Allow.into()
}
pub(crate) extern "C" fn c_allow_index(_u: u8, _i: u16, _role: *const c_char, _ctx: *mut c_void) -> c_int {
    ffi::Authorization::Allow.into()
}

enum Running {
    Rust(rodbus::server::ServerHandle, tokio::task::JoinHandle<()>),
    C(*mut rodbus_ffi::Server, FfiRuntime),
}

pub fn check_c16(case: &C16Case) -> CaseResult {
    retry3(|slow| run_once(case, slow))
}

/// One request on a fresh connection: (bytes of the reply read, bytes of any kind received
/// from the server, whether the TLS handshake completed)
async fn probe_stream(stream: tokio::net::TcpStream, tls: bool, wait: Duration) -> (Vec<u8>, u64, bool) {
    let _ = stream.set_nodelay(true);
    let count = Arc::new(AtomicU64::new(0));
    let mut counting = Counting {
        inner: stream,
        read: count.clone(),
    };
    let request = mbap_frame(1, 1, &[3, 0, 0, 0, 1]);
    let want = mbap_frame(1, 1, &[3, 2, 0xBE, 0xEF]);
    let mut got: Vec<u8> = Vec::new();
    let mut handshake_ok = !tls;
    if tls {
        let connector = tokio_rustls::TlsConnector::from(peer_client_config(Offer::Both, Some("client_operator")));
        let name = ServerName::try_from("test.com").unwrap();
        if let Ok(Ok(mut t)) = tokio::time::timeout(wait, connector.connect(name, counting)).await {
            handshake_ok = true;
            if t.write_all(&request).await.is_ok() {
                let mut buf = [0u8; 64];
                while got.len() < want.len() {
                    match tokio::time::timeout(wait, t.read(&mut buf)).await {
                        Ok(Ok(n)) if n > 0 => got.extend_from_slice(&buf[..n]),
                        _ => break,
                    }
                }
            }
        }
    } else {
        let _ = counting.write_all(&request).await;
        let mut buf = [0u8; 64];
        while got.len() < want.len() {
            match tokio::time::timeout(wait, counting.read(&mut buf)).await {
                Ok(Ok(n)) if n > 0 => got.extend_from_slice(&buf[..n]),
                _ => break,
            }
        }
    }
    (got, count.load(Ordering::SeqCst), handshake_ok)
}

/// A non-blocking connect from a given source address that has been started (the SYN is out)
/// when this returns
fn raw_connect(src: Ipv4Addr, dest_port: u16) -> Result<std::net::TcpStream, String> {
    use std::os::fd::FromRawFd;
    unsafe {
        let fd = libc::socket(libc::AF_INET, libc::SOCK_STREAM | libc::SOCK_NONBLOCK | libc::SOCK_CLOEXEC, 0);
        if fd < 0 {
            return Err("INFRA: socket()".to_string());
        }
        let mut sa: libc::sockaddr_in = std::mem::zeroed();
        sa.sin_family = libc::AF_INET as libc::sa_family_t;
        sa.sin_addr.s_addr = u32::from(src).to_be();
        let len = std::mem::size_of::<libc::sockaddr_in>() as libc::socklen_t;
        if libc::bind(fd, &sa as *const _ as *const libc::sockaddr, len) != 0 {
            libc::close(fd);
            return Err(format!("INFRA: bind source {} failed", src));
        }
        let mut da: libc::sockaddr_in = std::mem::zeroed();
        da.sin_family = libc::AF_INET as libc::sa_family_t;
        da.sin_port = dest_port.to_be();
        da.sin_addr.s_addr = u32::from(Ipv4Addr::new(127, 0, 0, 1)).to_be();
        let rc = libc::connect(fd, &da as *const _ as *const libc::sockaddr, len);
        if rc != 0 && std::io::Error::last_os_error().raw_os_error() != Some(libc::EINPROGRESS) {
            libc::close(fd);
            return Err(format!("INFRA: connect from {} failed", src));
        }
        Ok(std::net::TcpStream::from_raw_fd(fd))
    }
}

fn run_once(case: &C16Case, slow: u32) -> CaseResult {
    let rt = rt(2);
    let wait = Duration::from_millis(1500 * slow as u64);
    let tls = !matches!(case.variant, Variant::TcpRust | Variant::TcpC);
    let is_c = matches!(case.variant, Variant::TcpC | Variant::TlsC | Variant::TlsAuthzC);
    let v6 = case.ipv6_peer;
    let listen_ip = if v6 { "::1" } else { "127.0.0.1" };

    // ---- start the server
    let mut port = 0u16;
    let mut refused_add = false;
    let running: Running = if !is_c {
        let filter = rust_filter(&case.filter)?;
        let started = rt.block_on(async {
            let listener = TcpListener::bind((listen_ip, 0)).await.map_err(|e| format!("INFRA: bind {}", e))?;
            let p = listener.local_addr().unwrap().port();
            let map = ServerHandlerMap::single(UnitId::new(1), Sentinel.wrap());
            let cfg = || {
                TlsServerConfig::new(
                    &path("ca1", "pem"),
                    &path("server_ok", "pem"),
                    &path("server_ok", "key"),
                    None,
                    super::c09::min_tls(12),
                    rodbus::client::CertificateMode::AuthorityBased,
                )
                .map_err(|e| format!("INFRA: tls config {}", e))
            };
            let (h, t) = match case.variant {
                Variant::TcpRust => rodbus::server::create_tcp_server_task(8, listener, map, filter, DecodeLevel::nothing()),
                Variant::TlsRust => rodbus::server::create_tls_server_task(8, listener, map, cfg()?, filter, DecodeLevel::nothing()),
                _ => rodbus::server::create_tls_server_task_with_authz(8, listener, map, Arc::new(AllowAll), cfg()?, filter, DecodeLevel::nothing()),
            };
            let j = tokio::spawn(t.run());
            Ok::<_, String>((p, h, j))
        })?;
        port = started.0;
        Running::Rust(started.1, started.2)
    } else {
        let frt = FfiRuntime::new(2)?;
        let strings = filter_strings(&case.filter);
        let mut server: *mut rodbus_ffi::Server = std::ptr::null_mut();
        unsafe {
            let filter: *mut rodbus_ffi::AddressFilter = if strings.is_empty() {
                ffi::rodbus_address_filter_any()
            } else {
                let mut f: *mut rodbus_ffi::AddressFilter = std::ptr::null_mut();
                let first = cstr(&strings[0]);
                let rc = ffi::rodbus_address_filter_create(first.as_ptr(), &mut f);
                if rc != 0 || f.is_null() {
                    return Err(format!("rodbus_address_filter_create({:?}) failed with {:?}", strings[0], ffi::ParamError::from(rc)));
                }
                for s in &strings[1..] {
                    let c = cstr(s);
                    let rc = ffi::rodbus_address_filter_add(f, c.as_ptr());
                    if rc != 0 {
                        return Err(format!("rodbus_address_filter_add({:?}) failed with {:?}", s, ffi::ParamError::from(rc)));
                    }
                }
                f
            };
            // in half of the cases the application then attempts an addition that the C ABI
            // refuses (an address for an "any" or wildcard filter, a string that is no address
            // for a set): the call reports an error and the filter must stay what it was
            if case.peers.len() % 2 == 0 {
                // (a wildcard without '*' is an address: the C ABI makes a set of it)
                let is_set = strings.first().map(|t| t.parse::<IpAddr>().is_ok()).unwrap_or(false);
                let text = if is_set { "not-an-address" } else { "10.9.8.7" };
                let c = cstr(text);
                let rc = ffi::rodbus_address_filter_add(filter, c.as_ptr());
                if rc == 0 {
                    ffi::rodbus_address_filter_destroy(filter);
                    return Err(format!("INFRA: rodbus_address_filter_add({:?}) on filter {:?} was accepted; the harness has no model for that", text, filter_strings(&case.filter)));
                }
                refused_add = true;
            }
            for _ in 0..8 {
                let map = ffi::rodbus_device_map_create();
                let handler = ffi::WriteHandler {
                    write_single_coil: Some(c_write_coil),
                    write_single_register: None,
                    write_multiple_coils: None,
                    write_multiple_registers: None,
                    on_destroy: Some(c_noop),
                    ctx: std::ptr::null_mut(),
                };
                let cfgcb = ffi::DatabaseCallback {
                    callback: Some(c_configure),
                    on_destroy: Some(c_noop),
                    ctx: std::ptr::null_mut(),
                };
                ffi::rodbus_device_map_add_endpoint(map, 1, handler, cfgcb);
                port = free_port();
                let ip = cstr(listen_ip);
                let peer = cstr(path("ca1", "pem").to_str().unwrap());
                let local = cstr(path("server_ok", "pem").to_str().unwrap());
                let key = cstr(path("server_ok", "key").to_str().unwrap());
                let pw = cstr("");
                let tls_cfg = ffi::TlsServerConfig {
                    peer_cert_path: peer.as_ptr(),
                    local_cert_path: local.as_ptr(),
                    private_key_path: key.as_ptr(),
                    password: pw.as_ptr(),
                    min_tls_version: ffi::MinTlsVersion::V12.into(),
                    certificate_mode: ffi::CertificateMode::AuthorityBased.into(),
                };
                let rc = match case.variant {
                    Variant::TcpC => ffi::rodbus_server_create_tcp(frt.0, ip.as_ptr(), port, filter, 8, map, decode_level(0, 0, 0), &mut server),
                    Variant::TlsC => ffi::rodbus_server_create_tls(frt.0, ip.as_ptr(), port, filter, 8, map, tls_cfg, decode_level(0, 0, 0), &mut server),
                    _ => {
                        let auth = ffi::AuthorizationHandler {
                            read_coils: Some(c_allow_range),
                            read_discrete_inputs: Some(c_allow_range),
                            read_holding_registers: Some(c_allow_range),
                            read_input_registers: Some(c_allow_range),
                            write_single_coil: Some(c_allow_index),
                            write_single_register: Some(c_allow_index),
                            write_multiple_coils: Some(c_allow_range),
                            write_multiple_registers: Some(c_allow_range),
                            on_destroy: Some(c_noop),
                            ctx: std::ptr::null_mut(),
                        };
                        ffi::rodbus_server_create_tls_with_authz(frt.0, ip.as_ptr(), port, filter, 8, map, tls_cfg, auth, decode_level(0, 0, 0), &mut server)
                    }
                };
                ffi::rodbus_device_map_destroy(map);
                if rc == 0 && !server.is_null() {
                    break;
                }
            }
            ffi::rodbus_address_filter_destroy(filter);
        }
        if server.is_null() {
            return Err("INFRA: could not create the C-ABI server".to_string());
        }
        Running::C(server, frt)
    };

    // ---- probe
    let mut peers: Vec<IpAddr> = if v6 {
        vec!["::1".parse().unwrap()]
    } else {
        case.peers.iter().map(|p| IpAddr::V4(Ipv4Addr::from(*p))).collect()
    };
    if !v6 {
        peers.push("127.0.0.1".parse().unwrap());
    }
    peers.dedup();
    let result: Result<(u32, u32, u32, u32), String> = rt.block_on(async {
        let (mut served, mut refused, mut near) = (0u32, 0u32, 0u32);
        let mut bursts = 0u32;
        for peer in &peers {
            let expect = model_matches(&case.filter, *peer);
            let socket = if v6 { TcpSocket::new_v6() } else { TcpSocket::new_v4() }.map_err(|e| format!("INFRA: socket {}", e))?;
            socket.bind(SocketAddr::new(*peer, 0)).map_err(|e| format!("INFRA: bind source {} failed: {}", peer, e))?;
            let dest: SocketAddr = format!("{}:{}", if v6 { "[::1]" } else { "127.0.0.1" }, port).parse().unwrap();
            let stream = match tokio::time::timeout(wait, socket.connect(dest)).await {
                Ok(Ok(s)) => s,
                Ok(Err(e)) => return Err(format!("INFRA: connect from {} failed: {}", peer, e)),
                Err(_) => return Err(format!("INFRA: connect from {} timed out", peer)),
            };
            let (got, bytes, handshake_ok) = probe_stream(stream, tls, wait).await;
            let want = mbap_frame(1, 1, &[3, 2, 0xBE, 0xEF]);
            let was_served = got == want;
            if expect {
                if !was_served {
                    return Err(format!(
                        "peer {} matches filter {:?} ({:?}) but was not served (handshake ok: {}, reply {:02X?})",
                        peer, filter_strings(&case.filter), case.variant, handshake_ok, got
                    ));
                }
                served += 1;
            } else {
                if was_served || bytes != 0 {
                    return Err(format!(
                        "peer {} does not match filter {:?} ({:?}) but received {} bytes from the server{}",
                        peer,
                        filter_strings(&case.filter),
                        case.variant,
                        bytes,
                        if was_served { " including a Modbus reply" } else { "" }
                    ));
                }
                refused += 1;
                // differs from a matching address in exactly one octet?
                if let IpAddr::V4(p) = peer {
                    let o = p.octets();
                    for i in 1..4 {
                        for cand in LATTICE.iter().chain(std::iter::once(&7)).chain(std::iter::once(&8)).chain(std::iter::once(&9)) {
                            let mut m = o;
                            m[i] = *cand;
                            if model_matches(&case.filter, IpAddr::V4(Ipv4Addr::from(m))) {
                                near += 1;
                            }
                        }
                    }
                }
            }
        }
        // ---- bursts: several peers in the accept queue at the same time
        if !v6 {
            let v4: Vec<Ipv4Addr> = peers
                .iter()
                .filter_map(|p| match p {
                    IpAddr::V4(a) => Some(*a),
                    _ => None,
                })
                .collect();
            let (yes, no): (Vec<Ipv4Addr>, Vec<Ipv4Addr>) = v4.iter().partition(|a| model_matches(&case.filter, IpAddr::V4(**a)));
            for round in 0..case.burst_rounds as usize {
                // up to six peers (the server keeps eight sessions), admitted and not admitted
                // ones alternating, starting with one or the other
                let mut order: Vec<Ipv4Addr> = Vec::new();
                let (mut a, mut b) = (yes.iter().cycle().skip(round), no.iter().cycle().skip(round));
                for k in 0..6 {
                    let pick = if (k + round) % 2 == 0 { a.next().or_else(|| b.next()) } else { b.next().or_else(|| a.next()) };
                    if let Some(x) = pick {
                        order.push(*x);
                    }
                }
                let mut started = Vec::new();
                for src in &order {
                    started.push((*src, raw_connect(*src, port)?));
                }
                let mixed = order.iter().any(|x| yes.contains(x)) && order.iter().any(|x| no.contains(x));
                for (src, std_stream) in started {
                    let stream = tokio::net::TcpStream::from_std(std_stream).map_err(|e| format!("INFRA: from_std {}", e))?;
                    match tokio::time::timeout(wait, stream.writable()).await {
                        Ok(Ok(())) => {}
                        _ => return Err(format!("INFRA: burst connect from {} did not complete", src)),
                    }
                    let expect = model_matches(&case.filter, IpAddr::V4(src));
                    let (got, bytes, handshake_ok) = probe_stream(stream, tls, wait).await;
                    let want = mbap_frame(1, 1, &[3, 2, 0xBE, 0xEF]);
                    if expect && got != want {
                        return Err(format!(
                            "burst of {} connections {:?}: peer {} matches filter {:?} ({:?}) but was not served (handshake ok: {}, reply {:02X?})",
                            order.len(), order, src, filter_strings(&case.filter), case.variant, handshake_ok, got
                        ));
                    }
                    if !expect && (got == want || bytes != 0) {
                        return Err(format!(
                            "burst of {} connections {:?}: peer {} does not match filter {:?} ({:?}) but received {} bytes from the server{}",
                            order.len(), order, src, filter_strings(&case.filter), case.variant, bytes,
                            if got == want { " including a Modbus reply" } else { "" }
                        ));
                    }
                }
                if mixed {
                    bursts += 1;
                }
                // the sessions of this round end before the next one starts
                tokio::time::sleep(Duration::from_millis(10)).await;
            }
        }
        Ok((served, refused, near, bursts))
    });
    match running {
        Running::Rust(h, j) => {
            drop(h);
            let _ = rt.block_on(async { tokio::time::timeout(wait, j).await });
        }
        Running::C(s, frt) => {
            unsafe { ffi::rodbus_server_destroy(s) };
            drop(frt);
        }
    }
    let (served, refused, near, bursts) = result?;
    let mut ok = CaseOk::new();
    ok.label(match case.variant {
        Variant::TcpRust => "variant:tcp_rust",
        Variant::TlsRust => "variant:tls_rust",
        Variant::TlsAuthzRust => "variant:tls_authz_rust",
        Variant::TcpC => "variant:tcp_c",
        Variant::TlsC => "variant:tls_c",
        Variant::TlsAuthzC => "variant:tls_authz_c",
    });
    if served > 0 {
        ok.label("some_served");
    }
    if refused > 0 {
        ok.label("some_refused");
    }
    if v6 {
        ok.label("ipv6_peer");
    }
    if bursts > 0 {
        ok.label("mixed_burst");
    }
    if refused_add {
        ok.label("c_abi_refused_add_before_use");
    }
    ok.nontrivial = served > 0 && refused > 0 && near > 0;
    Ok(ok)
}
